"""python -m vf.replay <file.json>: re-run one saved case without Hypothesis; exit 1 + VIOLATION line if it fails."""
import json
import os
import sys


def main():
    if os.environ.get("PYTHONHASHSEED") != "0":
        env = dict(os.environ)
        env["PYTHONHASHSEED"] = "0"
        env.setdefault("PYTHONWARNINGS", "ignore")
        os.execve(sys.executable, [sys.executable, "-m", "vf.replay"] + sys.argv[1:], env)
    from . import run
    path = sys.argv[1]
    with open(path) as f:
        doc = json.load(f)
    prop = doc["property"]
    v = run.replay_case(prop, doc)
    if v is None:
        print("replay %s: property %s holds for this case" % (path, prop))
        return 0
    print("VIOLATION property=%s replay=%s" % (prop, path))
    print("  sig=%s :: %s" % (v.sig, v.message))
    return 1


if __name__ == "__main__":
    sys.exit(main())
