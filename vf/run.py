"""Entry point: python -m vf.run <ID> --tier quick|thorough [--shards N] [--budget S]"""
from __future__ import annotations

import argparse
import importlib
import json
import multiprocessing
import os
import sys
import time
import traceback

from . import core


def _reexec_with_fixed_hashseed():
    if os.environ.get("PYTHONHASHSEED") != "0":
        env = dict(os.environ)
        env["PYTHONHASHSEED"] = "0"
        env.setdefault("PYTHONWARNINGS", "ignore")
        os.execve(sys.executable, [sys.executable, "-m", "vf.run"] + sys.argv[1:], env)


def load_check(prop: str):
    return importlib.import_module("vf.checks.%s" % prop.lower())


def _shard_main(args):
    prop, tier, seed, shard, nshards, budget, excluded = args
    core.quiet_logging()
    ctx = core.Ctx(prop, tier, seed, shard, nshards, budget, excluded)
    try:
        mod = load_check(prop)
        ctx.redirect_shadow()
        mod.shard(ctx)
    except BaseException:
        ctx.rec.errors.append("shard %d: %s" % (shard, traceback.format_exc()))
    finally:
        ctx.cleanup()
    return ctx.rec.dump()


def replay_case(prop: str, doc: dict, tier="quick"):
    """Re-run one saved case without Hypothesis. Returns a Violation or None."""
    core.quiet_logging()
    mod = load_check(prop)
    ctx = core.Ctx(prop, tier, 0, 0, 1, 3600, replaying=True)
    try:
        ctx.redirect_shadow()
        mod.replay(doc.get("sub"), doc["case"], ctx)
    except core.Violation as v:
        v.sub = doc.get("sub")
        if v.case is None:
            v.case = doc["case"]
        return v
    finally:
        ctx.cleanup()
    return None


def _replay_worker(args):
    prop, path = args
    try:
        with open(path) as f:
            doc = json.load(f)
        v = replay_case(prop, doc)
        return path, (v.to_dict() if v else None), None
    except BaseException:
        return path, None, traceback.format_exc()


def write_replay(prop: str, vd: dict, seed: int, tier: str) -> str:
    d = os.path.join(core.REPLAY_DIR, prop)
    os.makedirs(d, exist_ok=True)
    name = "%s-%016x.json" % (vd["sig"].replace("/", "_").replace(":", "_").replace(" ", "_")[:60],
                              core.jhash(vd["case"]))
    path = os.path.join(d, name)
    with open(path, "w") as f:
        json.dump({"property": prop, "sig": vd["sig"], "message": vd["message"], "sub": vd.get("sub"),
                   "case": vd["case"], "seed": seed, "tier": tier}, f, indent=1, sort_keys=True, default=str)
    return path


def main(argv=None):
    _reexec_with_fixed_hashseed()
    ap = argparse.ArgumentParser()
    ap.add_argument("prop")
    ap.add_argument("--tier", default=os.environ.get("VERIF_TIER", "quick"), choices=["quick", "thorough"])
    ap.add_argument("--shards", type=int, default=None)
    ap.add_argument("--budget", type=float, default=None, help="soft wall-clock budget (s) for the search")
    a = ap.parse_args(argv)
    prop = a.prop.upper()
    try:
        seed = int(os.environ.get("VERIF_SEED", "1"))
    except ValueError:
        seed = core.derive_seed(os.environ.get("VERIF_SEED"))
    t0 = time.time()
    try:
        mod = load_check(prop)
    except BaseException:
        traceback.print_exc()
        print("HARNESS-ERROR property=%s cannot import check" % prop)
        return 2
    tiers = getattr(mod, "TIERS", {})
    tcfg = dict({"shards": 8 if a.tier == "quick" else 16, "budget": 150 if a.tier == "quick" else 3000})
    tcfg.update(tiers.get(a.tier, {}))
    nshards = a.shards or tcfg["shards"]
    budget = a.budget or tcfg["budget"]

    known = core.known_open_sigs(prop)
    violations = []          # dicts
    known_seen = {}          # sig -> what
    notes = []
    errors = []

    # 1. regression / known-finding replays ------------------------------------------------------------
    paths = []
    rdir = os.path.join(core.REGRESS_DIR, prop)
    if os.path.isdir(rdir):
        paths += [os.path.join(rdir, p) for p in sorted(os.listdir(rdir)) if p.endswith(".json")]
    for k in known.values():
        if k.get("replay"):
            p = os.path.join(core.VERIF, k["replay"])
            if p not in paths:
                paths.append(p)
    n_replayed = 0
    if paths:
        ctxmp = multiprocessing.get_context("fork")
        with ctxmp.Pool(min(len(paths), 16), maxtasksperchild=1) as pool:
            for path, vd, err in pool.imap(_replay_worker, [(prop, p) for p in paths]):
                n_replayed += 1
                if err:
                    errors.append("replay %s: %s" % (path, err))
                elif vd is not None:
                    if vd["sig"] in known:
                        known_seen[vd["sig"]] = known[vd["sig"]].get("what", vd["message"])
                    else:
                        vd["replay_path"] = path
                        violations.append(vd)
    excluded = set(known_seen)
    for sig, k in known.items():
        if sig not in known_seen and k.get("replay"):
            notes.append("known finding %s did not reproduce from its replay file" % sig)

    # 2. generated search ---------------------------------------------------------------------------
    ctxmp = multiprocessing.get_context("fork")
    jobs = [(prop, a.tier, seed, i, nshards, budget, sorted(excluded)) for i in range(nshards)]
    with ctxmp.Pool(min(nshards, int(os.environ.get("VERIF_PROCS", "16"))), maxtasksperchild=1) as pool:
        dumps = pool.map(_shard_main, jobs, chunksize=1)
    m = core.Recorder.merge(dumps)
    errors += m["errors"]
    notes += m["notes"]
    for sig, vd in m["known"].items():
        known_seen.setdefault(sig, known.get(sig, {}).get("what", vd["message"]))
    seen_sigs = set()
    for vd in m["violations"]:
        if vd["sig"] in known:      # found by a shard after its restart budget
            known_seen.setdefault(vd["sig"], known[vd["sig"]].get("what", vd["message"]))
            continue
        violations.append(vd)

    # 3. report ----------------------------------------------------------------------------------
    for sig, what in sorted(known_seen.items()):
        print("KNOWN-FINDING: property=%s %s [%s]" % (prop, what, sig))
    rc = 0
    out_v = []
    for vd in violations:
        if vd["sig"] in seen_sigs:
            continue
        seen_sigs.add(vd["sig"])
        path = vd.get("replay_path") or write_replay(prop, vd, seed, a.tier)
        print("VIOLATION property=%s replay=%s" % (prop, path))
        print("  sig=%s :: %s" % (vd["sig"], str(vd["message"])[:1500]))
        out_v.append({"sig": vd["sig"], "replay": path})
        rc = 1
    if errors:
        for e in errors[:5]:
            sys.stderr.write(e + "\n")
        print("HARNESS-ERROR property=%s %d error(s); first: %s" % (prop, len(errors), errors[0].strip().splitlines()[-1]))
        if rc == 0:
            rc = 2

    wall = time.time() - t0
    extra = {k: (sorted(v, key=str) if isinstance(v, set) else v) for k, v in m["extra"].items()}
    samples = m["samples"] or []
    ev = {
        "property_id": prop, "tier": a.tier, "seed": seed, "level": getattr(mod, "LEVEL", "exploration"),
        "coverage": {
            # one generated case can contain several executions (e.g. one fault run per write boundary, one parse per
            # reference of a generated 'world'): count executions when there are more of them than cases
            "evaluations": max(m["evaluations"], m["units"]) + n_replayed,
            "cases_generated": m["evaluations"],
            "distinct_nontrivial": len(m["nontrivial"]),
            "rule": getattr(mod, "RULE", ""),
            "samples": samples,
            "labels": dict(sorted(m["labels"].items())),
            "excluded_known": dict(m["excluded"]),
            "known_findings_reproduced": sorted(known_seen),
            "regression_replays": n_replayed,
            "shards": nshards,
            "exhaustive": bool(getattr(mod, "EXHAUSTIVE", False)),
            "extra": extra,
            "notes": notes[:20],
            "violations_found": out_v,
            "harness_errors": len(errors),
        },
        "assumptions": list(getattr(mod, "ASSUMPTIONS", [])),
        "wall_s": round(wall, 2),
        "violations": len(out_v),
    }
    os.makedirs(core.EVIDENCE_DIR, exist_ok=True)
    tmp = os.path.join(core.EVIDENCE_DIR, ".%s.json.tmp" % prop)
    with open(tmp, "w") as f:
        json.dump(ev, f, indent=1, sort_keys=True, default=str)
    os.replace(tmp, os.path.join(core.EVIDENCE_DIR, "%s.json" % prop))
    print("%s tier=%s seed=%d evaluations=%d distinct_nontrivial=%d known=%d violations=%d wall=%.1fs rc=%d" % (
        prop, a.tier, seed, ev["coverage"]["evaluations"], ev["coverage"]["distinct_nontrivial"], len(known_seen),
        len(out_v), wall, rc))
    if rc == 0 and (m["evaluations"] < 1 or len(m["nontrivial"]) < 2):
        print("HARNESS-ERROR property=%s vacuous run (evaluations=%d nontrivial=%d)" % (
            prop, m["evaluations"], len(m["nontrivial"])))
        rc = 2
    return rc


if __name__ == "__main__":
    sys.exit(main())
