"""Discrete-event simulation of ONE real RepeatingEngine (engine.py) driven by the real monitor.CreateMonitor loop.

The monitor "thread" runs inline; time.sleep / Task.wait advance a virtual clock and fire, in time order, the external
events of the generated history (producer output appearing, notify_all_producers_finished, external kill) and the
rx timers/emissions the engine scheduled on the deterministic kernel.  The job is a duck-typed model object whose
answers about producer output come from the generated output times.
"""
from __future__ import annotations

import datetime as _dt
import os
import types
from typing import List, Optional

from . import kernel as K
from .kernel import KERNEL


class SimAbort(BaseException):
    pass


class _WorkDir:
    def __init__(self, path):
        self.path = path
        self.directory = path


class _Producer:
    def __init__(self, sim, is_repeat, outputs=None, stage=0, name="Producer"):
        self.sim = sim
        self.isRepeat = is_repeat
        self.stageIndex = stage
        self.outputs = sim.outputs if outputs is None else outputs
        self.identification = "stage%d.%s" % (stage, name)
        self.reference = self.identification
        self.workingDirectory = types.SimpleNamespace(path="/nonexistent/producer", directory="/nonexistent/producer")
        outer = self

        class _WD:
            path = "/nonexistent/producer"
            directory = "/nonexistent/producer"

            @property
            def output(_self):
                outer.sim.listing_fault("output")
                return ["out-%d" % i for i, t in enumerate(outer.outputs) if t <= outer.sim.now_s()]

            def outputSinceDate(_self, date):
                d = outer.sim.to_s(date)
                return ["out-%d" % i for i, t in enumerate(outer.outputs) if d < t <= outer.sim.now_s()]

            def outputBeforeDate(_self, date):
                outer.sim.listing_fault("outputBeforeDate")
                d = outer.sim.to_s(date)
                return ["out-%d" % i for i, t in enumerate(outer.outputs) if t <= d]
        self.workingDirectory = _WD()


class _Job:
    """What RepeatingEngine needs from experiment.model.data.Job."""

    def __init__(self, sim, case, workdir):
        self.sim = sim
        self.reference = "stage0.Observer"
        self.name = "Observer"
        self.identification = "stage0.Observer"
        self.stageIndex = 0
        self.type = "local"
        self.executable = "echo"
        self.arguments = "observe"
        self.isRepeat = True
        self.directory = workdir
        self.workingDirectory = _WorkDir(workdir)
        variables = {}
        if case.get("kill_after") is not None:
            variables["kill-after-producers-done-delay"] = str(case["kill_after"])
        if case.get("check_output") is not None:
            variables["check-producer-output"] = "true" if case["check_output"] else "false"
        self.flowir_description = {"variables": variables}
        self.workflowAttributes = {"repeatRetries": case.get("retries"), "repeatInterval": case["interval"],
                                   "optimizer": {"disable": True}, "restartHookOn": ["ResourceExhausted"],
                                   "maxRestarts": None, "restartHookFile": None, "shutdownOn": []}
        self.customAttributes = {}
        self.producerInstances = [_Producer(sim, case.get("producer_repeats", True))] if case.get("has_producer", True) \
            else []
        p2 = case.get("p2")
        if self.producerInstances and p2:
            # a second producer: same stage (gates the first launch too) or an earlier stage (never gates)
            second = _Producer(sim, p2["repeats"], outputs=sim.outputs2, stage=p2["stage"], name="Producer2")
            self.producerInstances.insert(0 if p2["first"] else 1, second)
        self._interval = case["interval"]

    def repeatInterval(self):
        return self._interval

    def producersHaveOutputSinceDate(self, date):
        # same rule as Job.producersHaveOutputSinceDate: a non-repeating producer always counts as "has output"
        for p in self.producerInstances:
            if p.isRepeat is False or len(p.workingDirectory.outputSinceDate(date)) > 0:
                return True
        return False


class SimTask:
    def __init__(self, sim, n, duration, reason):
        import experiment.utilities.data
        self.sim = sim
        self.n = n
        self.duration = duration
        self._scripted = reason
        self.exitReason = None
        self.returncode = None
        self._alive = True
        self.schedulerId = "sim-%d" % n
        self.performanceInfo = experiment.utilities.data.Matrix()
        self.killed_at = None

    def _finish(self, reason):
        self._alive = False
        self.exitReason = reason
        self.returncode = 0 if reason == "Success" else (-9 if reason == "Killed" else 1)
        self.sim.task_ends.append((self.n, self.sim.now_s(), reason))

    def wait(self):
        end = self.sim.now_s() + self.duration
        while self._alive and self.sim.now_s() < end:
            self.sim.advance_until(end, stop=lambda: not self._alive)
        if self._alive:
            self._finish(self._scripted)
        return self.returncode

    def isAlive(self):
        return self._alive

    def poll(self):
        return self.returncode

    def kill(self):
        if self._alive:
            self.killed_at = self.sim.now_s()
            self._finish("Killed")

    terminate = kill

    @property
    def status(self):
        import experiment.model.codes as codes
        if self._alive:
            return codes.RUNNING_STATE
        return codes.FINISHED_STATE if self.exitReason == "Success" else codes.FAILED_STATE


class _InlineThread:
    def __init__(self, target=None, name=None, args=(), kwargs=None, daemon=None, group=None):
        self._target, self._args, self._kwargs = target, args, kwargs or {}
        self.name = name

    def start(self):
        self._target(*self._args, **self._kwargs)

    def join(self, timeout=None):
        pass

    def is_alive(self):
        return False


class RepSim:
    HORIZON = 3000.0

    def __init__(self, case, workdir):
        self.case = case
        self.outputs: List[float] = sorted(case.get("outputs", []))
        self.outputs2: List[float] = sorted((case.get("p2") or {}).get("outputs", []))
        self.events = sorted([(case["notify_at"], 0, "notify")] if case.get("notify_at") is not None else [])
        if case.get("kill_at") is not None:
            self.events.append((case["kill_at"], 1, "kill"))
            self.events.sort()
        self.launches: List[tuple] = []       # (n, start time)
        self.task_ends: List[tuple] = []
        self.kernel_calls = 0
        self.notified_at: Optional[float] = None
        self.killed_ext_at: Optional[float] = None
        self.engine = None
        self.workdir = workdir
        self.aborted = None
        # transient failures of listing a producer's working directory (stale NFS handle, folder being replaced): the
        # n-th look at a producer's output (counted over all producers) raises FilesystemInconsistencyError
        self.listing_faults = set(case.get("listing_faults") or ())
        self.listings = 0
        self.listing_faults_raised = 0

    def listing_fault(self, what):
        import experiment.model.errors
        n = self.listings
        self.listings += 1
        if n in self.listing_faults:
            self.listing_faults_raised += 1
            raise experiment.model.errors.FilesystemInconsistencyError(
                "scripted: cannot list the working directory of a producer (%s, look %d)" % (what, n),
                OSError(116, "Stale file handle"))

    # -- time -------------------------------------------------------------------------------------------
    def now_s(self) -> float:
        return (KERNEL.clock - K.EPOCH).total_seconds()

    def to_s(self, date) -> float:
        return (date - K.EPOCH).total_seconds()

    def _pump(self):
        KERNEL.drain(max_items=2000, horizon_s=0.0)

    def advance_until(self, t_end: float, stop=None):
        """Move the clock to t_end, firing external events and kernel timers on the way (time order)."""
        while True:
            self._pump()
            if stop is not None and stop():
                return
            if self.now_s() > self.HORIZON:
                raise SimAbort("horizon")
            nxt = [t_end]
            if self.events:
                nxt.append(self.events[0][0])
            nd = KERNEL.next_due()
            if nd is not None:
                nxt.append(self.to_s(nd))
            t = max(min(nxt), self.now_s())
            KERNEL.advance_to(K.EPOCH + _dt.timedelta(seconds=t))
            while self.events and self.events[0][0] <= self.now_s():
                _, _, kind = self.events.pop(0)
                self._fire(kind)
            self._pump()
            if t >= t_end:
                return

    def sleep(self, s):
        self.advance_until(self.now_s() + max(float(s), 0.0))

    def _fire(self, kind):
        if kind == "notify":
            self.notified_at = self.now_s()
            self.engine.notify_all_producers_finished()
        elif kind == "kill":
            self.killed_ext_at = self.now_s()
            self.engine.kill()

    # -- run --------------------------------------------------------------------------------------------
    def task_generator(self, job, outputFile=None, errorFile=None, **kw):
        n = len(self.launches)
        script = self.case.get("tasks", [])
        dur, reason = script[n] if n < len(script) else (1.0, "Success")
        self.launches.append((n, self.now_s()))
        delays = self.case.get("submit_delays") or []
        if n < len(delays) and delays[n] > 0:
            # a slow submission (queueing backend): external events may arrive while the call is in progress
            self.advance_until(self.now_s() + float(delays[n]))
        if reason == "LaunchError":
            import experiment.runtime.errors
            raise experiment.runtime.errors.JobLaunchError("scripted", OSError("scripted"))
        t = SimTask(self, n, float(dur), reason)
        return t

    def run(self):
        import experiment.runtime.engine as engine
        import experiment.runtime.monitor as monitor
        K.new_case()
        orig = K._installed["orig"]["CreateMonitor"]
        saved = (monitor.CreateMonitor, getattr(monitor, "threading"), getattr(monitor, "time"),
                 getattr(monitor, "datetime"), engine.threading)
        thr = K.threading_shim()
        thr.Thread = _InlineThread
        sim = self

        class _SimTime:
            def sleep(self, s):
                sim.sleep(s)

            def time(self):
                return sim.now_s()

            def __getattr__(self, k):
                import time as _t
                return getattr(_t, k)

        inner = orig

        def counting_create_monitor(interval, action, *a, **k):
            def counted(last):
                sim.kernel_calls += 1
                sim.kernel_log.append((sim.now_s(), bool(last)))
                return action(last)
            counted.__name__ = getattr(action, "__name__", "action")
            return inner(interval, counted, *a, **k)

        self.kernel_log = []
        monitor.CreateMonitor = counting_create_monitor
        monitor.threading = thr
        monitor.time = _SimTime()
        monitor.datetime = K.datetime_shim()
        engine.threading = thr
        try:
            job = _Job(self, self.case, self.workdir)
            self.engine = engine.RepeatingEngine(job, self.task_generator)
            self.advance_until(float(self.case.get("run_at", 0.0)))
            try:
                self.engine.run()                      # the whole monitor loop runs inside this call
                # after the loop: let pending emissions/timers settle
                self.advance_until(self.now_s() + 12.0)
            except SimAbort as e:
                self.aborted = str(e)
            return self
        finally:
            (monitor.CreateMonitor, monitor.threading, monitor.time, monitor.datetime, engine.threading) = saved
