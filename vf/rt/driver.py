"""Runs a real Controller + real ComponentState + real Engine/RepeatingEngine over an instantiated experiment with
(a) the deterministic kernel instead of threads/timers and (b) a scripted task backend.  Mirrors
scripts/elaunch.py:Run: for every stage `controller.initialise(stage, db)` then `controller.run()`, stopping at the
first stage that raises."""
from __future__ import annotations

import collections
import datetime as _dt
import os
from typing import Any, Callable, Dict, List, Optional

import networkx

from . import kernel as K
from .kernel import KERNEL, HarnessAbort

FINAL_STATES = ("finished", "failed", "component_shutdown")


class FakeTask:
    """What a backend returns to an Engine: wait() returns at once, with the scripted exit reason (or Killed)."""

    def __init__(self, ref, reason):
        import experiment.utilities.data
        self.ref = ref
        self._scripted = reason
        self.exitReason = None
        self.returncode = None
        self._alive = True
        self.duration = 1.0
        self.schedulerId = "det-%s" % ref
        self.performanceInfo = experiment.utilities.data.Matrix()

    def _finish(self, reason):
        self._alive = False
        self.exitReason = reason
        self.returncode = 0 if reason == "Success" else (-9 if reason == "Killed" else 1)

    def wait(self):
        if self._alive:
            KERNEL.advance(self.duration)      # a task takes some (virtual) time; zero-length tasks are unrealistic
            self._finish(self._scripted)
        return self.returncode

    def poll(self):
        return self.returncode

    def isAlive(self):
        return self._alive

    def kill(self):
        if self._alive:
            self._finish("Killed")

    terminate = kill

    @property
    def status(self):
        import experiment.model.codes as codes
        if self._alive:
            return codes.RUNNING_STATE
        return codes.FINISHED_STATE if self.exitReason == "Success" else codes.FAILED_STATE


class ScriptedBackend:
    """taskGenerator stand-in. `script[ref]` = exit reasons of consecutive launches (then Success forever)."""

    def __init__(self, script: Dict[str, List[str]], on_launch: Optional[Callable] = None):
        self.script = script
        self.launches = collections.Counter()
        self.on_launch = on_launch
        self.log: List[tuple] = []
        self.kinds: List[str] = []
        self.tasks: Dict[str, List[FakeTask]] = collections.defaultdict(list)

    def __call__(self, job, outputFile=None, errorFile=None, **kw):
        import experiment.runtime.errors
        ref = job.reference
        n = self.launches[ref]
        self.launches[ref] += 1
        reasons = self.script.get(ref, [])
        reason = reasons[n] if n < len(reasons) else "Success"
        self.log.append((ref, n, reason))
        # a RepeatingEngine passes outputFile/errorFile for its periodic executions, not for a restart
        self.kinds.append("repeat" if outputFile is not None else "plain")
        if self.on_launch is not None:
            self.on_launch(ref, job, n, reason)
        if reason == "SubmissionFailed" and not getattr(self, "submission_failure_as_exit", False):
            # (with the flag: the backend accepts the task and reports the failed submission as its exit reason, the
            # way the LSF / Kubernetes backends do)
            raise experiment.runtime.errors.JobLaunchError("scripted submission failure of %s" % ref, OSError("scripted"))
        try:
            with open(os.path.join(job.workingDirectory.path, "out.stdout"), "a") as f:
                f.write("launch %d\n" % n)
        except OSError:
            pass
        t = FakeTask(ref, reason)
        self.tasks[ref].append(t)
        return t


class FakeStatusDB:
    def monitorComponent(self, *a, **k):
        pass


class HarnessEvent:
    """Stands in for Controller._event_scheduler: while the stage loop is parked in wait() the harness runs the
    callbacks the real thread pools would run, in an order it chooses."""

    def __init__(self, driver):
        self.d = driver
        self._flag = False

    def set(self):
        self._flag = True

    def clear(self):
        self._flag = False

    def is_set(self):
        return self._flag

    def wait(self, timeout=None):
        d = self.d
        start = KERNEL.clock
        timeout = 5.0 if timeout is None else timeout
        deadline = start + _dt.timedelta(seconds=timeout)
        d.waits += 1
        progressed = False
        while True:
            if self._flag:
                return True
            d.budget_check()
            ready = KERNEL.ready()
            if ready:
                if all(i.timed for i in ready):
                    KERNEL.run(ready[0])          # only timer ticks are runnable: no decision to make
                    continue
                # the wait may time out while callbacks are still queued (starved pools): at most a few times per
                # stage, otherwise schedules degenerate into idle scheduler passes
                extra = 1 if d.starve_left > 0 else 0
                c = d.chooser.choose(len(ready) + extra, "item")
                if c == len(ready):
                    d.starve_left -= 1
                    KERNEL.advance_to(deadline)   # the wait timed out: another scheduler pass
                    return False
                d.decisions += 1
                progressed = True
                KERNEL.run(ready[c])
                continue
            nd = KERNEL.next_due()
            if nd is None or nd >= deadline:
                KERNEL.advance_to(deadline)
                d.stuck_check()               # one more 5 s wait went by: did anything observable change?
                return False
            KERNEL.advance_to(nd)


class Result:
    def __init__(self):
        self.stage_outcomes: List[dict] = []
        self.states: Dict[str, str] = {}
        self.aborted: Optional[str] = None
        self.stuck = False
        self.launch_log: List[tuple] = []
        self.launch_kinds: List[str] = []
        self.decisions = 0
        self.kernel_errors: List[str] = []
        self.virtual_seconds = 0.0
        self.post_run = None
        self.pause_log: List[tuple] = []


class Driver:
    def __init__(self, exp, chooser, script, on_launch=None, max_decisions=4000, max_items=60000,
                 stuck_after_idle_waits=80, do_restart_sources=None, on_component_run=None, memoized=(),
                 post_run=None, delay_finished=None, pass_at_lock=None, pauses=None):
        self.exp = exp
        self.chooser = chooser
        self.script = script
        self.max_decisions = max_decisions
        self.max_items = max_items
        self.stuck_after = stuck_after_idle_waits
        self.decisions = 0
        self.waits = 0
        self.idle_waits = 0
        self.starve_left = 0
        self.max_starve_per_stage = 3
        self.controller = None
        self.components: Dict[str, Any] = {}
        self.on_launch_user = on_launch
        self.backend = ScriptedBackend(script, self._on_launch)
        self.do_restart_sources = do_restart_sources
        self._last_sig = None
        self.on_component_run = on_component_run
        self.run_called = collections.Counter()       # ComponentState.run() invocations per node
        self.finish_requested: Dict[str, str] = {}    # first final state handed to ComponentState.finish() per node
        self.memoized = set(memoized)                  # nodes for which the (stubbed) memoization lookup hits
        self.post_run = post_run                       # called after the stages ran, while the patches are still active
        # node -> number of scheduler passes by which the controller's finishedCheck() for that node is late (the
        # pool thread that delivers notifyFinished to the controller may be scheduled arbitrarily late; the component's
        # own state is final in the meantime)
        self.delay_finished = dict(delay_finished or {})
        # nodes (or node-name predicates) whose finishedCheck() has to wait for the controller's lock while the stage
        # loop performs a scheduler pass under it: the pass runs at the first `with comp_lock:` inside that call
        self.pass_at_lock = pass_at_lock
        self._armed = False
        self._in_pass = False
        # [(start, duration)] in virtual seconds since the start of the run: Controller.sleep() at `start`, and - the way
        # elaunch's pause/wake-up cycle does it - Controller.wake_up() `duration` later, but not before the scheduler
        # reported that it sleeps (polled once a second)
        self.pauses = [tuple(p) for p in (pauses or [])]
        self.pause_log: List[tuple] = []

    # -- hooks ------------------------------------------------------------------------------------
    def _on_launch(self, ref, job, n, reason):
        if self.on_launch_user is not None:
            self.on_launch_user(self, ref, job, n, reason)

    def budget_check(self):
        if self.decisions > self.max_decisions:
            raise HarnessAbort("decision budget")
        if KERNEL.executed > self.max_items:
            raise HarnessAbort("item budget")

    def signature(self):
        return (tuple(sorted((r, c.state) for r, c in self.components.items())),
                len(self.controller.comp_done), tuple(sorted(self.backend.launches.items())))

    def stuck_check(self):
        sig = self.signature()
        if sig != self._last_sig:
            self._last_sig = sig
            self.idle_waits = 0
            return
        self.idle_waits += 1
        if self.idle_waits >= self.stuck_after:
            raise HarnessAbort("stuck")

    def comp_state(self, ref):
        return self.components[ref].state

    # -- main -------------------------------------------------------------------------------------
    def run(self) -> Result:
        import experiment.runtime.backends as backends
        import experiment.runtime.control as control
        import experiment.runtime.errors as rerrors
        import experiment.runtime.workflow as workflow
        import experiment.model.errors as merrors

        K.new_case()
        res = Result()
        drv = self
        orig_cs_run = workflow.ComponentState.run

        def observed_run(cs):
            ref = cs.specification.reference
            if drv.on_component_run is not None:
                drv.on_component_run(drv, ref, cs)
            drv.run_called[ref] += 1
            return orig_cs_run(cs)
        workflow.ComponentState.run = observed_run
        orig_cs_finish = workflow.ComponentState.finish

        def observed_finish(cs, finalState):
            drv.finish_requested.setdefault(cs.specification.reference, finalState)
            return orig_cs_finish(cs, finalState)
        workflow.ComponentState.finish = observed_finish
        orig_finished_check = control.Controller.finishedCheck
        late_pool = K.DetPool(None, "late-finishedCheck")

        def late_finished_check(ctrl, state, component):
            ref = component.specification.reference
            left = drv.delay_finished.get(ref, 0)
            if left > 0:
                drv.delay_finished[ref] = left - 1
                # one scheduler wait lasts 5 virtual seconds: come back just after the next pass
                late_pool.schedule_relative(5.5, lambda sch=None, st_=None: late_finished_check(ctrl, state, component))
                return None
            if drv.pass_at_lock is not None and drv.pass_at_lock(ref) and not drv._in_pass:
                drv._armed = True
            try:
                return orig_finished_check(ctrl, state, component)
            finally:
                drv._armed = False
        if self.delay_finished or self.pass_at_lock is not None:
            control.Controller.finishedCheck = late_finished_check

        class _PreemptLock:
            """The controller's lock; when armed, a scheduler pass of the stage loop wins it first."""

            def __init__(self, inner, ctrl):
                self.inner, self.ctrl = inner, ctrl

            def __enter__(self):
                if drv._armed and not drv._in_pass:
                    drv._armed = False
                    drv._in_pass = True
                    try:
                        with self.inner:
                            self.ctrl._schedule(migrated_components=set())
                    finally:
                        drv._in_pass = False
                return self.inner.__enter__()

            def __exit__(self, *a):
                return self.inner.__exit__(*a)

            def acquire(self, *a, **k):
                return self.inner.acquire(*a, **k)

            def release(self):
                return self.inner.release()
        saved = dict(backends.backendGeneratorMap)
        for k in list(backends.backendGeneratorMap):
            backends.backendGeneratorMap[k] = self.backend
        try:
            exp = self.exp
            graph = exp.experimentGraph
            for job_name in networkx.topological_sort(exp.graph):
                data = exp.graph.nodes[job_name]
                stage = exp._stages[data['stageIndex']]
                spec = data['componentSpecification']
                job = stage.jobWithName(spec.identification.componentName)
                self.components[job_name] = workflow.ComponentState(job, graph, create_engine=True)
            self.controller = control.Controller(exp, do_restart_sources=self.do_restart_sources)
            ev = HarnessEvent(self)
            self.controller._event_scheduler = ev
            if self.pauses:
                pause_pool = K.DetPool(None, "pause")
                ctrl = self.controller

                def go_to_sleep(duration):
                    def act(sch=None, st_=None):
                        if ctrl._start_sleeping:          # still paused by the previous cycle: one cycle at a time
                            pause_pool.schedule_relative(1.0, act)
                            return
                        ctrl.sleep()
                        drv.pause_log.append(("sleep", (KERNEL.clock - K.EPOCH).total_seconds()))
                        # the same (elaunch) thread wakes the controller up later: never before sleep() was called
                        pause_pool.schedule_relative(float(duration), wake)
                    return act

                def wake(sch=None, st_=None):
                    if not ctrl.is_sleeping:
                        pause_pool.schedule_relative(1.0, wake)
                        return
                    postponed = len(ctrl._component_finished_while_sleeping)
                    ctrl.wake_up()
                    drv.pause_log.append(("wake_up", (KERNEL.clock - K.EPOCH).total_seconds(), postponed))
                for start, duration in self.pauses:
                    pause_pool.schedule_relative(float(start), go_to_sleep(duration))
            if self.pass_at_lock is not None:
                self.controller.comp_lock = _PreemptLock(self.controller.comp_lock, self.controller)
            if self.memoized:
                # stand-in for the memoization database: the lookup hits for the chosen nodes and the "copy the
                # outputs of the past run" step succeeds (both belong to C16's subject, not to scheduling)
                self.controller.can_memoize = lambda comp, fuzzy: (
                    {"stage": comp.stageIndex, "name": comp.specification.reference, "instance": "file://memo"}
                    if comp.specification.reference in self.memoized else None)
                self.controller._memoize_populate_component_workdir = lambda comp, doc: True
            for stage in exp._stages:
                out = {"stage": stage.index}
                try:
                    self.controller.initialise(stage, FakeStatusDB())
                    self.idle_waits = 0
                    self._last_sig = None
                    self.starve_left = self.max_starve_per_stage
                    self.controller.run()
                    out["outcome"] = "completed"
                except HarnessAbort as a:
                    res.aborted = a.why
                    res.stuck = a.why == "stuck"
                    out["outcome"] = "aborted:" + a.why
                    res.stage_outcomes.append(out)
                    break
                except rerrors.UnexpectedJobFailureError:
                    out["outcome"] = "UnexpectedJobFailureError"
                except rerrors.FinalStageNoFinishedLeafComponents:
                    out["outcome"] = "FinalStageNoFinishedLeafComponents"
                except Exception as e:
                    out["outcome"] = "exception:%s" % type(e).__name__
                    out["error"] = str(e)[:300]
                try:
                    out["stage_state"] = self.controller._stageStates[stage.index].state
                except Exception as e:
                    out["stage_state"] = "error:%s" % type(e).__name__
                res.stage_outcomes.append(out)
                if out["outcome"] != "completed":
                    break
            if res.aborted is None:
                # let asynchronous shutdown traffic settle (engines being shut down, observables completing)
                try:
                    KERNEL.drain(max_items=5000, horizon_s=12.0)
                except HarnessAbort as a:
                    res.aborted = a.why
            res.states = {r: c.state for r, c in self.components.items()}
            if self.post_run is not None and res.aborted is None:
                res.post_run = self.post_run(self)
            res.pause_log = list(self.pause_log)
            res.launch_log = list(self.backend.log)
            res.launch_kinds = list(self.backend.kinds)
            res.decisions = self.decisions
            res.kernel_errors = list(KERNEL.errors)
            res.virtual_seconds = (KERNEL.clock - K.EPOCH).total_seconds()
            return res
        finally:
            workflow.ComponentState.run = orig_cs_run
            workflow.ComponentState.finish = orig_cs_finish
            control.Controller.finishedCheck = orig_finished_check
            backends.backendGeneratorMap.clear()
            backends.backendGeneratorMap.update(saved)
            try:
                for c in self.components.values():
                    if c.repeatingDisposable is not None:
                        c.repeatingDisposable.dispose()
            except Exception:
                pass
