"""Harness-owned, single-threaded, virtual-time replacement for every reactivex scheduler / thread / clock the
runtime uses.  All work the runtime would hand to thread pools or timers becomes an *item* in one Kernel; the
harness decides which ready item runs next, so an interleaving is a list of ints (shrinkable, replayable).

Pool model (sound: every explored order is realisable by the real pools):
 * NewThreadScheduler                -> every immediate item is ready at once;
 * ThreadPoolScheduler(n)            -> the first n immediate items (FIFO) are ready (workers start items in FIFO order);
 * timers (schedule_relative/abs.)   -> ready once due on the virtual clock, never early, possibly late;
 * observe_on keeps its own per-operator FIFO (one drain action outstanding), exactly as with the real pools.
Actions are atomic: no pre-emption inside one callback.
"""
from __future__ import annotations

import datetime as _dt
import itertools
import threading as _threading
import time as _time
import traceback
import types
from typing import Any, Callable, List, Optional

import reactivex
import reactivex.scheduler
from reactivex.scheduler.periodicscheduler import PeriodicScheduler
from reactivex.scheduler.scheduleditem import ScheduledItem
from reactivex.scheduler import TimeoutScheduler

EPOCH = _dt.datetime(2021, 3, 1, 12, 0, 0)


class HarnessAbort(BaseException):
    """Raised by the harness to abandon a case (budget exhausted). Never a verdict by itself."""

    def __init__(self, why):
        super().__init__(why)
        self.why = why


class Kernel:
    def __init__(self):
        self.reset()

    def reset(self):
        self.clock = EPOCH
        self.items: List[ScheduledItem] = []
        self.seq = itertools.count()
        self.errors: List[str] = []
        self.executed = 0
        self.pools: List["DetPool"] = []
        self.on_error: Optional[Callable[[BaseException, str], None]] = None

    # ------------------------------------------------------------------------------------------------
    def add(self, pool, duetime, action, state, timed):
        si = ScheduledItem(pool, state, action, duetime)
        si.seq = next(self.seq)
        si.timed = timed
        si.pool = pool
        self.items.append(si)
        return si.disposable

    def _prune(self):
        self.items = [i for i in self.items if not i.is_cancelled()]

    def ready(self) -> List[ScheduledItem]:
        """Items that may start now, oldest first."""
        self._prune()
        out = []
        used = {}
        for i in self.items:               # self.items is in seq order (append only + pruning)
            if i.timed:
                if i.duetime <= self.clock:
                    out.append(i)
                continue
            cap = i.pool.capacity
            if cap is None:
                out.append(i)
            else:
                n = used.get(id(i.pool), 0)
                if n < cap:
                    used[id(i.pool)] = n + 1
                    out.append(i)
        return out

    def next_due(self) -> Optional[_dt.datetime]:
        self._prune()
        due = [i.duetime for i in self.items if i.timed and i.duetime > self.clock]
        return min(due) if due else None

    def run(self, item: ScheduledItem):
        self.items = [x for x in self.items if x is not item]      # identity: ScheduledItem.__eq__ compares due-times
        self.executed += 1
        try:
            item.invoke()
        except HarnessAbort:
            raise
        except Exception as e:                                       # a worker thread would die with a traceback
            msg = "%s: %s" % (type(e).__name__, e)
            self.errors.append(msg + "\n" + traceback.format_exc(limit=12))
            if self.on_error:
                self.on_error(e, msg)

    def advance(self, seconds: float):
        self.clock = self.clock + _dt.timedelta(seconds=seconds)

    def advance_to(self, t: _dt.datetime):
        if t > self.clock:
            self.clock = t

    def drain(self, max_items=20000, horizon_s: float = 0.0, chooser=None):
        """Run ready items (FIFO unless a chooser is given) until nothing is ready; then, while virtual time is
        below clock+horizon, jump to the next due timer. Returns number of items executed."""
        end = self.clock + _dt.timedelta(seconds=horizon_s)
        n = 0
        while n < max_items:
            r = self.ready()
            if r:
                idx = 0
                if chooser is not None and any(not i.timed for i in r):
                    idx = chooser.choose(len(r), "drain")
                self.run(r[idx])
                n += 1
                continue
            nd = self.next_due()
            if nd is None or nd > end:
                break
            self.clock = nd
        return n


KERNEL = Kernel()


class DetPool(PeriodicScheduler):
    def __init__(self, capacity: Optional[int] = None, name: str = "pool"):
        super().__init__()
        self.capacity = capacity
        self.name = name
        KERNEL.pools.append(self)

    @property
    def now(self) -> _dt.datetime:
        return KERNEL.clock

    def schedule(self, action, state=None):
        return KERNEL.add(self, KERNEL.clock, action, state, timed=False)

    def schedule_relative(self, duetime, action, state=None):
        td = self.to_timedelta(duetime)
        if td <= _dt.timedelta(0):
            return KERNEL.add(self, KERNEL.clock, action, state, timed=False)
        return KERNEL.add(self, KERNEL.clock + td, action, state, timed=True)

    def schedule_absolute(self, duetime, action, state=None):
        if isinstance(duetime, _dt.datetime):
            d = duetime
        else:
            d = self.to_datetime(duetime)
        if d <= KERNEL.clock:
            return KERNEL.add(self, KERNEL.clock, action, state, timed=False)
        return KERNEL.add(self, d, action, state, timed=True)


# ----------------------------------------------------------------------------------------------------
# virtual clock shims
class VDatetime(_dt.datetime):
    @classmethod
    def now(cls, tz=None):
        c = KERNEL.clock
        return cls(c.year, c.month, c.day, c.hour, c.minute, c.second, c.microsecond)

    @classmethod
    def utcnow(cls):
        return cls.now()

    @classmethod
    def today(cls):
        return cls.now()


def datetime_shim():
    ns = types.SimpleNamespace()
    for k in dir(_dt):
        if not k.startswith("__"):
            setattr(ns, k, getattr(_dt, k))
    ns.datetime = VDatetime
    return ns


class TimeShim:
    """time module stand-in: sleep advances the virtual clock (the sleeping callback stays atomic)."""

    def __init__(self):
        self.slept = 0.0

    def sleep(self, s):
        self.slept += s
        KERNEL.advance(s)

    def time(self):
        return (KERNEL.clock - _dt.datetime(1970, 1, 1)).total_seconds()

    def __getattr__(self, k):
        return getattr(_time, k)


class _DetThread:
    """threading.Thread stand-in: start() hands the target to the kernel as one atomic item."""
    pool = None

    def __init__(self, target=None, name=None, args=(), kwargs=None, daemon=None, group=None):
        self._target = target
        self._args = args
        self._kwargs = kwargs or {}
        self.name = name or "det-thread"
        self.daemon = daemon
        self._done = False

    def start(self):
        def act(scheduler, state):
            try:
                self._target(*self._args, **self._kwargs)
            finally:
                self._done = True
        if _DetThread.pool is None:
            _DetThread.pool = DetPool(None, "threads")
        _DetThread.pool.schedule(act)

    def join(self, timeout=None):
        return None

    def is_alive(self):
        return not self._done

    isAlive = is_alive


def threading_shim():
    ns = types.SimpleNamespace()
    for k in dir(_threading):
        if not k.startswith("__"):
            setattr(ns, k, getattr(_threading, k))
    ns.Thread = _DetThread
    return ns


# ----------------------------------------------------------------------------------------------------
def det_create_monitor(interval, action, cancelEvent, lastAction=True, name=None, default_polling_time=5.0):
    """Scheduler-driven equivalent of experiment.runtime.monitor.CreateMonitor's polling thread
    (same protocol: action(last) -> poll interval(elapsed) every polling_time until it says go or cancel is set)."""
    pool = DetPool(None, "monitor:%s" % name)
    log = []

    def start():
        st = {"begin": None}

        def step(scheduler=None, state=None):
            cont = True
            execute = True
            if cancelEvent is not None and cancelEvent.is_set():
                cont = False
                execute = lastAction
            if execute:
                try:
                    action(not cont)
                except Exception as e:      # the real monitor logs, sleeps 5 s and carries on
                    KERNEL.errors.append("monitor %s action raised %s: %s" % (name, type(e).__name__, e))
                    if cont:
                        pool.schedule_relative(5.0, step)
                    return
            if cont:
                st["begin"] = KERNEL.clock
                poll()

        def poll(scheduler=None, state=None):
            if cancelEvent is not None and cancelEvent.is_set():
                step()
                return
            if callable(interval):
                go = interval((KERNEL.clock - st["begin"]).total_seconds())
                if not go and not (cancelEvent is not None and cancelEvent.is_set()):
                    pool.schedule_relative(default_polling_time, poll)
                    return
                step()
            else:
                # plain sleep duration, interruptible by the cancel event: poll it at a fine grain
                elapsed = (KERNEL.clock - st["begin"]).total_seconds()
                if elapsed >= interval:
                    step()
                else:
                    pool.schedule_relative(min(1.0, interval - elapsed), poll)

        pool.schedule(step)

    return start


# ----------------------------------------------------------------------------------------------------
_installed = {}


def install():
    """Patch the runtime (idempotent, process-wide). Returns the global kernel."""
    if _installed:
        return KERNEL
    import experiment.runtime.control as control
    import experiment.runtime.engine as engine
    import experiment.runtime.monitor as monitor
    import experiment.runtime.workflow as workflow
    import experiment.runtime.utilities.rx as rxu
    import experiment.settings

    _installed["orig"] = {
        "NewThreadScheduler": reactivex.scheduler.NewThreadScheduler,
        "ThreadPoolScheduler": reactivex.scheduler.ThreadPoolScheduler,
        "CreateMonitor": monitor.CreateMonitor,
    }
    reactivex.scheduler.NewThreadScheduler = lambda *a, **k: DetPool(None, "newthread")
    reactivex.scheduler.ThreadPoolScheduler = lambda max_workers=None, *a, **k: DetPool(max_workers, "threadpool")

    def _singleton(cls):
        p = _installed.get("timeout_pool")
        if p is None or p not in KERNEL.pools:
            p = _installed["timeout_pool"] = DetPool(None, "timeout")
        return p
    TimeoutScheduler.singleton = classmethod(_singleton)

    def get_pool(cls, pool):
        if pool.value not in cls._pools or cls._pools[pool.value] not in KERNEL.pools:
            orchestrator = experiment.settings.load_settings_orchestrator(reuse_if_existing=True)
            workers = getattr(orchestrator, cls._poolname_to_workers_options_field[pool.value])
            cls._pools[pool.value] = DetPool(workers, "tpg:%s" % pool.value)
        return cls._pools[pool.value]
    rxu.ThreadPoolGenerator.get_pool = classmethod(get_pool)

    control.time = TimeShim()
    engine.datetime = datetime_shim()
    engine.threading = threading_shim()
    monitor.CreateMonitor = det_create_monitor
    _installed["control_time"] = control.time
    return KERNEL


def new_case():
    """Fresh kernel state + drop every scheduler the runtime cached at class level."""
    import experiment.runtime.engine as engine
    import experiment.runtime.workflow as workflow
    import experiment.runtime.utilities.rx as rxu
    install()
    KERNEL.reset()
    _DetThread.pool = None
    _installed.pop("timeout_pool", None)
    rxu.ThreadPoolGenerator._pools = {}
    workflow.ComponentState.componentScheduler = None
    engine.Engine.enginePoolScheduler = None
    engine.Engine.triggerPoolScheduler = None
    engine.Engine.taskPoolScheduler = None
    _installed["control_time"].slept = 0.0
    return KERNEL
