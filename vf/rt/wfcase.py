"""Generated runtime cases (workflow + exit-reason script + schedule) shared by C01 and C02, the launch-time
invariant of C01 and the rule model of C02."""
from __future__ import annotations

import shutil
from typing import Dict, List, Optional

from hypothesis import strategies as st

from ..core import Chooser, Ctx, Violation
from ..gen import pkg, workflow as wfgen

FINAL = ("finished", "failed", "component_shutdown")
FINISHED, FAILED, SHUTDOWN = FINAL

REASONS_FAIL = ["KnownIssue", "SystemIssue", "UnknownIssue", "ResourceExhausted", "SubmissionFailed", "Killed",
                "Cancelled"]


_ALL_NAMES = ["Alpha", "Beta", "Gamma", "Delta", "Eps", "Zeta", "Eta", "Theta", "Iota", "Kappa", "Lambda", "Mu", "Nu", "Xi"]


def _blank(name, stage, refs=(), **kw):
    c = {"name": name, "stage": stage, "refs": [{"p": p, "abs": True, "method": "ref", "path": None} for p in refs],
         "replicate": None, "aggregate": False, "repeat": None, "shutdownOn": [], "restartHookOn": None,
         "maxRestarts": None, "lits": []}
    c.update(kw)
    return c


@st.composite
def with_motif(draw, W):
    """Appends, to a third of the workflows, one of the wiring motifs that random DAGs rarely contain."""
    kind = draw(st.sampled_from(["none", "none", "none", "none", "agg-over-replicas", "observer-two-subjects",
                                 "shutdown-chain", "agg-plain-shutdown"]))
    if kind == "none":
        return W
    comps = W["components"]
    free = [n for n in _ALL_NAMES if n not in {c["name"] for c in comps}]
    last = comps[-1]["stage"]
    if kind == "agg-over-replicas":
        rep = wfgen.replication(W)
        cand = [i for i, c in enumerate(comps) if rep[i] and not c["aggregate"] and not c["repeat"]]
        if not cand:
            src = [i for i, c in enumerate(comps) if not c["aggregate"] and not c["repeat"] and not c["refs"]]
            if not src:
                return W
            i = draw(st.sampled_from(src))
            comps[i]["replicate"] = "lit"
            rep = wfgen.replication(W)
            cand = [j for j, c in enumerate(comps) if rep[j] and not c["aggregate"] and not c["repeat"]]
        p = draw(st.sampled_from(cand))
        stage = draw(st.sampled_from([last, min(last + 1, 2)]))
        stage = max(stage, comps[p]["stage"])
        extra = [q for q in range(len(comps)) if q != p and comps[q]["stage"] <= stage and draw(st.integers(0, 3)) == 0][:1]
        comps.append(_blank(free[0], stage, refs=sorted([p] + extra), aggregate=True))
        if draw(st.booleans()):
            # exactly one replica of the aggregated producer exits with a shutdownOn reason, its siblings succeed: the
            # aggregator must still run (only ALL replicated inputs shut down stop it), whichever replica is seen first
            reason = draw(st.sampled_from(["KnownIssue", "SystemIssue", "UnknownIssue"]))
            comps[p]["shutdownOn"] = sorted(set(comps[p]["shutdownOn"]) | {reason})
            comps[p]["restartHookOn"] = []
            W["hint"] = {"component": p, "reason": reason, "replica": draw(st.integers(0, W["n"] - 1))}
    elif kind == "agg-plain-shutdown":
        # an aggregator with two (or three) non-replicated inputs of which exactly one exits with a shutdownOn reason
        s = last
        n0 = len(comps)
        reason = draw(st.sampled_from(["KnownIssue", "SystemIssue", "UnknownIssue"]))
        comps.append(_blank(free[0], s, shutdownOn=[reason], restartHookOn=[]))
        comps.append(_blank(free[1], s))
        extra = [n0, n0 + 1]
        if draw(st.booleans()):
            comps.append(_blank(free[2], s))
            extra.append(n0 + 2)
        agg_stage = draw(st.sampled_from([s, min(s + 1, 2)]))
        comps.append(_blank(free[3], agg_stage, refs=extra, aggregate=True))
        if draw(st.booleans()):
            comps.append(_blank(free[4], agg_stage, refs=[n0 + 1]))
        W["hint"] = {"component": n0, "reason": reason}
    elif kind == "shutdown-chain":
        # head (exits with a shutdownOn reason) -> c1 -> c2 -> c3 [-> c4]: shutdown has to propagate down the chain
        s = last
        n0 = len(comps)
        depth = draw(st.integers(3, 5))
        reason = draw(st.sampled_from(["KnownIssue", "SystemIssue", "UnknownIssue"]))
        comps.append(_blank(free[0], s, shutdownOn=[reason], restartHookOn=[]))
        for k in range(1, depth):
            comps.append(_blank(free[k], s, refs=[n0 + k - 1]))
        W["hint"] = {"component": n0, "reason": reason}
    else:
        # gate -> late ; fast ; observer(late, fast) : one subject becomes ready a scheduler pass later than the other
        s = last
        n0 = len(comps)
        comps.append(_blank(free[0], s))                                    # gate
        comps.append(_blank(free[1], s, refs=[n0]))                          # late
        comps.append(_blank(free[2], s))                                    # fast
        order = draw(st.permutations([n0 + 1, n0 + 2]))
        obs = _blank(free[3], s, refs=sorted(order), repeat=5)
        obs["refs"] = [{"p": p, "abs": True, "method": "ref", "path": None} for p in order]
        comps.append(obs)
        how = draw(st.sampled_from(["plain", "plain", "fast-fails", "fast-shuts-down"]))
        if how != "plain":
            # the fast subject exits badly at once and the controller learns about it one or two passes late: when the
            # late subject finally starts, the observer's other subject is already FAILED / SHUTDOWN
            reason = draw(st.sampled_from(["KnownIssue", "SystemIssue", "UnknownIssue"]))
            if how == "fast-shuts-down":
                comps[n0 + 2]["shutdownOn"] = [reason]
            comps[n0 + 2]["restartHookOn"] = []
            W["hint"] = {"component": n0 + 2, "reason": reason, "late": draw(st.integers(1, 2))}
    return W


@st.composite
def runtime_cases(draw, max_components=5, max_stages=3, fail_rate=6):
    W = draw(wfgen.workflows(max_components=max_components, max_stages=max_stages, names="simple",
                             methods=("ref",), allow_repeat=True, allow_shutdown=True, max_n=2))
    W = draw(with_motif(W))
    hint = W.pop("hint", None)
    nodes, preds = wfgen.expand(W)
    script = {}
    for ref in sorted(nodes):
        nd = nodes[ref]
        c = W["components"][nd["idx"]]
        if nd["repeat"]:
            continue                      # observers' tasks always succeed (their outcomes are C13's subject)
        if draw(st.integers(0, fail_rate)) == 0:
            pool = list(REASONS_FAIL) + list(c["shutdownOn"]) * 2 + ["ResourceExhausted"] * 2
            k = draw(st.integers(1, 3))
            script[ref] = [draw(st.sampled_from(pool)) for _ in range(k)]
            if draw(st.booleans()):
                script[ref].append("Success")
    # focus: half of the cases make one *producer* (a node somebody consumes from) exit badly on its first execution
    # - unrecoverably or with a shutdownOn reason - so that failure/shutdown propagation is exercised often
    producers = sorted({p for ps in preds.values() for p in ps if not nodes[p]["repeat"]})
    if producers and draw(st.booleans()):
        victim = draw(st.sampled_from(producers))
        c = W["components"][nodes[victim]["idx"]]
        restart_on = c["restartHookOn"] if c["restartHookOn"] is not None else ["ResourceExhausted"]
        fatal = [r for r in ["KnownIssue", "SystemIssue", "UnknownIssue", "Killed", "Cancelled"]
                 if r not in c["shutdownOn"]]
        pool = fatal + list(c["shutdownOn"])
        script[victim] = [draw(st.sampled_from(pool))]
    if hint is not None:
        for ref in sorted(nodes):
            if nodes[ref]["idx"] == hint["component"] and hint.get("replica") in (None, nodes[ref]["replica"]):
                script[ref] = [hint["reason"]]
            elif nodes[ref]["idx"] == hint["component"] and hint.get("replica") is not None:
                script.pop(ref, None)          # the sibling replicas succeed
    # a fifth of the cases: some nodes have a memoization hit (they become final without ever being launched)
    memo = []
    if draw(st.integers(0, 4)) == 0:
        cand = [r for r in sorted(nodes) if not nodes[r]["repeat"] and r not in script]
        if cand:
            memo = draw(st.lists(st.sampled_from(cand), min_size=1, max_size=2, unique=True))
    # a quarter of the cases: the controller learns late (1-2 scheduler passes) that some node finished - preferably a
    # node with a scripted bad exit - while the node's own state is already final
    late = {}
    if draw(st.integers(0, 3)) == 0:
        cand = [r for r in sorted(nodes) if not nodes[r]["repeat"]]
        bad = [r for r in cand if r in script]
        pool = (bad * 3 + cand) if bad else cand
        if pool:
            for r in draw(st.lists(st.sampled_from(pool), min_size=1, max_size=2, unique=True)):
                late[r] = draw(st.integers(1, 2))
    if hint is not None and hint.get("late"):
        for ref in sorted(nodes):
            if nodes[ref]["idx"] == hint["component"]:
                late[ref] = hint["late"]
    # an eighth of the cases: when some nodes report that they finished, a scheduler pass of the stage loop wins the
    # controller's lock before finishedCheck() gets it
    lockpass = []
    if draw(st.integers(0, 7)) == 0:
        cand = [r for r in sorted(nodes) if not nodes[r]["repeat"]]
        if cand:
            lockpass = sorted(draw(st.lists(st.sampled_from(cand), min_size=1, max_size=3, unique=True)))
    # an eighth of the cases: the experiment is paused and woken up again (Controller.sleep()/wake_up(), elaunch's live
    # patching cycle) once or twice while it runs
    pauses = []
    if draw(st.integers(0, 7)) == 0:
        for _ in range(draw(st.integers(1, 2))):
            pauses.append([draw(st.sampled_from([0, 0.5, 1, 1.5, 2, 2.5, 3, 4, 5, 6, 8, 12])),
                           draw(st.sampled_from([1, 3, 6, 11, 23, 41]))])
    return {"W": W, "script": script, "memo": sorted(memo), "late": late, "lockpass": lockpass, "pauses": pauses}


# ----------------------------------------------------------------------------------------------------------
# rule model (written from the statement of C02 and the documented restart policy, not from control.py)
def intrinsic_outcome(c: dict, reasons: List[str]):
    """Final state a non-repeating component reaches by itself for the scripted exit reasons of its consecutive
    task executions (Success forever after the script). Returns (state, launches, ambiguous)."""
    restart_on = c["restartHookOn"] if c["restartHookOn"] is not None else ["ResourceExhausted"]
    max_restarts = c["maxRestarts"] if c["maxRestarts"] is not None else 3
    restarts = 0
    resub = 0
    launches = 0
    seq = list(reasons)
    while True:
        reason = seq.pop(0) if seq else "Success"
        launches += 1
        if reason == "Success":
            return FINISHED, launches
        # packages generated here carry no restart hook: the documented fallback restarts only after ResourceExhausted
        # ("KnownIssue: restart hook is called if there is one, otherwise restart fails")
        if reason in restart_on and reason == "ResourceExhausted":
            if max_restarts != -1 and restarts + 1 > max_restarts:
                return (SHUTDOWN if reason in c["shutdownOn"] else FAILED), launches
            restarts += 1
            continue
        if reason == "SubmissionFailed":
            # documented: maxRestarts 0 = "cannot restart at all"; the budget test precedes every kind of restart
            # (re-submissions are not counted against it but need one unit of budget left)
            if max_restarts != -1 and restarts + 1 > max_restarts:
                return (SHUTDOWN if reason in c["shutdownOn"] else FAILED), launches
            if resub < 5:
                resub += 1
                continue
            return (SHUTDOWN if reason in c["shutdownOn"] else FAILED), launches
        return (SHUTDOWN if reason in c["shutdownOn"] else FAILED), launches


def rule_states(W, script, force=None, memo=()) -> Dict[str, str]:
    nodes, preds = wfgen.expand(W)
    intrinsic = {}
    for ref, nd in nodes.items():
        c = W["components"][nd["idx"]]
        if nd["repeat"] or ref in memo:
            intrinsic[ref] = FINISHED
        else:
            intrinsic[ref] = intrinsic_outcome(c, script.get(ref, []))[0]
    state = {}
    order = sorted(nodes, key=lambda r: (nodes[r]["idx"], nodes[r]["replica"] or 0))   # topological by construction
    for ref in order:
        nd = nodes[ref]
        ps = preds[ref]
        if force and ref in force:
            state[ref] = force[ref]
            continue
        if any(state[p] == FAILED for p in ps):
            state[ref] = SHUTDOWN
            continue
        if nd["aggregate"]:
            repl = [p for p in ps if nodes[p]["replicated"]]
            non = [p for p in ps if not nodes[p]["replicated"]]
            if any(state[p] == SHUTDOWN for p in non) or (repl and all(state[p] == SHUTDOWN for p in repl)):
                state[ref] = SHUTDOWN
                continue
        elif any(state[p] == SHUTDOWN for p in ps):
            state[ref] = SHUTDOWN
            continue
        state[ref] = intrinsic[ref]
    return state


# ----------------------------------------------------------------------------------------------------------
class LaunchMonitor:
    """C01 oracle, evaluated at every task launch (= backend task generator invocation)."""

    def __init__(self, W):
        self.W = W
        self.nodes, self.preds = wfgen.expand(W)
        self.violations: List[tuple] = []
        self.launches: List[dict] = []
        self.concurrent_launch = False

    def __call__(self, drv, ref, job, n, reason):
        nd = self.nodes.get(ref)
        if nd is None:
            self.violations.append(("unknown-node-launched", "launched %s which the model does not know" % ref))
            return
        if ref in drv.memoized:
            self.violations.append(("memoized-component-launched", "%s has a memoization hit but its task was launched" % ref))
        running = [r for r, c in drv.components.items() if drv.backend.launches.get(r, 0) > 0
                   and r != ref and c.state not in FINAL]
        if running:
            self.concurrent_launch = True
        snap = {}
        for p in self.preds[ref]:
            st_p = drv.comp_state(p)
            if st_p in FINAL and drv.finish_requested.get(p) in FINAL:
                st_p = drv.finish_requested[p]
            snap[p] = st_p
            same_stage_observer = bool(nd["repeat"]) and self.nodes[p]["stage"] == nd["stage"]
            if same_stage_observer:
                if st_p not in FINAL and drv.backend.launches.get(p, 0) == 0:
                    self.violations.append(("observer-launched-before-subject-launched",
                                            "%s (repeating) launched while same-stage producer %s was neither launched "
                                            "nor final (state %s)" % (ref, p, st_p)))
                continue        # (a failed subject is judged where the controller starts the observer: on_component_run)
            if st_p not in FINAL:
                self.violations.append(("launched-before-producer-final",
                                        "%s launched (execution %d) while producer %s is '%s'" % (ref, n, p, st_p)))
            elif st_p == FAILED:
                self.violations.append(("launched-with-failed-producer",
                                        "%s launched although producer %s FAILED" % (ref, p)))
            elif st_p == SHUTDOWN and not nd["aggregate"]:
                self.violations.append(("launched-with-shutdown-producer",
                                        "non-aggregating %s launched although producer %s is SHUTDOWN" % (ref, p)))
        self.launches.append({"ref": ref, "n": n, "producers": snap})


    def on_component_run(self, drv, ref, cs):
        """The property's own observation point: ComponentState.run() (the controller starts the component) versus
        the state of everything it consumes from. For a repeating consumer a same-stage producer must have been
        started (its own run() called) or be final."""
        nd = self.nodes.get(ref)
        if nd is None:
            return
        for p in self.preds[ref]:
            st_p = drv.comp_state(p)
            if st_p in FINAL and drv.finish_requested.get(p) in FINAL:
                # the final state the producer was actually given (a later relabelling must not hide it)
                st_p = drv.finish_requested[p]
            same_stage_observer = bool(nd["repeat"]) and self.nodes[p]["stage"] == nd["stage"]
            if same_stage_observer:
                # a producer with a memoization hit is never started: the controller has already asked it to finish
                if st_p not in FINAL and drv.run_called.get(p, 0) == 0 and not (
                        p in drv.memoized and p in drv.finish_requested):
                    self.violations.append(("observer-started-before-subject-started",
                                            "%s (repeating) was started while same-stage producer %s had not been "
                                            "started and is '%s'" % (ref, p, st_p)))
                if st_p == FAILED:
                    self.violations.append(("started-with-failed-producer",
                                            "%s (repeating) started although producer %s FAILED" % (ref, p)))
                continue
            if st_p not in FINAL:
                self.violations.append(("started-before-producer-final",
                                        "%s started while producer %s is '%s'" % (ref, p, st_p)))
            elif st_p == FAILED:
                self.violations.append(("started-with-failed-producer", "%s started although producer %s FAILED" % (ref, p)))
            elif st_p == SHUTDOWN and not nd["aggregate"]:
                self.violations.append(("started-with-shutdown-producer",
                                        "non-aggregating %s started although producer %s is SHUTDOWN" % (ref, p)))


def check_graph_matches_model(exp, W):
    """The harness' own model of who consumes whom must agree with the graph the controller walks; a mismatch is a
    generator/model problem (C03 is the property about replication itself), reported as a harness error."""
    nodes, preds = wfgen.expand(W)
    g = exp.graph
    if set(g.nodes) != set(nodes):
        raise RuntimeError("harness: model nodes %s != graph nodes %s" % (sorted(nodes), sorted(g.nodes)))
    for ref in nodes:
        if set(g.predecessors(ref)) != set(preds[ref]):
            raise RuntimeError("harness: predecessors of %s: model %s graph %s" % (
                ref, sorted(set(preds[ref])), sorted(g.predecessors(ref))))


def run_case(case, ctx: Ctx, chooser: Chooser, max_decisions=6000):
    """Instantiate the workflow and execute it under the harness. Returns (result, monitor)."""
    from . import driver
    W = case["W"]
    loc = ctx.mkdtemp()
    try:
        exp = pkg.experiment_from_flowir(wfgen.render(W), loc)
        check_graph_matches_model(exp, W)
        mon = LaunchMonitor(W)
        drv = driver.Driver(exp, chooser, case["script"], on_launch=mon, max_decisions=max_decisions,
                            on_component_run=mon.on_component_run, memoized=case.get("memo", ()),
                            delay_finished=case.get("late"),
                            pass_at_lock=(lambda ref, s=frozenset(case.get("lockpass") or ()): ref in s)
                            if case.get("lockpass") else None,
                            pauses=case.get("pauses"))
        res = drv.run()
        return res, mon
    finally:
        shutil.rmtree(loc, ignore_errors=True)


def minimize_schedule(v: Violation, ctx: Ctx, rerun, max_replays=60):
    """Cheap deterministic minimisation of a failing schedule (Hypothesis' shrinker is too slow for ~1000-draw
    cases): shortest prefix of the decision list (rest = FIFO) that still fails with the same signature, then
    zero individual decisions. `rerun(case)` must raise Violation or return."""
    case = v.case
    if not isinstance(case, dict) or "choices" not in case:
        return v
    best = v
    budget = [max_replays]

    def fails(choices):
        if budget[0] <= 0:
            return None
        budget[0] -= 1
        c = dict(case)
        c["choices"] = choices
        try:
            rerun(c)
        except Violation as w:
            if w.sig == v.sig:
                if w.case is None:
                    w.case = c
                return w
        return None

    choices = list(case["choices"])
    lo, hi = 0, len(choices)
    w = fails([])
    if w is not None:
        return w
    while lo < hi and budget[0] > 0:
        mid = (lo + hi) // 2
        w = fails(choices[:mid])
        if w is not None:
            hi = mid
            best = w
        else:
            lo = mid + 1
    choices = choices[:hi]
    nz = [i for i, c in enumerate(choices) if c]
    for i in nz:
        if budget[0] <= 0:
            break
        trial = list(choices)
        trial[i] = 0
        w = fails(trial)
        if w is not None:
            choices = trial
            best = w
    return best
