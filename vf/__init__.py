"""Property-based testing / fuzzing machinery for st4sd-runtime-core (see /verif/DESIGN.md)."""
