"""C16 — memoization hashes identify equivalent work and nothing else.

sub `pairs`: an abstract workflow W (1-5 components, references between them and to input / data / external files,
             optional replication + aggregation, container images, variables) and a copy W' differing in exactly one
             aspect are both written as packages and instantiated as real Experiments in two different directories
             (at two different times); files "produced" by components are written by the harness. For every node the
             real `ComponentSpecification.memoization_hash` / `memoization_hash_fuzzy` is read and compared with an
             independent *work descriptor* computed from the abstract workflow (vf/gen/c16_wf.py):
               * descriptor MISSING (a referenced file is absent)            -> strong hash must be None
               * descriptor defined                                          -> strong hash must exist
               * for ALL pairs of nodes of both experiments                  -> hashes equal  <=>  descriptors equal
               * hashes are stable over repeated reads and after memoization_reset()
               * fuzzy: unchanged when only the content of a produced file changes; changed whenever the observed
                 fuzzy hash of a directly referenced producer changed and nothing else about the component did.
"""
from __future__ import annotations

import json
import os
import shutil

from ..core import Ctx, Violation, explore
from ..gen import c16_wf as G

ID = "C16"
LEVEL = "exploration"
RULE = ("pairs (W, W') of generated workflows differing in exactly one aspect (executable, literal, file content, "
        "reference method, image, variable value, missing file / name, stage, stage name, reference spelling, file "
        "name, location+time (always), unrelated variable/component, resources); non-trivial = W has at least one "
        "component->component reference (chain length >= 2) or the changed aspect is a name/location aspect "
        "(rename, restage, stagename, spell, frename, extpath, none); distinct = distinct (W, mutation) values.")
ASSUMPTIONS = [
    "the oracle's notion of 'the content a reference refers to' for a reference to a producer's working directory "
    "is the producer's own work descriptor (the harness never varies other files inside that directory)",
    "a component whose directory-referenced producer has no descriptor (missing input upstream) is not checked for "
    "None-ness: the statement only covers inputs referenced by the component itself",
    "literals never contain ':<method>' or the field names used by the hash serialisation (executable, arguments, "
    "files ...): the concatenation without separators in _memoization_info_to_hash is not attacked",
    "fuzzy hashes are only checked for the two relations in the statement (insensitive to produced file content; "
    "sensitive to a change of a producer's fuzzy hash), plus stability",
    "workflows rejected when the package is loaded (ExperimentInvalidConfigurationError) are skipped and counted "
    "(label rejected-at-load); replication of components with overlapping names is C03's subject",
    "copyout references never appear in arguments (the repository's tokeniser reads 'x:copyout' as 'x:copy'+'out')",
    "replicated workflows use names that do not contain one another; a case whose instantiated graph does not carry "
    "exactly the references of the abstract workflow is skipped and counted (label graph-differs-from-model)",
    "'same container image' = equal image string, whichever backend carries it (kubernetes image / lsf dockerImage); "
    "lsf without dockerImage counts as no image; all other backend / resource options are hash-irrelevant",
    "the name of a referenced file is hash-irrelevant for the strong hash (the statement replaces the reference by "
    "the hash of the content); relative vs absolute spelling of a reference is hash-irrelevant",
]
TIERS = {"quick": {"shards": 8, "budget": 120}, "thorough": {"shards": 16, "budget": 1500}}

NAME_ASPECTS = {"none", "rename", "restage", "stagename", "spell", "frename", "extpath"}

SIG_DIGIT = "blueprint-lookup-strips-trailing-digits"
SIG_REF_IN_REF = "reference-replaced-inside-longer-reference"
SIG_EXT = "absolute-path-reference-left-in-arguments"
SIG_DIROUT = "producer-directory-reference-outside-arguments-ignored"
SIG_DDIR = "direct-directory-reference-contents-ignored"


# ------------------------------------------------------------------------------------------------------------
def instantiate(W, root, extroot):
    """Write W as a package, instantiate it, write input / external / produced files.
    -> experiment or None when the package is rejected at load."""
    import experiment.model.errors
    from ..gen import pkg
    flowir, extra, post = G.render(W, extroot)
    os.makedirs(root)
    try:
        exp = pkg.experiment_from_flowir(flowir, root, extra_files=extra, validate=False)
    except experiment.model.errors.ExperimentInvalidConfigurationError:
        return None
    pkg.populate_files(exp.instanceDirectory.inputDir, post["input"])
    pkg.populate_files(extroot, post["ext"])
    prod = {}
    for node in G.nodes(W):
        i, r = node
        for fname in W["produced"].get(str(i), {}):
            content = G.produced_content(W, node, fname)
            if content is not None:
                wd = exp.instanceDirectory.workingDirectoryForComponent(W["comps"][i]["stage"], G.node_name(W, node))
                prod[os.path.join(wd, fname)] = content
    for path, content in prod.items():
        os.makedirs(os.path.dirname(path), exist_ok=True)
        with open(path, "w") as f:
            f.write(G.expand_content(content))
    return exp


def read_hashes(exp, W, where, extroot):
    """-> {node: (strong, fuzzy)}; also checks stability of both hashes."""
    specs = {}
    ids = {G.node_id(W, n): n for n in G.nodes(W)}
    graph_ids = set(exp.graph.nodes)
    if graph_ids != set(ids):
        return None
    for nid, n in ids.items():
        specs[n] = exp.graph.nodes[nid]["componentSpecification"]
        # precondition, not verdict: the instantiated graph wires the references the way the abstract workflow says
        comp = W["comps"][n[0]]
        expected = set()
        for ref in comp["refs"]:
            if ref["t"] == "comp":
                expected.update(G.ref_text(W, comp, ref, True, target=t) for t in G.ref_targets(W, n, ref))
            else:
                expected.add(G.ref_text(W, comp, ref, True, extroot=extroot))
        if {d.absoluteReference for d in specs[n].dataReferences} != expected:
            return None
    first = {n: (s.memoization_hash, s.memoization_hash_fuzzy) for n, s in specs.items()}
    again = {n: (s.memoization_hash, s.memoization_hash_fuzzy) for n, s in specs.items()}
    if first != again:
        n = [x for x in first if first[x] != again[x]][0]
        raise Violation("hash-not-stable-across-reads", "%s %s: %s then %s" % (where, G.node_id(W, n), first[n], again[n]))
    for s in specs.values():
        s.memoization_reset()
    # after the reset read in the opposite order (consumers first)
    third = {}
    for n in reversed(list(specs)):
        third[n] = (specs[n].memoization_hash, specs[n].memoization_hash_fuzzy)
    if first != third:
        n = [x for x in first if first[x] != third[x]][0]
        raise Violation("hash-changes-after-memoization-reset",
                        "%s %s: %s, after reset %s" % (where, G.node_id(W, n), first[n], third[n]))
    # validating the experiment resolves pathless executables to absolute paths in the live configuration
    # (ComponentSpecification.checkExecutable, what validateExperiment(checkExecutables=True) runs): the same work,
    # the same hashes - they must not depend on whether / on which host the instance was validated
    checked = set()
    for n, sp in specs.items():
        try:
            sp.checkExecutable()
            checked.add(n)
        except Exception:       # noqa - executables that do not exist here (run.sh), non-local backends
            pass
    if checked:
        for sp in specs.values():
            sp.memoization_reset()
        fourth = {n: (sp.memoization_hash, sp.memoization_hash_fuzzy) for n, sp in specs.items()}
        if first != fourth:
            n = [x for x in first if first[x] != fourth[x]][0]
            raise Violation("hash-changes-after-executable-check",
                            "%s %s: %s, after checkExecutable() of %s: %s" % (
                                where, G.node_id(W, n), first[n], sorted(G.node_id(W, x) for x in checked), fourth[n]))
    return first


def _content_change_relation(exp, W, first, ctx: Ctx):
    """Within ONE loaded experiment: an input file changes at the same path (an edited input, a re-run producer); after
    memoization_reset() every component that consumes it hashes differently, and identically again once the old
    contents are back. (Hashes are a function of the contents at the time they are computed, not of an earlier read.)"""
    consumers = {}
    for n in G.nodes(W):
        for ref in W["comps"][n[0]]["refs"]:
            if ref["t"] == "input" and W["input"].get(ref["f"]) is not None:
                consumers.setdefault(ref["f"], []).append(n)
    if not consumers:
        return
    fname = sorted(consumers)[0]
    path = os.path.join(exp.instanceDirectory.inputDir, fname)
    if not os.path.isfile(path):
        return
    specs = {n: exp.graph.nodes[G.node_id(W, n)]["componentSpecification"] for n in G.nodes(W)}
    with open(path, "rb") as f:
        old = f.read()
    try:
        with open(path, "ab") as f:
            f.write(b"\nchanged in place\n")
        for sp in specs.values():
            sp.memoization_reset()
        changed = {n: specs[n].memoization_hash for n in specs}
        for n in consumers[fname]:
            if first[n][0] is not None and changed[n] == first[n][0]:
                raise Violation("hash-ignores-change-of-file-contents-at-same-path",
                                "%s: input/%s was changed in place and the memoization state reset, the strong hash is "
                                "still %s" % (G.node_id(W, n), fname, changed[n]))
    finally:
        with open(path, "wb") as f:
            f.write(old)
        for sp in specs.values():
            sp.memoization_reset()
    back = {n: (specs[n].memoization_hash, specs[n].memoization_hash_fuzzy) for n in specs}
    if back != first:
        n = [x for x in first if first[x] != back[x]][0]
        raise Violation("hash-not-restored-with-file-contents",
                        "%s: %s before, %s after input/%s was changed and restored" % (G.node_id(W, n), first[n], back[n], fname))
    ctx.rec.label("content-changed-in-place")


def _closure(W, node, out=None):
    """node plus every producer whose own hash is an ingredient of node's hash (directory references)."""
    out = out if out is not None else []
    if node not in out:
        out.append(node)
        for ref in W["comps"][node[0]]["refs"]:
            if ref["t"] == "comp" and ref["file"] is None and ref["m"] != "output":
                for t in G.ref_targets(W, node, ref):
                    _closure(W, t, out)
    return out


def _digit_effect(W, node, symptom):
    """Root-cause predicate for SIG_DIGIT: the blueprint of a component is looked up under its name minus trailing
    digits; that finds nothing (no hash) or a different component of the stage (its executable is hashed)."""
    for n in _closure(W, node):
        c = W["comps"][n[0]]
        stripped = c["name"].rstrip("0123456789")
        if stripped == c["name"]:
            continue
        others = [o for o in W["comps"] if o["stage"] == c["stage"] and o["name"] == stripped]
        if symptom == "no-hash-although-inputs-present":
            if not others:
                return True
        elif others and others[0]["exe"] != c["exe"]:
            return True
    return False


def _ext_paths(W, node):
    c = W["comps"][node[0]]
    return sorted((W["extdir"], r["f"]) for r in c["refs"] if r["t"] == "ext" and r["args"])


def classify(symptom, a, b=None):
    """Root-cause signature from independent predicates on the input; falls back to the symptom."""
    sides = [x for x in (a, b) if x is not None]
    feats = set()
    for w, n in sides:
        feats |= G.features(w, n)
    if symptom == "equal-hash-for-different-work":
        # evidence first: the two sides differ ONLY in something a named root cause ignores (thorough seed 11: a pair
        # that differs in the contents of a direct directory reference, on a component whose name ends in a digit, was
        # attributed to the - repaired - digit lookup, which is a mere possibility predicate)
        for name, flags in ((SIG_DIROUT, {"dirout"}), (SIG_DDIR, {"ddir"}), (SIG_DIROUT, {"dirout", "ddir"})):
            fl = frozenset(flags)
            if G.descriptor(a[0], a[1], fl) == G.descriptor(b[0], b[1], fl):
                return name
    if any(_digit_effect(w, n, symptom) for w, n in sides):
        return SIG_DIGIT
    if symptom == "different-hash-for-equivalent-work":
        if _ext_paths(*a) != _ext_paths(*b):
            return SIG_EXT
        if "ref-inside-ref" in feats:
            return SIG_REF_IN_REF
    elif symptom == "equal-hash-for-different-work":
        for name, flags in ((SIG_DIROUT, {"dirout"}), (SIG_DDIR, {"ddir"}), (SIG_DIROUT, {"dirout", "ddir"})):
            fl = frozenset(flags)
            if G.descriptor(a[0], a[1], fl) == G.descriptor(b[0], b[1], fl):
                return name
        if "ref-inside-ref" in feats:
            return SIG_REF_IN_REF
    elif symptom == "fuzzy-hash-ignores-producer-change":
        if "dirout" in feats:
            return SIG_DIROUT
        if "ref-inside-ref" in feats:
            return SIG_REF_IN_REF
    return symptom


def _brief(W, node):
    i, r = node
    c = W["comps"][i]
    return "%s{exe=%s words=%s refs=%s backend=%s}" % (G.node_id(W, node), c["exe"], json.dumps(c["words"]),
                                                       json.dumps(c["refs"]), c["backend"])


def check_pair(case, ctx: Ctx):
    W = case["w"]
    mut = case["mut"]
    W2 = G.apply_mutation(W, mut)
    root = ctx.mkdtemp()
    try:
        _check_pair(case, W, W2, mut, root, ctx)
    finally:
        shutil.rmtree(root, ignore_errors=True)


def _check_pair(case, W, W2, mut, root, ctx: Ctx):
    extroot = os.path.join(root, "ext")
    # two different locations (different depth and names), instantiated one after the other (different time stamps)
    # external files live at the same absolute path for both (unless the mutation moves them), so the first
    # experiment is measured completely before the external directory is rewritten for the second
    e1 = instantiate(W, os.path.join(root, "a"), extroot)
    if e1 is None:
        ctx.rec.label("rejected-at-load")
        return
    h1 = read_hashes(e1, W, "base", extroot)
    if h1 is not None:
        _content_change_relation(e1, W, h1, ctx)
    shutil.rmtree(extroot, ignore_errors=True)
    e2 = instantiate(W2, os.path.join(root, "deeper", "b-location"), extroot)
    if e2 is None:
        ctx.rec.label("rejected-at-load")
        return
    h2 = read_hashes(e2, W2, "variant", extroot)
    if h1 is None or h2 is None:
        ctx.rec.label("graph-differs-from-model")
        return
    sides = [(W, h1, "base"), (W2, h2, "variant")]
    memo = [{}, {}]
    items = []       # (side index, node, descriptor, strong, fuzzy)
    for si, (w, h, _) in enumerate(sides):
        for n in G.nodes(w):
            d = G.descriptor(w, n, frozenset(), memo[si])
            items.append((si, n, d, h[n][0], h[n][1]))

    # 1. None-ness ---------------------------------------------------------------------------------------------
    n_missing = 0
    for si, n, d, s, f in items:
        w = sides[si][0]
        if d == G.MISSING:
            n_missing += 1
            if s is not None:
                raise Violation("hash-produced-while-input-missing",
                                "%s %s has strong hash %s although a referenced file does not exist" % (
                                    sides[si][2], _brief(w, n), s))
        elif d != G.UNDEF and s is None:
            raise Violation(classify("no-hash-although-inputs-present", (w, n)),
                            "%s %s: all referenced inputs exist but memoization_hash is None" % (
                                sides[si][2], _brief(w, n)))

    # 2. all pairs: equal hash <=> equal descriptor --------------------------------------------------------------
    defined = [it for it in items if it[2] not in (G.MISSING, G.UNDEF) and it[3] is not None]
    eq_pairs = ne_pairs = 0
    for a in range(len(defined)):
        for b in range(a + 1, len(defined)):
            sa, na, da, ha, _ = defined[a]
            sb, nb, db, hb, _ = defined[b]
            wa, wb = sides[sa][0], sides[sb][0]
            if da == db:
                eq_pairs += 1
                if ha != hb:
                    raise Violation(classify("different-hash-for-equivalent-work", (wa, na), (wb, nb)),
                                    "%s %s -> %s but %s %s -> %s; same executable/arguments/consumed contents/image "
                                    "(mutation %s)" % (sides[sa][2], _brief(wa, na), ha, sides[sb][2], _brief(wb, nb),
                                                       hb, json.dumps(mut)))
            else:
                ne_pairs += 1
                if ha == hb:
                    raise Violation(classify("equal-hash-for-different-work", (wa, na), (wb, nb)),
                                    "%s %s and %s %s both -> %s although their work differs (mutation %s)" % (
                                        sides[sa][2], _brief(wa, na), sides[sb][2], _brief(wb, nb), ha,
                                        json.dumps(mut)))

    # 3. fuzzy relations between corresponding nodes of W and W' --------------------------------------------------
    k = mut["k"]
    same_nodes = [n for n in G.nodes(W) if n in h2 and n[0] < len(W["comps"])]
    fuzzy_rel = 0
    if k == "content" and mut["where"][0] == "prod":
        for n in same_nodes:
            fuzzy_rel += 1
            if h1[n][1] != h2[n][1]:
                raise Violation(classify("fuzzy-hash-depends-on-produced-file-content", (W, n)),
                                "%s: fuzzy %s -> %s when only the content of produced file %s changed" % (
                                    _brief(W, n), h1[n][1], h2[n][1], mut["where"]))
    if k in ("exe", "lit", "image", "var", "swap", "content", "method", "ddir-content", "dropref") and \
            len(W["comps"]) == len(W2["comps"]):
        changed_comp = mut.get("i")
        for n in same_nodes:
            i, r = n
            c1, c2 = W["comps"][i], W2["comps"][i]
            if json.dumps(c1, sort_keys=True) != json.dumps(c2, sort_keys=True) or i == changed_comp:
                continue          # the component itself changed: statement is silent
            if k == "var" and (mut["scope"] == "g" or mut["scope"] == i):
                continue
            if k in ("content", "ddir-content") and not (k == "content" and mut["where"][0] == "prod"):
                # a direct file of this component may have changed
                if any(ref["t"] != "comp" for ref in c1["refs"]):
                    continue
            f1, f2 = h1[n][1], h2[n][1]
            if f1 is None or f2 is None:
                continue
            prods = set()
            for ref in c1["refs"]:
                if ref["t"] == "comp":
                    prods.update(G.ref_targets(W, n, ref))
            changed = [p for p in prods if h1[p][1] is not None and h2[p][1] is not None and h1[p][1] != h2[p][1]]
            if changed:
                fuzzy_rel += 1
                ctx.rec.label("fuzzy:producer-changed")
                if f1 == f2:
                    raise Violation(classify("fuzzy-hash-ignores-producer-change", (W, n)),
                                    "%s: fuzzy hash stays %s although the fuzzy hash of its producer %s changed "
                                    "%s -> %s (mutation %s)" % (_brief(W, n), f1, G.node_id(W, changed[0]),
                                                                h1[changed[0]][1], h2[changed[0]][1], json.dumps(mut)))

    # coverage ---------------------------------------------------------------------------------------------------
    chain = any(r["t"] == "comp" for c in W["comps"] for r in c["refs"])
    depth2 = any(r["t"] == "comp" and any(q["t"] == "comp" for q in W["comps"][r["j"]]["refs"])
                 for c in W["comps"] for r in c["refs"])
    # did the single change make a difference to some corresponding node, according to the oracle?
    effect = "same"
    for n in G.nodes(W):
        if n in h2:
            d1 = G.descriptor(W, n, frozenset(), memo[0])
            d2 = G.descriptor(W2, n, frozenset(), memo[1])
            if d1 != d2:
                effect = "missing" if G.MISSING in (d1, d2) else ("differ" if effect != "missing" else effect)
    ctx.rec.label("mut:" + k, "effect:" + effect, "chain" if chain else "no-chain")
    if depth2:
        ctx.rec.label("chain-depth>=3")
    if n_missing:
        ctx.rec.label("has-missing-input")
    if fuzzy_rel:
        ctx.rec.label("fuzzy-relation-checked")
    if any(G.replicated(W)):
        ctx.rec.label("replicated", "aggregating" if any(c["aggregate"] for c in W["comps"]) else "no-aggregate")
    allf = set()
    for n in G.nodes(W):
        allf |= G.features(W, n)
    for ft in sorted(allf):
        ctx.rec.label("feature:" + ft)
    ctx.rec.count("pairs_expected_equal", eq_pairs)
    ctx.rec.count("pairs_expected_different", ne_pairs)
    if chain or k in NAME_ASPECTS:
        ctx.rec.nt(case, {"mutation": mut, "effect": effect, "components": [
            {"id": G.node_id(W, (i, None)), "exe": c["exe"],
             "args": " ".join("".join(p[1] if p[0] == "l" else "<ref%d>" % p[1] for p in w) for w in c["words"]),
             "refs": [G.ref_text(W, c, r, r.get("abs", True), extroot="/EXT") for r in c["refs"]],
             "backend": c["backend"], "replicate": c["replicate"], "aggregate": c["aggregate"]}
            for i, c in enumerate(W["comps"])], "equal_pairs": eq_pairs, "different_pairs": ne_pairs},
            group="chain" if chain else "name-aspect")


def shard(ctx: Ctx):
    explore(ctx, "pairs", G.case(), check_pair, ctx.n(1600, 40000), batch=100)


def replay(sub, case, ctx: Ctx):
    check_pair(case, ctx)
