"""C11 — a workflow that loads is structurally executable; a broken one is rejected.

Documents: the shared abstract workflow (vf/gen/workflow.py: stages, replication via literal/global/stage/component
variables, aggregation, observers) rendered to FlowIR and extended (vf/gen/c11_doc.py) with a second platform, layered
variables (default/platform x global/stage, component, component override), typed options placed in the component,
its platform override or a blueprint, command-line variables and an environment.

Three load routes, all with validation enabled:
  memory  : WorkflowGraph.graphFromFlowIR(doc, {}, platform, primitive=False)
  conf    : ExperimentConfigurationFactory.configurationForExperiment(<package dir>, platform, primitive=False)
  package : ExperimentPackage.packageFromLocation + Experiment.experimentFromPackage + validateExperiment()

sub `valid` : soundness. Every route that accepts the valid document must hand back something structurally
              executable: acyclic expanded graph, unique identifiers (component list == graph nodes), every reference
              names an existing node, every node's configuration resolves with no variable left over. (A valid
              document that does not load is outside the statement; it is reported as a harness error, exit 2.)
sub `fault` : completeness. The valid document with exactly one fault (dangling reference: renamed / wrong stage /
              producer dropped; cycle: back edge / self edge; duplicate identifier: in the document / after
              replication; misspelt keyword at any depth; wrongly typed option; undefined variable: definition removed
              from every layer / usage renamed) must be rejected on every route with
              ExperimentInvalidConfigurationError (memory route: that or the FlowIRException family raised explicitly
              by the FlowIRConcrete constructor), never accepted, never another exception type, never hanging.
              Whatever is accepted is additionally put through the soundness checks (more specific signature).
              Replay cases pin the concrete fault position (`fault.at`).
"""
from __future__ import annotations

import contextlib
import re
import shutil
import signal
import sys
import traceback

import yaml
from hypothesis import strategies as st

from ..core import Ctx, HarnessError, Violation, explore
from ..gen import c11_doc as D
from ..gen import workflow as wfgen

ID = "C11"
LEVEL = "exploration"
RULE = ("abstract acyclic workflows by construction (<=5 components over <=3 stages, replication through literal / "
        "global / stage / component variables, aggregators, observers) plus generated extras: optional second platform "
        "(loaded or not), 0-3 typed options per component from a 43-entry option table placed in the component, its "
        "platform override or a blueprint (global / per stage), option values given literally or through a variable "
        "defined on 1-2 of the layers that the loaded platform reads, 0-2 command-line variables, a shared global "
        "variable, an environment. `fault` applies exactly one mutation at a position that the valid twin uses on the "
        "loaded platform (reference that exists, keyword key that is present, option that is set, variable that is "
        "read) and that is checked to create the stated fault (new name unused also after replication and not a "
        "folder, misspelt key not a keyword, wrong value not convertible, variable removed from every layer). "
        "Non-trivial (valid) = >=2 components with >=1 reference and at least one extra or replication; non-trivial "
        "(fault) = every case; distinct = distinct (document, platform, fault position, variant).")
ASSUMPTIONS = [
    "route memory-primitive (graphFromFlowIR(primitive=True), the default of the inspection entry points) is used for "
    "valid documents and for dangling-reference faults only",
    "'loads with validation' = the three routes named in the module docstring with their default validate=True; on "
    "the package route validateExperiment(checkExecutables=False) is part of loading (cycle detection lives there)",
    "graphFromFlowIR documents no exception; the FlowIRException family (raised explicitly by the FlowIRConcrete "
    "constructor for duplicate / unnamed components) is accepted there next to ExperimentInvalidConfigurationError; "
    "on the two on-disk routes only ExperimentInvalidConfigurationError is accepted",
    "UndefinedPlatformError is accepted when the loaded platform is `plat` and the mutation removed the only "
    "declaration of that platform (misspelt / mistyped `platforms`, `variables.plat`, ...): the documented error "
    "for a missing platform",
    "wrongly typed values are never convertible by the documented scalar conversion (no numeric strings for numbers, "
    "no true/false/yes/no strings or ints for booleans, no scalars where a string is expected)",
    "a misspelt key is key+'X', key without its last letter, first letter case-swapped, e->3 or key+'s', and is "
    "never another FlowIR keyword; user-chosen names (variables, platforms, environments, podSpec content) are not "
    "misspelt",
    "a producer is only dropped when its stage keeps another component (no stage-numbering gap as a second fault)",
    "component names are the well separated 'simple' names of the shared generator; reference method is :ref",
    "a load that takes longer than 60 s of wall clock (normal: <0.2 s) is reported as a hang",
    "a valid generated document that is rejected is not a violation of this property (implication); it stops the run "
    "as a harness error because the rejection of its mutants would then prove nothing",
    "variable definitions / environment values are only mistyped when they are the single definition that the loaded "
    "platform reads (no shadowed layer); the top-level `platforms` list is misspelt but not mistyped (not an option)",
]
TIERS = {"quick": {"shards": 8, "budget": 150}, "thorough": {"shards": 16, "budget": 2700}}

ROUTES = ("package", "conf", "memory", "memory-primitive")
KIND_WEIGHTS = D.KINDS + ["unknown-key", "unknown-key", "mistyped", "mistyped", "mistyped", "undefined-variable"]
LEFTOVER = re.compile(r"%\([a-zA-Z0-9_.-]+\)s")
REF = re.compile(r"^(?:stage(\d+)\.)?([^/:]+)(?:/[^:]*)?:([a-z]+)$")


# ------------------------------------------------------------------------------------------------------------
class _Hang(BaseException):
    pass


@contextlib.contextmanager
def guard(seconds: float):
    def on_alarm(signum, frame):
        raise _Hang()
    old = signal.signal(signal.SIGALRM, on_alarm)
    signal.setitimer(signal.ITIMER_REAL, seconds)
    try:
        yield
    finally:
        signal.setitimer(signal.ITIMER_REAL, 0)
        signal.signal(signal.SIGALRM, old)


def dump(doc) -> str:
    return yaml.safe_dump(doc, sort_keys=False, default_flow_style=None, width=150)


def load(route: str, doc, platform, ctx: Ctx):
    """-> ("accepted", workflow graph or None) | ("rejected", exception, traceback summary) | ("hang",)"""
    import experiment.model.conf
    import experiment.model.graph
    from ..gen import pkg
    loc = None
    n_path = len(sys.path)
    limit = getattr(ctx, "_c11_guard", 60.0)
    try:
        with guard(limit):
            if route == "memory":
                g = experiment.model.graph.WorkflowGraph.graphFromFlowIR(D.clone(doc), {}, platform=platform,
                                                                        primitive=False)
                return ("accepted", g)
            if route == "memory-primitive":
                # the default of graphFromFlowIR / configurationForExperiment: no replication
                g = experiment.model.graph.WorkflowGraph.graphFromFlowIR(D.clone(doc), {}, platform=platform,
                                                                        primitive=True)
                return ("accepted", g)
            loc = ctx.mkdtemp()
            if route == "conf":
                path = pkg.write_package(doc, loc)
                conf = experiment.model.conf.ExperimentConfigurationFactory.configurationForExperiment(
                    path, platform=platform, primitive=False, createInstanceFiles=False, updateInstanceFiles=False)
                g = experiment.model.graph.WorkflowGraph(conf, platform=conf.platform_name, primitive=False)
                return ("accepted", g)
            exp = pkg.experiment_from_flowir(doc, loc, platform=platform, validate=True, checkExecutables=False)
            return ("accepted", exp.experimentGraph)
    except _Hang:
        ctx._c11_guard = 5.0        # keep shrinking affordable once a hang has been seen
        return ("hang",)
    except Exception as e:
        return ("rejected", e, _frames(e))
    finally:
        del sys.path[n_path:]
        if loc:
            shutil.rmtree(loc, ignore_errors=True)


def _frames(e):
    return [(f.filename.rsplit("/", 1)[-1], f.name) for f in traceback.extract_tb(e.__traceback__)]


def proper_rejection(route, e, platform, mdoc) -> bool:
    import experiment.model.errors as E
    if isinstance(e, E.ExperimentInvalidConfigurationError):
        return True
    if route in ("memory", "memory-primitive") and isinstance(e, E.FlowIRException):
        return True
    if isinstance(e, E.UndefinedPlatformError) and platform and not plat_declared(mdoc, platform):
        return True
    return False


def plat_declared(doc, platform) -> bool:
    """Documented ways of declaring a platform: listed under `platforms` or a section under variables / environments /
    blueprint / application-dependencies / virtual-environments."""
    p = doc.get("platforms")
    if isinstance(p, list) and platform in p:
        return True
    for k in ("variables", "environments", "blueprint", "application-dependencies", "virtual-environments"):
        if isinstance(doc.get(k), dict) and platform in doc[k]:
            return True
    return False


def wrong_exception_sig(route, e, frames, kind) -> str:
    # one root cause: graphFromFlowIR builds FlowIRConcrete outside of the validating wrapper
    for a, b in zip(frames, frames[1:]):
        if a[1] == "graphFromFlowIR" and b == ("flowir.py", "__init__"):
            return "graphFromFlowIR-constructor-error-not-wrapped"
    return "wrong-exception:%s:%s@%s" % (type(e).__name__, kind, route)


def accepted_sig(kind, detail, pos, route) -> str:
    """Signature of an accepted faulty document; the three root causes that were identified get their own name."""
    path = pos.get("path", [])
    # with primitive=False only the flattened, replicated instance is validated, so schema faults of the document
    # outside `components` (top-level keys, variables / blueprint / environments sections) go unseen
    if route != "package" and kind in ("unknown-key", "mistyped") and (len(path) == 1 or path[0] != "components"):
        return "document-sections-not-validated-when-replicating"
    # the type conversion uses bool(<str>), which is True for every non-empty string
    if kind == "mistyped" and pos["cls"] == "bool" and detail.endswith("<-str"):
        return "non-boolean-string-accepted-for-bool-option"
    # replication converts with int(), 2.5 replicas become 2 before the (post-replication) validation looks
    if route != "package" and kind == "mistyped" and path[-2:] == ["workflowAttributes", "replicate"] \
            and detail.endswith("<-float"):
        return "fractional-replicate-accepted-when-replicating"
    return "accepted:%s:%s@%s" % (kind, detail, route)


# ------------------------------------------------------------------------------------------------------------
def soundness(g, route, context):
    """accepted => structurally executable (from the statement; works on the loaded object only)."""
    import networkx
    graph = g.graph
    nodes = list(graph.nodes)
    if not networkx.is_directed_acyclic_graph(graph):
        raise Violation("accepted-cyclic-graph@" + route, "loaded graph has a cycle %s | %s" % (
            networkx.find_cycle(graph), context))
    comps = g.configuration.get_flowir_concrete(return_copy=False).get_components(return_copy=False)
    ids = ["stage%s.%s" % (c.get("stage", 0), c.get("name")) for c in comps]
    if len(set(ids)) != len(ids):
        raise Violation("accepted-duplicate-identifier@" + route, "component identifiers %s | %s" % (sorted(ids), context))
    if set(ids) != set(nodes):
        raise Violation("graph-nodes-differ-from-components@" + route, "components %s, graph nodes %s | %s" % (
            sorted(ids), sorted(nodes), context))
    for n in sorted(nodes):
        data = graph.nodes[n]
        spec = data.get("componentSpecification")
        if spec is None:
            raise Violation("node-without-specification@" + route, "%s | %s" % (n, context))
        stage = spec.identification.stageIndex
        for ref in spec.rawDataReferences:
            m = REF.match(ref)
            if m is None:
                raise Violation("accepted-unparsable-reference@" + route, "%s: %r | %s" % (n, ref, context))
            s = int(m.group(1)) if m.group(1) is not None else stage
            first = m.group(2)
            if m.group(1) is None and first in D.FOLDERS:
                continue
            target = "stage%d.%s" % (s, first)
            if target not in graph:
                raise Violation("accepted-dangling-reference@" + route, "%s references %r, no node %s in %s | %s" % (
                    n, ref, target, sorted(nodes), context))
        try:
            conf = g.configurationForNode(n, raw=False)
        except Exception as e:
            raise Violation("accepted-unresolvable-configuration@" + route, "configurationForNode(%s): %s: %s | %s" % (
                n, type(e).__name__, str(e)[:300], context))
        left = []
        _leftovers(conf, [], left)
        if left:
            raise Violation("accepted-unresolved-variable@" + route, "%s: %s | %s" % (n, left[:3], context))


def _leftovers(o, path, out):
    if isinstance(o, str):
        if LEFTOVER.search(o):
            out.append((".".join(map(str, path)), o))
    elif isinstance(o, dict):
        for k, v in o.items():
            if k == "variables" and not path:
                continue
            _leftovers(v, path + [k], out)
    elif isinstance(o, list):
        for v in o:
            _leftovers(v, path, out)


# ------------------------------------------------------------------------------------------------------------
def _shape_labels(W, X):
    rep = wfgen.replication(W)
    out = ["platform:" + (X["platform"] or "default"), "second-platform" if X["plat"] else "single-platform"]
    if any(rep):
        out.append("replicated")
    if any(c["aggregate"] for c in W["components"]):
        out.append("aggregator")
    if any(c["replicate"] in ("global", "stage", "comp") for c in W["components"]):
        out.append("replicate-via-variable")
    return out


def check_valid(case, ctx: Ctx):
    W, X = case["W"], case["X"]
    doc = D.build(W, X)
    platform = X["platform"]
    context = "platform=%s document:\n%s" % (platform, dump(doc))
    for route in ROUTES:
        res = load(route, doc, platform, ctx)
        if res[0] != "accepted":
            # the statement is an implication (loads => executable): a valid document that does not load is outside
            # the property, but it means the generator left the domain the loader accepts -> harness error, exit 2
            why = "no answer within the guard" if res[0] == "hang" else "%s: %s" % (type(res[1]).__name__, str(res[1])[:600])
            raise HarnessError("generated valid document does not load on route %s: %s | %s" % (route, why, context))
        soundness(res[1], route, context)
    nopts = sum(len(c["opts"]) for c in X["comps"])
    nvars = len(D.used_variables(doc, X))
    ctx.rec.label(*_shape_labels(W, X))
    ctx.rec.label("valid:options=%s" % ("0" if nopts == 0 else "1-3" if nopts <= 3 else "4+"),
                  "valid:variables-read=%s" % ("0" if nvars == 0 else "1-2" if nvars <= 2 else "3+"))
    nrefs = sum(len(c["refs"]) for c in W["components"])
    if len(W["components"]) >= 2 and nrefs >= 1 and (nopts or nvars or any(wfgen.replication(W)) or X["blueprint"]):
        ctx.rec.nt(["valid", W, X], {"platform": platform or "default", "components": len(W["components"]),
                                      "references": nrefs, "options": nopts, "variables_read": nvars,
                                      "document": doc_sample(doc)}, group="valid")


def doc_sample(doc):
    s = dump(doc)
    return s if len(s) < 1500 else s[:1500] + "..."


def check_fault(case, ctx: Ctx):
    W, X, fault = case["W"], case["X"], case["fault"]
    doc = D.build(W, X)
    platform = X["platform"]
    # the valid twin loads (cheapest route; the other routes are the subject of `valid`)
    res = load("memory", doc, platform, ctx)
    if res[0] != "accepted":
        why = "no answer within the guard" if res[0] == "hang" else "%s: %s" % (type(res[1]).__name__, str(res[1])[:600])
        raise HarnessError("generated valid twin does not load: %s | platform=%s document:\n%s" % (why, platform, dump(doc)))
    mdoc, what = D.mutate(doc, W, X, fault)
    if dump(mdoc) == dump(doc):
        # (only on replay of a case pinned before the list of fault positions changed) no fault was applied
        ctx.rec.label("fault-not-applicable")
        return
    kind, detail = what["kind"], what["detail"]
    pinned = {"W": W, "X": X, "fault": dict(fault, at=[kind, what["pos"]])}     # replay independent of enumeration order
    context = "fault=%s (%s) platform=%s mutant document:\n%s" % (kind, what["text"], platform, dump(mdoc))
    outcome = {}
    pending = None
    for route in ROUTES:
        if route == "memory-primitive" and kind not in ("dangling-rename", "dangling-drop"):
            # the unreplicated (inspection) load is only asked about references: it performs the reference validation
            # that the replicated load relies on, but it does not build the execution graph (no expanded identifiers,
            # no cycle detection - observed on the pinned tree, and no execution path uses a primitive graph)
            continue
        res = load(route, mdoc, platform, ctx)
        if res[0] == "hang":
            v = Violation("hang:%s@%s" % (kind, route), "load did not return within the guard | " + context)
        elif res[0] == "accepted":
            outcome[route] = "accepted"
            try:
                soundness(res[1], route, context)      # gives the more specific signature when unsound
            except Violation as sv:
                sv.case = pinned
                raise
            v = Violation(accepted_sig(kind, detail, what["pos"], route), "the faulty workflow loads | " + context)
        else:
            e, frames = res[1], res[2]
            if proper_rejection(route, e, platform, mdoc):
                outcome[route] = type(e).__name__
                continue
            v = Violation(wrong_exception_sig(route, e, frames, kind), "rejected with %s: %s (frames %s) | %s" % (
                type(e).__name__, str(e)[:300], frames[-4:], context))
        if v.sig in ctx.excluded:
            ctx.rec.excluded[v.sig] += 1
            outcome[route] = "known:" + v.sig
            continue
        if pending is None:
            pending = v
    if pending is not None:
        pending.case = pinned
        raise pending
    ctx.rec.label("fault:" + kind, "fault:%s:%s" % (kind, D.subclass(kind, what["pos"])))
    ctx.rec.label(*_shape_labels(W, X))
    if kind == "mistyped":
        ctx.rec.label("mistyped-class:" + what["pos"]["cls"])
        ctx.rec.cover("mistyped_options", D.generic(what["pos"]["path"]))
    if kind == "unknown-key":
        ctx.rec.cover("misspelt_keys", D.generic(what["pos"]["path"]))
    if kind == "undefined-variable":
        ctx.rec.cover("undefined_variable_usages", detail)
    ctx.rec.nt(["fault", W, X, kind, what["pos"], fault["variant"] % 2 if kind == "cycle" else 0],
               {"fault": kind, "what": what["text"], "platform": platform or "default", "rejections": outcome,
                "mutant": doc_sample(mdoc)}, group="fault:" + kind)


# ------------------------------------------------------------------------------------------------------------
@st.composite
def _workflows(draw):
    W = draw(wfgen.workflows(max_components=5, max_stages=3, names="simple", methods=("ref",), allow_paths=False,
                             allow_repeat=True, allow_shutdown=True, replicate_via_vars=True, max_n=3))
    # a third of the workflows reuse one component name in another stage (legal: identifiers are (stage, name))
    comps = W["components"]
    pairs = [(i, j) for i in range(len(comps)) for j in range(len(comps)) if comps[i]["stage"] != comps[j]["stage"]]
    if pairs and draw(st.integers(0, 2)) == 0:
        i, j = draw(st.sampled_from(pairs))
        old = comps[i]["name"]
        comps[i]["name"] = comps[j]["name"]
        if not wfgen.unique_after_expansion(W):
            comps[i]["name"] = old
    return W


@st.composite
def valid_cases(draw):
    W = draw(_workflows())
    return {"W": W, "X": draw(D.extras(W))}


@st.composite
def fault_cases(draw):
    W = draw(_workflows())
    X = draw(D.extras(W))
    fault = {"kind": draw(st.sampled_from(KIND_WEIGHTS)), "pos": draw(st.integers(0, 9999)),
             "variant": draw(st.integers(0, 9))}
    return {"W": W, "X": X, "fault": fault}


def _placeholder_doc(ref, loop_stage, loop_names):
    comps = [{"stage": 0, "name": "seed", "command": {"executable": "echo", "arguments": "hi"}}]
    for n in loop_names:
        comps.append({"stage": loop_stage, "name": n, "command": {"executable": "echo", "arguments": "stage0.seed:ref"},
                      "references": ["stage0.seed:ref"]})
    if loop_stage == 2:      # stage indices are consecutive
        comps.append({"stage": 1, "name": "filler", "command": {"executable": "echo", "arguments": "hi"}})
    comps.append({"stage": loop_stage + 1, "name": "consume", "command": {"executable": "echo", "arguments": ref},
                  "references": [ref]})
    return {"components": comps}


def check_placeholder(case, ctx: Ctx):
    """"every component reference points to an existing component or loop placeholder": a reference to the base name of
    unrolled loop instances (<iteration>#<name>) is fine in the stage that holds them and dangling in any other."""
    doc = _placeholder_doc(case["ref"], case["loop_stage"], case["names"])
    out = load(case["route"], doc, None, ctx)
    if out[0] == "hang":
        raise Violation("load-hangs@placeholder", "%s %s" % (case, dump(doc)[:400]))
    if case["dangling"]:
        if out[0] == "accepted":
            raise Violation("dangling-reference-accepted@loop-instance-in-other-stage",
                            "[%s] reference %s accepted although stage %d holds %s and the referenced stage nothing of "
                            "that name" % (case["route"], case["ref"], case["loop_stage"], case["names"]))
        if not proper_rejection(case["route"], out[1], None, doc):
            raise Violation(wrong_exception_sig(case["route"], out[1], out[2], "dangling"),
                            "[%s] %s: %s" % (case["route"], type(out[1]).__name__, str(out[1])[:300]))
    elif out[0] != "accepted":
        raise Violation("valid-workflow-rejected@placeholder-reference",
                        "[%s] reference %s to the loop placeholder of %s in stage %d: %s: %s" % (
                            case["route"], case["ref"], case["names"], case["loop_stage"], type(out[1]).__name__,
                            str(out[1])[:300]))
    ctx.rec.label("placeholder:%s:%s" % ("dangling" if case["dangling"] else "valid", case["route"]))


def check_unused_chain(case, ctx: Ctx):
    """"an undefined variable is rejected": also when it is only reachable through the value of another variable that
    no option of the component uses."""
    comp = {"stage": 0, "name": "a", "command": {"executable": "echo", "arguments": "hi"}}
    doc = {"components": [comp]}
    value = "hi-%(suffix)s"
    if case["where"] == "component":
        comp["variables"] = {"message": value}
    elif case["where"] == "global":
        doc["variables"] = {"default": {"global": {"message": value}}}
    else:
        doc["variables"] = {"default": {"stages": {0: {"message": value}}}}
    if case["defined"]:
        doc.setdefault("variables", {}).setdefault("default", {}).setdefault("global", {})["suffix"] = "x"
    out = load(case["route"], doc, None, ctx)
    if out[0] == "hang":
        raise Violation("load-hangs@unused-chain", "%s" % case)
    if case["defined"]:
        if out[0] != "accepted":
            raise Violation("valid-workflow-rejected@unused-variable-chain", "[%s] %s: %s" % (
                case["route"], type(out[1]).__name__, str(out[1])[:300]))
    elif out[0] == "accepted":
        raise Violation("undefined-variable-accepted@only-used-by-unused-variable",
                        "[%s] variable message=%r (%s level) refers to an undefined variable and the workflow loads" % (
                            case["route"], value, case["where"]))
    elif not proper_rejection(case["route"], out[1], None, doc):
        raise Violation(wrong_exception_sig(case["route"], out[1], out[2], "undefined-variable"),
                        "[%s] %s: %s" % (case["route"], type(out[1]).__name__, str(out[1])[:300]))
    ctx.rec.label("unused-chain:%s:%s" % ("defined" if case["defined"] else "undefined", case["route"]))


def unused_chain_anchors():
    return [{"where": w, "route": r, "defined": d} for w in ("component", "global", "stage")
            for r in ("memory", "memory-primitive", "conf", "experiment") for d in (False, True)]


def placeholder_anchors():
    out = []
    for route in ("memory", "memory-primitive", "conf"):
        for names in (["0#work"], ["0#work", "1#work"], ["12#work", "3#work"]):
            for loop_stage in (1, 2):
                out.append({"route": route, "names": names, "loop_stage": loop_stage, "dangling": False,
                            "ref": "stage%d.work:ref" % loop_stage})
                for other in (0, loop_stage + 1, loop_stage - 1):
                    out.append({"route": route, "names": names, "loop_stage": loop_stage, "dangling": True,
                                "ref": "stage%d.work:ref" % other})
    return out


def shard(ctx: Ctx):
    anchors = [("placeholder", check_placeholder, c) for c in placeholder_anchors()] + \
              [("unused-chain", check_unused_chain, c) for c in unused_chain_anchors()]
    for idx, (sub, fn, case) in enumerate(anchors):
        if idx % ctx.nshards != ctx.shard or ctx.stop:
            continue
        ctx.rec.evaluations += 1
        try:
            fn(case, ctx)
        except Violation as v:
            v.case, v.sub = case, sub
            ctx.rec.violations.append(v.to_dict())
            ctx.stop = True
            return
    explore(ctx, "valid", valid_cases(), check_valid, ctx.n(640, 24000), batch=40)
    explore(ctx, "fault", fault_cases(), check_fault, ctx.n(3600, 160000), batch=75)


def replay(sub, case, ctx: Ctx):
    {"valid": check_valid, "fault": check_fault, "placeholder": check_placeholder,
     "unused-chain": check_unused_chain}[sub or "fault"](case, ctx)
