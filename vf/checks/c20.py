"""C20 — reported progress is a proper weighted fraction.

sub `weights`  : FlowIRConcrete(...).get_status() stage weights for generated weight vectors (pure, cheap).
sub `monitor`  : real Experiment + real StatusMonitor: stageWeights and the total progress computed by the real
                 CheckStatus closure (captured by replacing monitor.CreateMonitor) under a scripted controller.
"""
from __future__ import annotations

import itertools
import math
import shutil
import threading
from fractions import Fraction

from hypothesis import strategies as st

from ..core import Ctx, Violation, explore

ID = "C20"
LEVEL = "exploration"
RULE = ("1..120 stages (monitor sub-check: 1..13); weight vectors are built by construction from families: exact decimal partitions of 10^d (d=1..6), dyadic "
        "partitions k/2^m, thirds, then optionally perturbed (missing / non-numeric / negative / >1 / off-by >1e-3); "
        "given as float, int or numeric string. Non-trivial = >=2 stages with at least one explicitly given weight; "
        "distinct = distinct (weight vector, progress script) values.")
ASSUMPTIONS = [
    "weights whose exact rational sum differs from one by less than 1e-3 (but is not exactly one) are not generated: "
    "the statement does not say whether such vectors 'already sum to one'",
    "'sum to one' on outputs is checked with |fsum-1| <= 1e-9",
    "monitor sub-check: the controller is a scripted double that reports disjoint finished / in-transit stage sets "
    "and per-stage progress in [0,1] (what Controller.get_stage_status can return)",
]
TIERS = {"quick": {"shards": 8, "budget": 100}, "thorough": {"shards": 16, "budget": 1500}}

TOL = 1e-9


# ------------------------------------------------------------------------------------------------------------
# generators
def _partition(total: int, n: int):
    """n non-negative ints summing to total, by construction (cut points)."""
    return st.lists(st.integers(0, total), min_size=n - 1, max_size=n - 1).map(
        lambda cuts: [b - a for a, b in zip([0] + sorted(cuts), sorted(cuts) + [total])])


@st.composite
def exact_vector(draw, n):
    kind = draw(st.sampled_from(["dec", "dec", "dyadic", "equal"]))
    if kind == "dec":
        d = draw(st.integers(1, 6))
        parts = draw(_partition(10 ** d, n))
        return [{"t": "dec", "num": p, "den": 10 ** d} for p in parts]
    if kind == "dyadic":
        m = draw(st.integers(1, 12))
        parts = draw(_partition(2 ** m, n))
        return [{"t": "dec", "num": p, "den": 2 ** m} for p in parts]
    # equal weights 1/n as python floats (what a user writes as 0.3333333333333333)
    return [{"t": "dec", "num": 1, "den": n} for _ in range(n)]


def _render(w):
    """The python value placed in the FlowIR document for a weight spec."""
    t = w["t"]
    if t == "missing":
        return None
    if t == "raw":
        return w["v"]
    val = w["num"] / w["den"]
    form = w.get("form", "float")
    if form == "str":
        return repr(val)
    if form == "int" and w["num"] % w["den"] == 0:
        return w["num"] // w["den"]
    return val


def _exact(w):
    """Exact rational value of the float that the code will see (None if not numeric/missing)."""
    v = _render(w)
    if v is None:
        return None
    try:
        return Fraction(float(v))
    except (ValueError, TypeError, OverflowError):
        return None


@st.composite
def weight_case(draw, max_n=120, forms=("float",)):
    n = draw(st.one_of(st.integers(1, 6), st.integers(1, max_n)))
    ws = draw(exact_vector(n))
    for w in ws:
        w["form"] = draw(st.sampled_from(forms))
    mode = draw(st.sampled_from(["exact", "exact", "perturb", "negsum1", "allmissing"]))
    if mode == "perturb":
        k = draw(st.integers(1, min(3, n)))
        for i in draw(st.lists(st.integers(0, n - 1), min_size=k, max_size=k, unique=True)):
            p = draw(st.sampled_from(["missing", "neg", "big", "shift", "truncfool", "nonfinite"] +
                                     (["string"] if "str" in forms else [])))
            if p == "missing":
                ws[i] = {"t": "missing"}
            elif p == "string":
                ws[i] = {"t": "raw", "v": draw(st.sampled_from(["abc", "", "half", "0.5x", "1/2"]))}
            elif p == "nonfinite":
                ws[i] = {"t": "raw", "v": draw(st.sampled_from([float("nan"), float("inf"), -float("inf")]))}
            elif p == "neg":
                ws[i] = {"t": "raw", "v": -draw(st.integers(1, 3000)) / 1000.0}
            elif p == "big":
                ws[i] = {"t": "raw", "v": 1.0 + draw(st.integers(1, 3000)) / 1000.0}
            elif p == "shift":
                base = _exact(ws[i]) or Fraction(0)
                ws[i] = {"t": "raw", "v": float(base) + draw(st.sampled_from([0.0015, 0.002, 0.01, 0.1, -0.0015, -0.01]))}
            else:
                # every weight gets sub-millesimal excess: truncation to 3 decimals hides a sum well above one
                exc = draw(st.integers(5, 9)) / 10000.0
                ws = [{"t": "raw", "v": float(_exact(w) or 0) + exc} for w in ws]
                break
    elif mode == "negsum1" and n >= 2:
        i, j = draw(st.lists(st.integers(0, n - 1), min_size=2, max_size=2, unique=True))
        e = draw(st.integers(1, 1500)) / 1000.0
        # one negative weight, compensated so that the vector still sums to (about) one
        a = float((_exact(ws[i]) or 0) + (_exact(ws[j]) or 0))
        ws[j] = {"t": "raw", "v": -e}
        ws[i] = {"t": "raw", "v": a + e}
    elif mode == "allmissing":
        ws = [{"t": "missing"} for _ in range(n)]
    case = {"weights": ws}
    # the same mapping listed in another order / without entries for the stages that give no weight
    how = draw(st.sampled_from(["asc", "asc", "perm", "rev", "omit", "perm+omit"]))
    if n >= 2 and how != "asc":
        if how == "rev":
            case["order"] = list(range(n - 1, -1, -1))
        elif how.startswith("perm"):
            case["order"] = list(draw(st.permutations(list(range(n)))))
        if how.endswith("omit"):
            case["omit_missing"] = True
    return case


def classify(ws):
    """-> (kind, exact values) where kind in {'exact-one','off','ambiguous'}"""
    vals = [_exact(w) for w in ws]
    if any(v is None for v in vals):
        # a stage without a weight counts as 0: the given ones may still land in the near-one band that the statement
        # leaves open ("sum to one" up to which rounding?) - thorough seed 11: [missing, 1e-06, 0.999998]
        given = [v for v in vals if v is not None and not isinstance(v, str)]
        try:
            s = sum(given)
            if all(v >= 0 for v in given) and s != 1 and abs(s - 1) <= Fraction(1, 1000):
                return "ambiguous", vals
        except TypeError:
            pass
        return "off", vals
    s = sum(vals)
    if any(v < 0 for v in vals):
        return "off", vals
    if s == 1 or math.fsum(float(v) for v in vals) == 1.0:
        return "exact-one", vals
    if abs(s - 1) <= Fraction(1, 1000):
        return "ambiguous", vals
    return "off", vals


# ------------------------------------------------------------------------------------------------------------
def flowir_for(ws, order=None, omit_missing=False, ncomps=None):
    """`order`: listing order of the status-report entries (a permutation of the stage indices; the document is the same
    mapping); `omit_missing`: stages without a weight get no entry at all instead of an empty one."""
    comps = [{"name": "c%d%s" % (i, "" if k == 0 else "x%d" % k), "stage": i,
              "command": {"executable": "echo", "arguments": "hi"}}
             for i in range(len(ws)) for k in range((ncomps or [1] * len(ws))[i])]
    status = {}
    for i in (order if order is not None else range(len(ws))):
        v = _render(ws[i])
        if v is None and omit_missing:
            continue
        status[i] = {} if v is None else {"stage-weight": v}
    return {"components": comps, "status-report": status}


def check_output_weights(out, ws, where):
    kind, vals = classify(ws)
    if kind == "ambiguous":
        return kind
    try:
        out = [float(o) for o in out]      # a numeric string given by the package is as good as the number
    except (TypeError, ValueError):
        raise Violation("weight-not-a-number@" + where, "given %s -> %r" % ([_render(w) for w in ws], out))
    for i, o in enumerate(out):
        if o != o:
            raise Violation("weight-not-a-number@" + where, "stage %d weight %r" % (i, o))
        if o < 0:
            raise Violation("negative-weight@" + where, "given %s -> %s" % ([_render(w) for w in ws], out))
    s = math.fsum(out)
    if abs(s - 1.0) > TOL:
        raise Violation("weights-do-not-sum-to-one@" + where,
                        "given %s -> %s (sum %r)" % ([_render(w) for w in ws], out, s))
    if kind == "exact-one":
        exp = [float(v) for v in vals]
        if [float(o) for o in out] != exp:
            raise Violation("valid-weights-replaced@" + where, "given %s (sum exactly one) -> %s" % (exp, out))
    return kind


def _listing(case):
    return dict(order=case.get("order"), omit_missing=bool(case.get("omit_missing")))


def check_weights(case, ctx: Ctx):
    import experiment.model.frontends.flowir as F
    ws = case["weights"]
    concrete = F.FlowIRConcrete(flowir_for(ws, **_listing(case)), None, None)
    status = concrete.get_status()
    out = [status[i]["stage-weight"] for i in range(len(ws))]
    kind = check_output_weights(out, ws, "flowir")
    ctx.rec.label("kind:" + kind, "n>=3" if len(ws) >= 3 else "n<3",
                  "listing:" + ("permuted" if case.get("order") else "ascending") + ("+omitted" if case.get("omit_missing") else ""))
    if len(ws) >= 2 and any(w["t"] != "missing" for w in ws) and kind != "ambiguous":
        ctx.rec.nt(["w", [_render(w) for w in ws]], {"given": [_render(w) for w in ws], "kind": kind, "out": out},
                   group="weights")


# ------------------------------------------------------------------------------------------------------------
@st.composite
def monitor_case(draw):
    c = draw(weight_case(max_n=13, forms=("float", "float", "float", "str", "int")))
    n = len(c["weights"])
    cur = draw(st.integers(0, n - 1))
    others = [i for i in range(n) if i != cur]
    roles = [draw(st.sampled_from(["finished", "finished", "transit", "idle"])) for _ in others]
    prog = [draw(st.sampled_from([0.0, 1.0, 0.5, 0.25, 1 / 3, 0.999])) for _ in range(n)]
    if draw(st.booleans()):
        roles = ["finished"] * len(others)
        prog[cur] = 1.0
    c.update({"current": cur, "roles": dict(zip(map(str, others), roles)), "progress": prog})
    return c


class _ScriptedController:
    """The slice of Controller that StatusMonitor.CheckStatus uses."""

    def __init__(self, exp, case):
        self.exp = exp
        self.case = case
        self.comp_lock = threading.RLock()

    def stage(self):
        return self.exp._stages[self.case["current"]]

    def stageState(self, stage):
        import experiment.model.codes as codes
        return codes.RUNNING_STATE

    def get_stages_in_transit(self):
        return {int(i) for i, r in self.case["roles"].items() if r == "transit"}

    def get_stages_finished(self):
        return {int(i) for i, r in self.case["roles"].items() if r == "finished"}

    def get_stage_status(self, idx):
        return self.case["progress"][idx]

    def generate_status_report_for_nodes(self, *a, **k):
        return ""


def check_monitor(case, ctx: Ctx):
    import experiment.runtime.monitor
    import experiment.runtime.output
    from ..gen import pkg
    ws = case["weights"]
    kind, _ = classify(ws)
    loc = ctx.mkdtemp()
    import experiment.model.errors
    try:
        exp = pkg.experiment_from_flowir(flowir_for(ws, **_listing(case)), loc)
    except experiment.model.errors.ExperimentInvalidConfigurationError as e:
        if all(isinstance(_render(w), float) or _render(w) is None for w in ws):
            raise Violation("float-weights-rejected", "given %s: %s" % ([_render(w) for w in ws], str(e)[-300:]))
        ctx.rec.label("malformed-rejected")     # ints / strings are not floats for the package validator
        return
    concrete = exp.experimentGraph.configuration.get_flowir_concrete(return_copy=False)
    status = concrete.get_status()
    fl_w = [status[i]["stage-weight"] for i in range(len(ws))]
    check_output_weights(fl_w, ws, "package")
    mon = experiment.runtime.output.StatusMonitor(exp, report_components=False)
    check_output_weights(list(mon.stageWeights), ws, "statusmonitor")
    # total progress through the real CheckStatus closure
    captured = []
    orig = experiment.runtime.monitor.CreateMonitor
    experiment.runtime.monitor.CreateMonitor = lambda interval, action, **kw: (captured.append(action) or (lambda: None))
    try:
        ctrl = _ScriptedController(exp, case)
        mon.run(ctrl)
    finally:
        experiment.runtime.monitor.CreateMonitor = orig
    if not captured:
        raise RuntimeError("harness: StatusMonitor.run did not create a monitor")
    mon._status_database = None
    captured[0](False)
    total = mon.statusFile.totalProgress()
    w = list(mon.stageWeights)
    cur = case["current"]
    active = [cur] + sorted(ctrl.get_stages_in_transit())
    model = math.fsum([w[i] * case["progress"][i] for i in active] + [w[i] for i in sorted(ctrl.get_stages_finished())])
    all_done = all(r == "finished" for r in case["roles"].values()) and case["progress"][cur] == 1.0
    ctx.rec.label("kind:" + kind, "all-done" if all_done else "in-progress")
    if kind != "ambiguous":
        if not (-TOL <= total <= 1 + TOL):
            raise Violation("total-progress-out-of-range", "weights %s script %s -> total %r" % (w, case, total))
        if abs(total - model) > 1e-9:
            raise Violation("total-progress-not-weighted-sum", "weights %s -> total %r, model %r" % (w, total, model))
        if all_done and abs(total - 1.0) > TOL:
            raise Violation("total-progress-not-one-when-complete", "weights %s -> total %r" % (w, total))
        if len(ws) >= 2 and any(x["t"] != "missing" for x in ws):
            ctx.rec.nt(["m", [_render(x) for x in ws], cur, case["roles"], case["progress"]],
                       {"given": [_render(x) for x in ws], "stageWeights": w, "current": cur, "roles": case["roles"],
                        "progress": case["progress"], "total": total}, group="monitor")
    try:
        mon.kill()
    except Exception:
        pass


# ------------------------------------------------------------------------------------------------------------
# sub `controller`: the real Controller's bookkeeping (get_stages_in_transit / get_stages_finished / get_stage_status)
# feeding the real CheckStatus, over generated combinations of component states: which stage is current, which
# components reached which state, and which of the final ones the controller has already observed (comp_done).
COMP_STATES = ["unset", "running", "finished", "finished", "failed", "shutdown"]


@st.composite
def controller_case(draw):
    c = draw(weight_case(max_n=5, forms=("float",)))
    n = len(c["weights"])
    ncomps = [draw(st.integers(1, 3)) for _ in range(n)]
    cur = draw(st.integers(0, n - 1))
    mode = draw(st.sampled_from(["any", "any", "sequential", "complete"]))
    comps = []
    for i in range(n):
        row = []
        for k in range(ncomps[i]):
            if i > cur:
                row.append(["unset", False])                 # stages after the current one are not initialised
            elif mode == "complete" or (mode == "sequential" and i < cur):
                row.append(["finished", True])
            else:
                state = draw(st.sampled_from(COMP_STATES))
                observed = state in ("finished", "failed", "shutdown") and draw(st.booleans())
                row.append([state, observed])
        comps.append(row)
    if mode == "complete":
        cur = n - 1
        comps = [[["finished", True] for _ in row] for row in comps]
    # while the status round is in progress the controller may observe components (a concurrent finishedCheck): the
    # round reports one consistent snapshot, taken at its start
    c.update({"ncomps": ncomps, "current": cur, "comps": comps, "observe_during_round": draw(st.booleans())})
    # a restart: the controller is initialised at a later stage; the stages before it were completed by an earlier run
    if cur > 0 and draw(st.integers(0, 3)) == 0:
        start = draw(st.integers(1, cur))
        c["start_at"] = start
        for i in range(start):
            c["comps"][i] = [["finished", True] for _ in c["comps"][i]]
    return c


def check_controller(case, ctx: Ctx):
    import networkx
    import experiment.model.codes as codes
    import experiment.model.errors
    import experiment.runtime.control as control
    import experiment.runtime.monitor
    import experiment.runtime.output
    import experiment.runtime.workflow as workflow
    from ..gen import pkg
    from ..rt import kernel as K
    from ..rt.driver import FakeStatusDB
    ws = case["weights"]
    kind, _ = classify(ws)
    if kind == "ambiguous":
        ctx.rec.label("controller:ambiguous-weights-skipped")
        return
    loc = ctx.mkdtemp()
    K.new_case()                     # no real threads: the runtime's pools are the deterministic kernel's
    try:
        try:
            exp = pkg.experiment_from_flowir(flowir_for(ws, ncomps=case["ncomps"], **_listing(case)), loc)
        except experiment.model.errors.ExperimentInvalidConfigurationError:
            ctx.rec.label("controller:malformed-rejected")
            return
        cs = {}
        for name in networkx.topological_sort(exp.graph):
            data = exp.graph.nodes[name]
            spec = data["componentSpecification"]
            job = exp._stages[data["stageIndex"]].jobWithName(spec.identification.componentName)
            cs[name] = workflow.ComponentState(job, exp.experimentGraph, create_engine=True)
        ctrl = control.Controller(exp)
        cur = case["current"]
        start = case.get("start_at", 0)
        for i in range(start, cur + 1):
            ctrl.initialise(exp._stages[i], FakeStatusDB())
        STATE = {"running": codes.RUNNING_STATE, "finished": codes.FINISHED_STATE, "failed": codes.FAILED_STATE,
                 "shutdown": codes.SHUTDOWN_STATE}
        for i, row in enumerate(case["comps"]):
            if i < start:
                continue            # completed by the earlier run: the controller itself accounts for them
            for k, (state, observed) in enumerate(row):
                ref = "stage%d.c%d%s" % (i, i, "" if k == 0 else "x%d" % k)
                if state != "unset":
                    cs[ref].controllerState = STATE[state]
                if observed:
                    ctrl.comp_done.add(ref)
        mon = experiment.runtime.output.StatusMonitor(exp, report_components=False)
        w = list(mon.stageWeights)
        captured = []
        orig = experiment.runtime.monitor.CreateMonitor
        experiment.runtime.monitor.CreateMonitor = lambda interval, action, **kw: (captured.append(action) or (lambda: None))
        try:
            mon.run(ctrl)
        finally:
            experiment.runtime.monitor.CreateMonitor = orig
        if not captured:
            raise RuntimeError("harness: StatusMonitor.run did not create a monitor")
        mon._status_database = None
        flipped = []
        if case.get("observe_during_round"):
            orig_status = ctrl.get_stage_status

            def status_then_observe(idx):
                r = orig_status(idx)
                if idx != cur and idx <= cur:
                    for k, (state, observed) in enumerate(case["comps"][idx]):
                        ref = "stage%d.c%d%s" % (idx, idx, "" if k == 0 else "x%d" % k)
                        if state in ("finished", "failed", "shutdown") and not observed and ref not in ctrl.comp_done:
                            ctrl.comp_done.add(ref)          # the controller observes it right after it was counted
                            flipped.append(ref)
                return r
            ctrl.get_stage_status = status_then_observe
        captured[0](False)
        total = mon.statusFile.totalProgress()
        # the statement's reading: weighted sum of per-stage progress; a stage whose components were all observed counts
        # in full, any other stage counts with the fraction of its components that FINISHED (0 when not initialised)
        model = []
        for i, row in enumerate(case["comps"]):
            frac = sum(1 for st_, _ in row if st_ == "finished") / float(len(row)) if i <= cur else 0.0
            done = all(obs for _, obs in row)
            model.append(w[i] * (1.0 if (done and i != cur) else frac))
        model = math.fsum(model)
        complete = all(st_ == "finished" and obs for row in case["comps"] for st_, obs in row)
        unobserved_final_elsewhere = any(st_ in ("finished", "failed", "shutdown") and not obs
                                         for i, row in enumerate(case["comps"]) if i != cur for st_, obs in row)
        desc = "weights %s current %d components %s -> total %r (in transit %s, finished %s)" % (
            w, cur, case["comps"], total, ctrl.get_stages_in_transit(), ctrl.get_stages_finished())
        if not (-TOL <= total <= 1 + TOL):
            raise Violation("total-progress-out-of-range@controller", desc)
        if complete and abs(total - 1.0) > TOL:
            raise Violation("total-progress-not-one-when-complete@controller", desc)
        if abs(total - model) > 1e-9:
            raise Violation("total-progress-not-weighted-sum@controller", desc + " model %r" % model)
        if flipped:
            ctx.rec.label("controller:observed-during-round")
        if start:
            ctx.rec.label("controller:restarted-at-later-stage")
        ctx.rec.label("controller:complete" if complete else "controller:in-progress",
                      "controller:unobserved-final-in-other-stage" if unobserved_final_elsewhere else
                      "controller:observed-consistent")
        if len(ws) >= 2 and not complete:
            ctx.rec.nt(["ctl", [_render(x) for x in ws], cur, case["comps"]],
                       {"stageWeights": w, "current": cur, "components": case["comps"], "total": total},
                       group="controller")
    finally:
        try:
            mon.kill()
        except Exception:
            pass
        shutil.rmtree(loc, ignore_errors=True)


# ------------------------------------------------------------------------------------------------------------
def exhaustive_small(ctx: Ctx):
    """All partitions of 20 twentieths (and of 8 eighths) over 1..4 stages, sharded."""
    idx = 0
    for den in (20, 8):
        for n in (1, 2, 3, 4):
            for parts in itertools.product(range(den + 1), repeat=n - 1):
                if sum(parts) > den:
                    continue
                idx += 1
                if idx % ctx.nshards != ctx.shard:
                    continue
                full = list(parts) + [den - sum(parts)]
                case = {"weights": [{"t": "dec", "num": p, "den": den} for p in full]}
                ctx.rec.evaluations += 1
                try:
                    check_weights(case, ctx)
                except Violation as v:
                    if v.sig in ctx.excluded:
                        ctx.rec.excluded[v.sig] += 1
                        continue
                    v.case = case
                    v.sub = "weights"
                    ctx.rec.violations.append(v.to_dict())
                    ctx.stop = True
                    return
    ctx.rec.count("exhaustive_partitions_enumerated", idx if ctx.shard == 0 else 0)
    # StatusMonitor with two-digit stage indices and pairwise different weights (k / (1+2+..+n)), on every run
    for n in (10, 11, 12, 13):
        if n % ctx.nshards != ctx.shard or ctx.stop:
            continue
        den = n * (n + 1) // 2
        case = {"weights": [{"t": "dec", "num": k, "den": den, "form": "float"} for k in range(1, n + 1)],
                "current": n - 1, "roles": {str(i): "finished" for i in range(n - 1)}, "progress": [1.0] * n}
        ctx.rec.evaluations += 1
        try:
            check_monitor(case, ctx)
        except Violation as v:
            if v.sig in ctx.excluded:
                ctx.rec.excluded[v.sig] += 1
                continue
            v.case, v.sub = case, "monitor"
            ctx.rec.violations.append(v.to_dict())
            ctx.stop = True
            return
    # every stage count up to 160 with no weights given / with equal weights 1/n (the fallback arithmetic depends on n)
    for n in range(1, 161):
        if n % ctx.nshards != ctx.shard:
            continue
        for case in ({"weights": [{"t": "missing"} for _ in range(n)]},
                     {"weights": [{"t": "dec", "num": 1, "den": n, "form": "float"} for _ in range(n)]}):
            ctx.rec.evaluations += 1
            try:
                check_weights(case, ctx)
            except Violation as v:
                if v.sig in ctx.excluded:
                    ctx.rec.excluded[v.sig] += 1
                    continue
                v.case = case
                v.sub = "weights"
                ctx.rec.violations.append(v.to_dict())
                ctx.stop = True
                return


def shard(ctx: Ctx):
    # (integer weights are honoured at the FlowIRConcrete level; the package validator wants floats)
    explore(ctx, "weights", weight_case(forms=("float", "float", "float", "int")), check_weights,
            ctx.n(6000, 400000), batch=1000)
    explore(ctx, "monitor", monitor_case(), check_monitor, ctx.n(240, 8000), batch=60)
    explore(ctx, "controller", controller_case(), check_controller, ctx.n(240, 8000), batch=60)
    exhaustive_small(ctx)


def replay(sub, case, ctx: Ctx):
    {"weights": check_weights, "monitor": check_monitor, "controller": check_controller}[sub or "weights"](case, ctx)
