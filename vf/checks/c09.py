"""C09 — data references parse, print and classify consistently.

sub `parse`    : pure functions. A generated world (known components, application dependencies, manifest, consumer
                 stage) and 1-6 references built from the grammar [stage<i>.]<producer>[/<path>]:<method>.
                 (1) compile_reference / ParseDataReference / ParseDataReferenceFull round trip,
                 (2) expand_component_references / expand_potential_component_reference idempotent, absolute form fixed,
                 (3) DataReference / ComponentIdentifier: relative spelling + stage == absolute spelling,
                 (4) classification against an independent classifier written from the statement,
                 (5) Manifest(...).top_level_folders == left-most segment of every manifest key.
sub `validate` : FlowIRConcrete(flowir).validate(Manifest(manifest).top_level_folders) (the chain used by
                 FlowIRExperimentConfiguration.validate) must not report an unknown component / unknown reference for a
                 consumer whose references are all folders (reserved, app-dep, manifest, absolute, variable) or known
                 components.
sub `package`  : the same through ExperimentPackage.packageFromLocation(<flowir yaml>, manifest=...): loads, reports the
                 expected top-level folders and rewrites exactly the component references to their absolute spelling.
"""
from __future__ import annotations

import os
import re

from hypothesis import strategies as st

from ..core import Ctx, Violation, explore
from ..gen import c09_refs as G
from ..gen.c09_refs import text

ID = "C09"
LEVEL = "exploration"
RULE = ("references are built from the grammar [stage<i>.]<producer>[/<path>]:<method> (all 8 methods; producers from a "
        "confusable alphabet with dots, dashes, digits, `<k>#` loop prefixes; folder references to input/data/bin/conf, "
        "application dependencies (with directory, extension, case), manifest keys (nested a/b/c), absolute paths and "
        "%(var)s) together with generated sets of known components, manifest entries and application dependencies that "
        "are biased to collide with the producers. Non-trivial = the first path segment of the reference equals (or "
        "equals up to case) a member of at least one name set (components, app-deps, manifest folders, reserved), or "
        "contains a dot, a `#`, or ends in a digit; distinct = distinct (reference text, consumer stage, class, "
        "collision flags).")
ASSUMPTIONS = [
    "producer / folder names are [A-Za-z0-9_][A-Za-z0-9_.-]* (the repository's own tokeniser class for references), "
    "never a reserved folder and never literally `stage<i>.<rest>` (that text is the absolute spelling of <rest>)",
    "components live in stages 0-3, an explicit stage prefix in a reference is 0-3, 10 or 12; the consumer is in stage 0-3",
    "file paths have non-empty segments containing a letter or digit (no `.`/`..`/empty segments, no globs, no `:`)",
    "absolute-path references have a directory and a file part (`/dir/file:method`); a single-segment `/x:method` is "
    "not generated: compile_reference(*parse('/x:ref')) gives `//x:ref`, the same path spelled differently",
    "an application dependency written `<dir>/<Name>.<ext>` is the folder `<name>` (lowercase, no extension) as "
    "documented in FlowIR.application_dependency_to_name; names containing dots are only generated with an extension",
    "folders are never named `stage<i>.<x>` and an explicit `stage<i>.` prefix is only put in front of producer names",
    "when a known component has the same name as a folder of the package (documented as unsupported, flowir.py "
    "'we don't support that') only the classification by ParseDataReferenceFull / is_datareference_to_component / "
    "expand_component_references(known_components=None) / validate() is asserted, not the validator-internal "
    "expand_potential_component_reference(known_components=...) which lets the component win",
    "references whose producer is neither a folder nor a known component are 'unspecified' for classification "
    "(the statement does not say); they are still used for the round-trip / idempotence / spelling relations",
    "validate/package sub-checks: references with method copyout and loop-prefixed producers are declared but not "
    "placed in the command line (the argument tokeniser is C10's subject), variables expand to absolute paths",
]
TIERS = {"quick": {"shards": 8, "budget": 150}, "thorough": {"shards": 16, "budget": 2400}}

VAR = re.compile(r"%\([a-zA-Z0-9_.-]+\)s")
FOLDER_CLASSES = ("reserved", "appdep", "manifest", "abs", "var")
SIG_NESTED = "manifest-top-level-folders-nested-key"
SIG_PARTIAL = "stage-prefix-partial-match"


# ------------------------------------------------------------------------------------------------------------
# model (written from the statement and the docs, never calls the code under test)
def mtops(case):
    out = []
    for key, _ in case["manifest"]:
        top = key.split("/")[0]
        if top not in out:
            out.append(top)
    return out


def appnames(case):
    return [a["name"] for a in case["appdeps"]]


def partial_stage_prefix(name: str) -> bool:
    """`stage1x.b`: begins like a stage prefix but is not one."""
    if "." not in name:
        return False
    head = name.split(".", 1)[0]
    return re.match(r"stage[0-9]+", head) is not None and re.fullmatch(r"stage[0-9]+", head) is None


def classify(ref, case) -> str:
    first = ref["producer"]
    if first.startswith("/"):
        return "abs"
    if ref["stage"] is None:
        if first in G.RESERVED:
            return "reserved"
        if first in appnames(case):
            return "appdep"
        if first in mtops(case):
            return "manifest"
        if VAR.search(first):                # the whole segment, or any part of it, is an unresolved variable
            return "var"
        return "component" if [case["ctx"], first] in case["comps"] else "unspecified"
    return "component" if [ref["stage"], first] in case["comps"] else "unspecified"


def flags(ref, case):
    first = ref["producer"]
    out = []
    sets = {"component": [n for _, n in case["comps"]], "appdep": appnames(case), "manifest-top": mtops(case),
            "reserved": G.RESERVED}
    for label in sorted(sets):
        if first in sets[label]:
            out.append("eq-" + label)
        elif first.lower() in [x.lower() for x in sets[label]]:
            out.append("case-eq-" + label)
    if not first.startswith("/") and not VAR.search(first):
        if "." in first:
            out.append("dot")
        if "#" in first:
            out.append("loop-prefix")
        if first[-1:].isdigit():
            out.append("digit-suffix")
        if partial_stage_prefix(first):
            out.append("partial-stage-prefix")
    return out


def sig_for(base: str, ref) -> str:
    return SIG_PARTIAL if partial_stage_prefix(ref["producer"]) else base


def is_component_name(ref) -> bool:
    p = ref["producer"]
    return not p.startswith("/") and not VAR.search(p) and p not in G.RESERVED


def call(where, ref, fn, *a, **k):
    try:
        return fn(*a, **k)
    except Violation:
        raise
    except Exception as e:      # well-formed reference: the parse/print functions have no reason to raise
        raise Violation(sig_for("exception:%s:%s" % (where, type(e).__name__), ref),
                        "%s(%s) raised %r" % (where, ", ".join(map(repr, a)), e))


# ------------------------------------------------------------------------------------------------------------
def check_ref(ref, case, ctx: Ctx):
    from experiment.model.frontends.flowir import FlowIR as F
    import experiment.model.frontends.flowir as FM
    import experiment.model.graph as GR

    t = text(ref)
    c = case["ctx"]
    cls = classify(ref, case)
    fl = flags(ref, case)
    stage, producer, path, method = ref["stage"], ref["producer"], ref["path"], ref["method"]
    S = stage if stage is not None else c
    app_ids = [a["id"] for a in case["appdeps"]]
    tlf = mtops(case)
    known = {}
    for s, n in case["comps"]:
        known.setdefault(s, []).append(n)

    # (1) print / parse round trip ---------------------------------------------------------------------------
    printed = call("compile_reference", ref, F.compile_reference, producer, path, method, stage)
    if printed != t:
        raise Violation(sig_for("compile-reference-text", ref),
                        "compile_reference(%r, %r, %r, %r) = %r, expected %r" % (producer, path, method, stage, printed, t))
    parts = call("ParseDataReference", ref, F.ParseDataReference, t)
    if cls == "reserved":
        exp_ok = parts[2] == method
    else:
        head = producer if stage is None else "stage%d.%s" % (stage, producer)
        exp_ok = tuple(parts) == (head, path, method)
    if not exp_ok:
        raise Violation(sig_for("parse-parts", ref), "ParseDataReference(%r) = %r (producer reference, file, method)" % (t, parts))
    s0, j0, f0, m0 = call("ParseDataReferenceFull", ref, F.ParseDataReferenceFull, t)
    again = call("compile_reference", ref, F.compile_reference, j0, f0, m0, s0)
    if again != t:
        raise Violation(sig_for("roundtrip-parse-print", ref),
                        "%r parses to %r which prints as %r" % (t, (s0, j0, f0, m0), again))
    if cls != "reserved" and (s0, j0, f0, m0) != (stage, producer, path, method):
        raise Violation(sig_for("parse-parts", ref),
                        "ParseDataReferenceFull(%r) = %r, built from %r" % (t, (s0, j0, f0, m0), (stage, producer, path, method)))

    # (2) expansion is idempotent; an absolute spelling is a fixed point --------------------------------------
    shapes = [
        ("conf", lambda r: F.expand_component_references([r], c, None, app_ids, tlf)[0]),
        ("known", lambda r: F.expand_component_references([r], c, known, app_ids, tlf)[0]),
        ("args", lambda r: F.expand_potential_component_reference(r, c, known, None, False)),
    ]
    if is_component_name(ref) and cls in ("component", "unspecified"):
        # documented knob: "expand to absolute form regardless" - only meaningful for something that can be a component
        shapes.append(("force", lambda r: F.expand_potential_component_reference(
            r, c, known, tlf + appnames(case) + G.RESERVED, True)))
    expanded = {}
    for name, fn in shapes:
        e1 = call("expand[%s]" % name, ref, fn, t)
        e2 = call("expand[%s]" % name, ref, fn, e1)
        expanded[name] = e1
        if e1 != e2:
            raise Violation(sig_for("expand-not-idempotent", ref),
                            "[%s] %r -> %r -> %r (stage %d, known %s, folders %s)" % (name, t, e1, e2, c, known, tlf))
        if stage is not None and e1 != t:
            raise Violation(sig_for("expand-absolute-changed", ref), "[%s] absolute %r -> %r" % (name, t, e1))

    # (3) relative spelling + stage == absolute spelling ---------------------------------------------------------
    if is_component_name(ref):
        rel_t, abs_t = text(ref, None), text(ref, S)
        ident = "stage%d.%s" % (S, producer)
        want = {"identifier": ident, "producerName": producer, "stageIndex": S, "namespace": "stage%d" % S,
                "path": path, "method": method, "absoluteReference": abs_t, "relativeReference": rel_t}
        objs = [("DataReference(%r)" % abs_t, call("DataReference", ref, GR.DataReference, abs_t)),
                ("DataReference(%r, stageIndex=%d)" % (rel_t, S), call("DataReference", ref, GR.DataReference, rel_t, S)),
                ("DataReference(%r, stageIndex=%d)" % (abs_t, S + 1), call("DataReference", ref, GR.DataReference, abs_t, S + 1))]
        for label, d in objs:
            got = {"identifier": d.producerIdentifier.identifier, "producerName": d.producerName,
                   "stageIndex": d.stageIndex, "namespace": d.namespace, "path": d.path, "method": d.method,
                   "absoluteReference": d.absoluteReference, "relativeReference": d.relativeReference}
            if got != want:
                diff = {k: (got[k], want[k]) for k in want if got[k] != want[k]}
                raise Violation(sig_for("rel-abs-spelling-differ", ref), "%s: (got, expected) %s" % (label, diff))
        if not (objs[0][1] == objs[1][1] and hash(objs[0][1]) == hash(objs[1][1])):
            raise Violation(sig_for("rel-abs-spelling-differ", ref), "%s != %s" % (objs[0][0], objs[1][0]))
        for klass in (GR.ComponentIdentifier, FM.ComponentIdentifier):
            for label, ci in (("(%r, %d)" % (producer, S), call("ComponentIdentifier", ref, klass, producer, S)),
                              ("(%r)" % ident, call("ComponentIdentifier", ref, klass, ident)),
                              ("(%r, %d)" % (ident, S + 1), call("ComponentIdentifier", ref, klass, ident, S + 1))):
                got = (ci.identifier, ci.componentName, ci.stageIndex, ci.namespace, ci.relativeIdentifier)
                if got != (ident, producer, S, "stage%d" % S, producer):
                    raise Violation(sig_for("rel-abs-spelling-differ", ref),
                                    "%s%s -> %r" % (klass.__module__.split(".")[-1] + ".ComponentIdentifier", label, got))
        if "force" in expanded and expanded["force"] != abs_t:
            raise Violation(sig_for("expand-not-absolute-spelling", ref),
                            "force-expanding %r in stage %d gives %r, absolute spelling is %r" % (t, c, expanded["force"], abs_t))

    # (4) classification -----------------------------------------------------------------------------------------
    shadowed = (stage is None and cls in FOLDER_CLASSES and [c, producer] in case["comps"])
    full_ctx = call("ParseDataReferenceFull", ref, F.ParseDataReferenceFull, t, c, app_ids, tlf)
    full_none = call("ParseDataReferenceFull", ref, F.ParseDataReferenceFull, t, None, app_ids, tlf)
    is_comp = call("is_datareference_to_component", ref, F.is_datareference_to_component, t, tlf + appnames(case))
    if cls in FOLDER_CLASSES:
        why = None
        if full_ctx[0] is not None or full_none[0] is not None:
            why = "ParseDataReferenceFull(%r, index=%d|None, app-deps %s, folders %s) -> %r / %r" % (
                t, c, app_ids, tlf, full_ctx, full_none)
        elif is_comp:
            why = "is_datareference_to_component(%r, %s) is True" % (t, tlf + appnames(case))
        elif expanded["conf"] != t:
            why = "expand_component_references([%r], %d, None, %s, %s) -> %r" % (t, c, app_ids, tlf, expanded["conf"])
        elif expanded["known"] != t and not shadowed:
            why = "expand_component_references([%r], %d, %s, %s, %s) -> %r" % (t, c, known, app_ids, tlf, expanded["known"])
        if why:
            raise Violation(sig_for("folder-ref-treated-as-component:" + cls, ref),
                            "first path segment of %r is a %s folder/path but it is treated as a component: %s" % (t, cls, why))
    elif cls == "component":
        abs_t = text(ref, S)
        why = None
        if tuple(full_ctx) != (S, producer, path, method):
            why = "ParseDataReferenceFull(%r, %d, %s, %s) -> %r" % (t, c, app_ids, tlf, full_ctx)
        elif stage is not None and tuple(full_none) != (S, producer, path, method):
            why = "ParseDataReferenceFull(%r, None, ...) -> %r" % (t, full_none)
        elif not is_comp:
            why = "is_datareference_to_component(%r, %s) is False" % (t, tlf + appnames(case))
        else:
            for name in ("conf", "known", "args"):
                if expanded[name] != abs_t:
                    why = "expand[%s] %r -> %r, absolute spelling is %r" % (name, t, expanded[name], abs_t)
                    break
        if why:
            raise Violation(sig_for("component-ref-not-recognised", ref),
                            "%r references known component stage%d.%s: %s" % (t, S, producer, why))

    # coverage -----------------------------------------------------------------------------------------------------
    ctx.rec.label("class:" + cls, "spelling:" + ("absolute" if stage is not None else "relative"),
                  "method:" + method, "path-depth:%d" % (0 if path is None else path.count("/") + 1))
    ctx.rec.label(*["flag:" + f for f in fl])
    if shadowed:
        ctx.rec.label("folder-shadowed-by-component")
    if cls == "manifest":
        nested = [k for k, _ in case["manifest"] if "/" in k and k.split("/")[0] == producer]
        ctx.rec.label("manifest-ref:nested-key" if nested else "manifest-ref:plain-key")
    if fl:
        ctx.rec.nt(["ref", t, c, cls, fl], {"ref": t, "consumer_stage": c, "class": cls, "flags": fl,
                                            "components": case["comps"], "appdeps": app_ids,
                                            "manifest": [m[0] for m in case["manifest"]]}, group="parse:" + cls)


def check_manifest(case):
    """-> pending Violation or None: top_level_folders must be the left-most folder of every key."""
    from experiment.model.frontends.flowir import Manifest
    if not case["manifest"]:
        return None
    try:
        got = list(Manifest(dict((k, v) for k, v in case["manifest"])).top_level_folders)
    except Exception as e:
        return Violation("exception:Manifest:%s" % type(e).__name__, "Manifest(%s) raised %r" % (case["manifest"], e))
    want = mtops(case)
    if set(got) != set(want):
        nested = any("/" in k for k, _ in case["manifest"])
        return Violation(SIG_NESTED if nested else "manifest-top-level-folders",
                         "Manifest(%s).top_level_folders = %s, the top-level folders are %s" % (
                             dict(case["manifest"]), got, want))
    return None


def check_parse(case, ctx: Ctx):
    pending = check_manifest(case)
    for ref in case["refs"]:
        check_ref(ref, case, ctx)
    if pending is not None:
        raise pending


# ------------------------------------------------------------------------------------------------------------
# validate / package
def build_flowir(case, refs):
    comps = [{"name": n, "stage": s, "command": {"executable": "echo"}} for s, n in case["comps"]]
    texts = []
    for r in refs:
        t = text(r)
        if t not in texts:
            texts.append(t)
    in_args = [text(r) for r in refs if "#" not in r["producer"] and r["method"] != "copyout"]
    comps.append({"name": "zz-consumer", "stage": case["ctx"], "references": texts,
                  "command": {"executable": "cat", "arguments": " ".join(dict.fromkeys(in_args))}})
    used = {c["stage"] for c in comps}
    for s in range(max(used) + 1):                # stages of a workflow are contiguous from 0 (get_stage_number)
        if s not in used:
            comps.append({"name": "zz-filler", "stage": s, "command": {"executable": "echo"}})
    doc = {"components": comps}
    if case["appdeps"]:
        doc["application-dependencies"] = {"default": [a["id"] for a in case["appdeps"]]}
    if case["vars"]:
        doc["variables"] = {"default": {"global": dict(sorted(case["vars"].items()))}}
    return doc


def _reference_errors(errors):
    import experiment.model.errors as E
    return [e for e in errors if isinstance(e, (E.FlowIRReferenceToUnknownComponent, E.FlowIRUnknownReferenceInArguments))]


def _validate(case, refs, tlf):
    import experiment.model.frontends.flowir as FM
    concrete = FM.FlowIRConcrete(build_flowir(case, refs), "default", {})
    return _reference_errors(concrete.validate(top_level_folders=list(tlf)))


def specified_refs(case):
    return [r for r in case["refs"] if classify(r, case) != "unspecified"]


def attribute(case, refs, run, tlf_code):
    """Root-cause signature for a rejected well-formed consumer. run(refs, tlf) -> list of reference errors."""
    want = mtops(case)
    if set(tlf_code) != set(want) and not run(refs, want):
        return SIG_NESTED if any("/" in k for k, _ in case["manifest"]) else "manifest-top-level-folders", None
    for r in refs:
        if run([r], want):
            cls = classify(r, case)
            base = "component-ref-not-recognised" if cls == "component" else "folder-ref-treated-as-component:" + cls
            return sig_for(base, r), r
    return "valid-references-rejected", None


def check_validate(case, ctx: Ctx):
    from experiment.model.frontends.flowir import Manifest
    refs = specified_refs(case)
    if not refs:
        ctx.rec.label("validate:no-specified-ref")
        return
    tlf_code = list(Manifest(dict((k, v) for k, v in case["manifest"])).top_level_folders)
    bad = _validate(case, refs, tlf_code)
    classes = sorted({classify(r, case) for r in refs})
    ctx.rec.label(*["validate-class:" + c for c in classes])
    if bad:
        sig, r = attribute(case, refs, lambda rs, tlf: _validate(case, rs, tlf), tlf_code)
        raise Violation(sig, "consumer stage%d.zz-consumer with references %s (all folders or known components; "
                             "components %s, app-deps %s, manifest %s -> top_level_folders %s) is rejected%s: %s" % (
                                 case["ctx"], [text(x) for x in refs], case["comps"], [a["id"] for a in case["appdeps"]],
                                 dict(case["manifest"]), tlf_code, (" because of %r" % text(r)) if r else "",
                                 " | ".join(str(e)[:300] for e in bad[:2])))
    fl = sorted({f for r in refs for f in flags(r, case)})
    if fl:
        ctx.rec.nt(["validate", [text(r) for r in refs], case["ctx"], case["comps"], [m[0] for m in case["manifest"]],
                    appnames(case)],
                   {"references": [text(r) for r in refs], "consumer_stage": case["ctx"], "components": case["comps"],
                    "appdeps": [a["id"] for a in case["appdeps"]], "manifest": [m[0] for m in case["manifest"]],
                    "classes": classes, "verdict": "valid"}, group="validate")


def _load_package(case, refs, manifest, ctx: Ctx):
    """-> (package or None, reference errors, other error or None)"""
    import yaml
    import experiment.model.errors as E
    import experiment.model.storage
    d = getattr(ctx, "_c09_dir", None)
    if d is None or not os.path.isdir(d):
        d = ctx._c09_dir = ctx.mkdtemp()
    path = os.path.join(d, "wf.yaml")
    with open(path, "w") as f:
        yaml.safe_dump(build_flowir(case, refs), f, sort_keys=False)
    try:
        return experiment.model.storage.ExperimentPackage.packageFromLocation(path, manifest=manifest), [], None
    except E.ExperimentInvalidConfigurationError as e:
        under = getattr(getattr(e, "underlyingError", None), "underlyingErrors", None) or []
        bad = _reference_errors(under)
        return None, bad, (None if bad else e)


def check_package(case, ctx: Ctx):
    refs = specified_refs(case)
    if not refs:
        ctx.rec.label("package:no-specified-ref")
        return
    manifest = dict((k, v) for k, v in case["manifest"])
    pkg, bad, other = _load_package(case, refs, manifest, ctx)
    if other is not None:
        ctx.rec.label("package:other-load-error")          # not about references: outside this property
        ctx.rec.cover("package_other_errors", str(other)[-160:])
        return
    want = mtops(case)
    if bad:
        def run(rs, tlf):
            # a manifest whose keys are exactly the model's top-level folders isolates Manifest.top_level_folders
            return _load_package(case, rs, {k: "/src/dir:copy" for k in tlf}, ctx)[1]
        from experiment.model.frontends.flowir import Manifest
        sig, r = attribute(case, refs, run, list(Manifest(manifest).top_level_folders))
        raise Violation(sig, "package with manifest %s, components %s, app-deps %s and consumer references %s does not "
                             "load%s: %s" % (manifest, case["comps"], [a["id"] for a in case["appdeps"]],
                                             [text(x) for x in refs], (" because of %r" % text(r)) if r else "",
                                             " | ".join(str(e)[:300] for e in bad[:2])))
    got_tlf = list(pkg.configuration.top_level_folders)
    if set(got_tlf) != set(want):
        raise Violation(SIG_NESTED if any("/" in k for k in manifest) else "manifest-top-level-folders",
                        "package configuration top_level_folders = %s for manifest %s, expected %s" % (got_tlf, manifest, want))
    comp = pkg.configuration.get_flowir_concrete(return_copy=True).get_component((case["ctx"], "zz-consumer"))
    got_refs = list(comp.get("references", []))
    exp_refs = []
    for r in refs:
        cls = classify(r, case)
        if cls == "component":
            e = text(r, r["stage"] if r["stage"] is not None else case["ctx"])
        elif cls == "var":
            e = None                      # stays raw or is resolved, not asserted
        else:
            e = text(r)
        if e is not None and e not in exp_refs:
            exp_refs.append(e)
    missing = [e for e in exp_refs if e not in got_refs]
    if missing:
        r = [x for x in refs if classify(x, case) != "var" and
             text(x, (x["stage"] if x["stage"] is not None else case["ctx"]) if classify(x, case) == "component" else "own")
             in missing][0]
        cls = classify(r, case)
        base = "component-ref-not-recognised" if cls == "component" else "folder-ref-treated-as-component:" + cls
        raise Violation(sig_for(base, r), "after loading, references of the consumer (declared %s) are %s; expected to "
                                          "contain %s (components absolute, folders untouched)" % (
                                              [text(x) for x in refs], got_refs, missing))
    ctx.rec.label("package:loaded")
    fl = sorted({f for r in refs for f in flags(r, case)})
    if fl:
        ctx.rec.nt(["package", [text(r) for r in refs], case["ctx"], case["comps"], sorted(manifest), appnames(case)],
                   {"references": [text(r) for r in refs], "loaded_references": got_refs, "manifest": sorted(manifest),
                    "top_level_folders": got_tlf, "components": case["comps"]}, group="package")


# ------------------------------------------------------------------------------------------------------------
# ------------------------------------------------------------------------------------------------------------
# sub `implied`: the manifest implied by a directory listing (Manifest.fromDirectory - what tells a folder reference
# from a component reference when a package / instance DIRECTORY is loaded)
ENTRY_NAMES = ["data", "bin", "conf", "hooks", "lib", "Lib", "shared", "ref-data", "a.b", ".hidden", "stage0", "input",
               "x y", "0", "A"]


@st.composite
def implied_case(draw):
    names = draw(st.lists(st.sampled_from(ENTRY_NAMES), min_size=1, max_size=6, unique=True))
    kinds = ["dir", "dir", "file", "link-to-dir", "link-to-dir", "link-to-file", "dangling-link", "link-to-link-to-dir"]
    return {"entries": [[n, draw(st.sampled_from(kinds))] for n in names],
            "include_files": draw(st.booleans()), "resolve_paths": draw(st.booleans())}


def check_implied(case, ctx: Ctx):
    import shutil
    from experiment.model.frontends.flowir import Manifest
    root = ctx.mkdtemp()
    try:
        top = os.path.join(root, "pkg.package")
        ext = os.path.join(root, "elsewhere")
        os.makedirs(top)
        os.makedirs(os.path.join(ext, "a-dir"))
        with open(os.path.join(ext, "a-file"), "w") as f:
            f.write("x")
        os.symlink(os.path.join(ext, "a-dir"), os.path.join(ext, "link-to-a-dir"))
        want_dirs, want_files = [], []
        for name, kind in case["entries"]:
            p = os.path.join(top, name)
            if kind == "dir":
                os.makedirs(p)
            elif kind == "file":
                with open(p, "w") as f:
                    f.write("x")
            else:
                os.symlink(os.path.join(ext, {"link-to-dir": "a-dir", "link-to-file": "a-file",
                                              "dangling-link": "nothing-here",
                                              "link-to-link-to-dir": "link-to-a-dir"}[kind]), p)
            if kind in ("dir", "link-to-dir", "link-to-link-to-dir"):
                want_dirs.append(name)        # a folder of the package, however it got there
            elif kind in ("file", "link-to-file"):
                want_files.append(name)
        want = sorted(want_dirs + (want_files if case["include_files"] else []))
        m = Manifest.fromDirectory(top, validate=False, include_files=case["include_files"],
                                   resolve_paths=case["resolve_paths"])
        got = sorted(m.top_level_folders)
        if got != want:
            raise Violation("implied-manifest-differs-from-directory",
                            "entries %s (include_files=%s): Manifest.fromDirectory().top_level_folders = %s, the "
                            "directory holds %s" % (case["entries"], case["include_files"], got, want))
        ctx.rec.label("implied:links" if any(k.startswith("link") for _, k in case["entries"]) else "implied:plain")
        if any(k.startswith("link-to") for _, k in case["entries"]):
            ctx.rec.nt(["implied", case], {"entries": case["entries"], "top_level_folders": got}, group="implied")
    finally:
        shutil.rmtree(root, ignore_errors=True)


def shard(ctx: Ctx):
    explore(ctx, "implied", implied_case(), check_implied, ctx.n(400, 20000), batch=100)
    explore(ctx, "parse", G.world(max_refs=6), check_parse, ctx.n(50000, 3000000), batch=2500)
    explore(ctx, "validate", G.world(max_refs=5, for_validate=True), check_validate, ctx.n(6000, 300000), batch=500)
    explore(ctx, "package", G.world(max_refs=4, for_validate=True), check_package, ctx.n(2400, 100000), batch=300)


def replay(sub, case, ctx: Ctx):
    {"parse": check_parse, "validate": check_validate, "package": check_package,
     "implied": check_implied}[sub or "parse"](case, ctx)
