"""C12 — task restarts stay within the configured policy.

A one-component experiment is executed by the real Controller / ComponentState / Engine under the deterministic
kernel with a scripted backend: the case is a sequence of task exit reasons, the restart options of the component
and a scripted restart hook (served by a generated hooks/<file>.py).  The launch history is checked against the
bounds in the statement.
"""
from __future__ import annotations

import contextlib
import json
import os
import shutil

from hypothesis import strategies as st

from ..core import Chooser, Ctx, Violation, explore
from ..gen import pkg
from ..rt import driver as rtdriver
from .c02 import PatternChooser

ID = "C12"
LEVEL = "exploration"
RULE = ("case = sequence of <=25 task exit reasons x maxRestarts in {unset,-1,0,1,2,5} x restartHookFile in "
        "{unset,'',custom} (present or missing) x restartHookOn subset x scripted hook outcomes (possible, not required, "
        "not possible, failed, raises, junk, True/False, hook-not-available). Non-trivial = the history contains a "
        "refused restart after >=1 granted one, or reaches a cap, or >=2 distinct non-success reasons; distinct = "
        "distinct (options, reasons, hook script).")
ASSUMPTIONS = [
    "the history runs through the real Controller loop under FIFO or LIFO delivery of callbacks (schedules are C02's "
    "subject); tasks are scripted doubles",
    "a 'restart' is a relaunch after an exit other than SubmissionFailed, a 're-submission' a relaunch after "
    "SubmissionFailed; 'consecutive' re-submissions are counted as uninterrupted runs of failed submissions",
    "repeating components: only the bound on restart launches (task-generator calls without output files) and "
    "termination are checked (sub-check `observer`)",
]
TIERS = {"quick": {"shards": 16, "budget": 150}, "thorough": {"shards": 16, "budget": 2400}}

REASONS = ["Success", "KnownIssue", "SystemIssue", "UnknownIssue", "ResourceExhausted", "SubmissionFailed", "Killed",
           "Cancelled"]
HOOKABLE = ["KnownIssue", "SystemIssue", "UnknownIssue", "ResourceExhausted", "SubmissionFailed"]
HOOK_OUTCOMES = ["possible", "possible", "not_required", "not_possible", "failed", "raise", "junk", "true", "false",
                 "not_available", "ioerror"]

HOOK_SOURCE = '''
import json, os
_CTX = {"possible": "RestartContextRestartPossible", "not_required": "RestartContextRestartNotRequired",
        "not_possible": "RestartContextRestartNotPossible", "failed": "RestartContextHookFailed",
        "not_available": "RestartContextHookNotAvailable"}
def Restart(workingDirectory, restarts, componentName, log, exitReason, exitCode):
    p = os.path.join(os.path.dirname(os.path.abspath(__file__)), "hook_script.json")
    with open(p) as f:
        d = json.load(f)
    i = d["i"]
    d["i"] = i + 1
    d["calls"].append([restarts, exitReason])
    with open(p, "w") as f:
        json.dump(d, f)
    o = d["outcomes"][i] if i < len(d["outcomes"]) else "possible"
    if o == "raise":
        raise RuntimeError("scripted hook failure")
    if o == "ioerror":
        raise IOError("scripted io error")
    if o == "junk":
        return 42
    if o == "true":
        return True
    if o == "false":
        return False
    return _CTX[o]
'''


@st.composite
def cases(draw):
    n = draw(st.integers(1, 25))
    weights = draw(st.sampled_from(["mixed", "restartable", "submission"]))
    pool = {"mixed": REASONS + ["ResourceExhausted"] * 3 + ["SubmissionFailed"] * 2,
            "restartable": ["ResourceExhausted"] * 6 + ["KnownIssue", "SubmissionFailed", "Success"],
            "submission": ["SubmissionFailed"] * 6 + ["ResourceExhausted", "Success"]}[weights]
    reasons = [draw(st.sampled_from(pool)) for _ in range(n)]
    hook_file = draw(st.sampled_from([None, None, "", "custom.py"]))
    hook_present = draw(st.booleans())
    restart_on = draw(st.one_of(st.none(), st.lists(st.sampled_from(HOOKABLE), max_size=4, unique=True)))
    return {
        "reasons": reasons,
        "maxRestarts": draw(st.sampled_from([None, None, -1, 0, 1, 2, 5])),
        "restartHookFile": hook_file,
        "hookPresent": hook_present,
        "restartHookOn": restart_on,
        "shutdownOn": draw(st.lists(st.sampled_from(HOOKABLE), max_size=2, unique=True)),
        "hook": [draw(st.sampled_from(HOOK_OUTCOMES)) for _ in range(draw(st.integers(0, 8)))],
        "sched": draw(st.sampled_from(["fifo", "fifo", "lifo"])),
        # a failed submission is raised by the task generator (local/simulator backends) or reported by an accepted
        # task as its exit reason (LSF / Kubernetes backends)
        "subfail_as_exit": draw(st.booleans()),
        # the process-wide tracker of system errors (monitor.MonitorExceptionTracker) holds a recent system error when
        # the task exits: the controller then waits for stability before it asks for the restart (the policy is the same)
        "unstable": draw(st.sampled_from([None, None, None, "recovers", "persists"])),
    }


def flowir_for(case):
    wa = {}
    if case["maxRestarts"] is not None:
        wa["maxRestarts"] = case["maxRestarts"]
    if case["restartHookFile"] is not None:
        wa["restartHookFile"] = case["restartHookFile"]
    if case["restartHookOn"] is not None:
        wa["restartHookOn"] = list(case["restartHookOn"])
    if case["shutdownOn"]:
        wa["shutdownOn"] = list(case["shutdownOn"])
    comp = {"name": "Main", "stage": 0, "command": {"executable": "echo", "arguments": "run"}}
    if wa:
        comp["workflowAttributes"] = wa
    return {"components": [comp]}


def limit_of(case):
    """Maximum number of restarts the statement allows (None = unlimited)."""
    m = case["maxRestarts"]
    if m is None:
        return None if case["restartHookFile"] else 3
    if m == -1:
        return None
    return m


@contextlib.contextmanager
def _system_errors(mode):
    """Puts the process-wide MonitorExceptionTracker on the virtual clock; with a mode, files one system error in it
    (dated at the start of the run: the system looks stable again once the controller has waited; or dated a day
    ahead: it never does)."""
    import datetime as _dt
    import experiment.runtime.monitor as monitor
    import experiment.runtime.errors
    from ..rt import kernel
    saved = (monitor.datetime, monitor.MonitorExceptionTracker.default)
    monitor.datetime = kernel.datetime_shim()
    tracker = monitor.MonitorExceptionTracker.default = monitor.MonitorExceptionTracker()
    try:
        if mode:
            tracker.addException(experiment.runtime.errors.systemErrors[0]("scripted system error"))
            if mode == "persists":
                tracker.exceptions[-1]["date"] = tracker.exceptions[-1]["date"] + _dt.timedelta(days=1)
        yield tracker
    finally:
        monitor.datetime, monitor.MonitorExceptionTracker.default = saved


def check(case, ctx: Ctx):
    loc = ctx.mkdtemp()
    try:
        extra = {}
        if case["hookPresent"]:
            name = case["restartHookFile"] or "restart.py"
            extra["hooks/%s" % name] = HOOK_SOURCE
            extra["hooks/__init__.py"] = ""
        exp = pkg.experiment_from_flowir(flowir_for(case), loc, extra_files=extra)
        hooks_dir = os.path.join(exp.instanceDirectory.location, "hooks")
        if case["hookPresent"]:
            os.makedirs(hooks_dir, exist_ok=True)
            with open(os.path.join(hooks_dir, "hook_script.json"), "w") as f:
                json.dump({"i": 0, "outcomes": case["hook"], "calls": []}, f)
        ref = "stage0.Main"
        def late_restart(d):
            # "once a restart is refused the component receives its final state": a restart request that arrives after
            # the final state (e.g. a late duplicate notification) must not start the task again
            from ..rt.kernel import KERNEL
            comp = d.components[ref]
            before = d.backend.launches[ref]
            if comp.state not in ("finished", "failed", "component_shutdown"):
                return None
            try:
                code = comp.restart(reason="ResourceExhausted", code=1)
            except Exception as e:
                code = "raised:" + type(e).__name__
            KERNEL.drain(max_items=4000, horizon_s=15.0)
            return {"code": code, "new_launches": d.backend.launches[ref] - before, "state": comp.state}

        drv = rtdriver.Driver(exp, PatternChooser(case["sched"]), {ref: list(case["reasons"])},
                              max_decisions=40000, max_items=400000, post_run=late_restart)
        drv.backend.submission_failure_as_exit = bool(case.get("subfail_as_exit"))
        with _system_errors(case.get("unstable")):
            res = drv.run()
        hook_calls = []
        if case["hookPresent"]:
            with open(os.path.join(hooks_dir, "hook_script.json")) as f:
                hook_calls = json.load(f)["calls"]
    finally:
        shutil.rmtree(loc, ignore_errors=True)

    launches = [r for (c, n, r) in res.launch_log if c == ref]
    late = getattr(res, "post_run", None)
    if late and late["new_launches"]:
        raise Violation("restart-after-final-state", "a restart requested after the component was final started the "
                        "task again: %s; options %s" % (late, {k: case[k] for k in ("maxRestarts", "restartHookOn")}))
    if late:
        launches = launches[:len(launches) - late["new_launches"]]
    restart_on = case["restartHookOn"] if case["restartHookOn"] is not None else ["ResourceExhausted"]
    limit = limit_of(case)
    desc = "options(max=%r hookFile=%r present=%s on=%s) launches=%s hook=%s" % (
        case["maxRestarts"], case["restartHookFile"], case["hookPresent"], restart_on, launches, case["hook"])

    if res.stuck:
        raise Violation("component-never-finalised", "stage loop stuck: " + desc + " states=%s" % res.states)
    if res.aborted:
        ctx.rec.label("inconclusive:" + res.aborted)
        return
    restarts = 0
    run_resub = 0
    for i in range(1, len(launches)):
        prev = launches[i - 1]
        if prev == "Success":
            raise Violation("relaunch-after-success", desc)
        if prev in ("Killed", "Cancelled"):
            raise Violation("relaunch-after-killed-or-cancelled", desc)
        if prev == "SubmissionFailed":
            run_resub += 1
            if run_resub > 5:
                raise Violation("more-than-five-consecutive-resubmissions",
                                "%d consecutive re-submissions; %s" % (run_resub, desc))
            continue
        run_resub = 0
        if prev not in restart_on:
            raise Violation("relaunch-after-non-restartable-reason", "relaunch after %s; %s" % (prev, desc))
        restarts += 1
        if limit is not None and restarts > limit:
            raise Violation("restarts-exceed-maximum", "%d restarts > %d; %s" % (restarts, limit, desc))
    # a hook that refuses (restart not possible / not required, hook failed or raised) ends the restarts: the i-th hook
    # call belongs to the (i+1)-th restart attempt, so no more than i restarts may have happened
    REFUSES = ("not_possible", "failed", "raise", "not_required", "false")
    for i in range(len(hook_calls)):
        outcome = case["hook"][i] if i < len(case["hook"]) else "possible"
        if outcome in REFUSES:
            if restarts > i:
                raise Violation("restart-after-hook-refused",
                                "hook call %d answered %r but %d restarts happened; %s" % (i + 1, outcome, restarts, desc))
            break
    final = res.states.get(ref)
    if final not in ("finished", "failed", "component_shutdown"):
        raise Violation("no-final-state-after-refused-restart", "state %s; %s" % (final, desc))
    if launches and launches[-1] == "Success" and final != "finished":
        raise Violation("successful-task-not-finished", "state %s; %s" % (final, desc))
    if launches and launches[-1] != "Success" and final == "finished":
        raise Violation("finished-after-failed-last-task", "state %s; %s" % (final, desc))

    refused = bool(launches) and launches[-1] != "Success"
    distinct_bad = len({r for r in launches if r != "Success"})
    cap = (limit is not None and restarts == limit and refused) or run_resub == 5
    ctx.rec.label("launches=%s" % ("1" if len(launches) == 1 else "2-4" if len(launches) < 5 else "5+"),
                  "refused" if refused else "ended-success", "cap-reached" if cap else "below-cap",
                  "hook-called" if hook_calls else "hook-not-called",
                  "limit=%s" % ("unlimited" if limit is None else limit),
                  "system-errors:%s" % (case.get("unstable") or "none"))
    if (refused and restarts >= 1) or cap or distinct_bad >= 2:
        ctx.rec.nt(["c12", {k: case[k] for k in case if k != "sched"}],
                   {"options": {k: case[k] for k in ("maxRestarts", "restartHookFile", "hookPresent", "restartHookOn",
                                                     "shutdownOn")},
                    "launch_reasons": launches, "hook_outcomes": case["hook"], "hook_calls": hook_calls,
                    "final": final, "restarts": restarts})


# ----------------------------------------------------------------------------------------------------------
# repeating components: the engine is restarted (at most once, only after ResourceExhausted) when the final execution
# of the observer died of ResourceExhausted; restart launches are the task-generator calls without output files
@st.composite
def observer_cases(draw):
    n_ok = draw(st.integers(0, 2))
    tail = [draw(st.sampled_from(["ResourceExhausted", "ResourceExhausted", "KnownIssue", "Success"]))
            for _ in range(draw(st.integers(1, 5)))]
    restart_script = [draw(st.sampled_from(["SubmissionFailed", "SubmissionFailed", "ResourceExhausted", "Success",
                                            "KnownIssue"])) for _ in range(draw(st.integers(0, 6)))]
    return {"ok": n_ok, "tail": tail, "restart_script": restart_script,
            "retries": draw(st.sampled_from([0, 1, 3])),
            "maxRestarts": draw(st.sampled_from([None, None, 1, 2])),
            "subject": draw(st.sampled_from([["Success"], ["Success"], ["KnownIssue"]])),
            "sched": draw(st.sampled_from(["fifo", "fifo", "lifo"]))}


class _ObserverBackend(rtdriver.ScriptedBackend):
    """Periodic executions of the observer follow `ok`+`tail`, restart launches follow `restart_script`."""

    def __init__(self, case):
        super().__init__({})
        self.case = case
        self.n_repeat = 0
        self.n_restart = 0

    def __call__(self, job, outputFile=None, errorFile=None, **kw):
        ref = job.reference
        if ref == "stage0.Obs":
            if outputFile is not None:
                seq = ["Success"] * self.case["ok"] + list(self.case["tail"])
                reason = seq[self.n_repeat] if self.n_repeat < len(seq) else seq[-1]
                self.n_repeat += 1
            else:
                seq = self.case["restart_script"]
                reason = seq[self.n_restart] if self.n_restart < len(seq) else "SubmissionFailed"
                self.n_restart += 1
            self.script = {ref: [None] * self.launches[ref] + [reason]}
        else:
            self.script.setdefault(ref, list(self.case["subject"]))
        return super().__call__(job, outputFile=outputFile, errorFile=errorFile, **kw)


def check_observer(case, ctx: Ctx):
    loc = ctx.mkdtemp()
    try:
        wa = {"repeatInterval": 5, "repeatRetries": case["retries"]}
        if case["maxRestarts"] is not None:
            wa["maxRestarts"] = case["maxRestarts"]
        fl = {"components": [
            {"name": "Sub", "stage": 0, "command": {"executable": "echo", "arguments": "s"}},
            {"name": "Obs", "stage": 0, "command": {"executable": "echo", "arguments": "Sub:ref"},
             "references": ["Sub:ref"], "workflowAttributes": wa}]}
        exp = pkg.experiment_from_flowir(fl, loc)
        drv = rtdriver.Driver(exp, PatternChooser(case["sched"]), {}, max_decisions=12000, max_items=120000)
        drv.backend = _ObserverBackend(case)
        res = drv.run()
    finally:
        shutil.rmtree(loc, ignore_errors=True)
    obs = [(r, k) for (c, n, r), k in zip(res.launch_log, res.launch_kinds) if c == "stage0.Obs"]
    restarts = [r for r, k in obs if k == "plain"]
    limit = case["maxRestarts"] if case["maxRestarts"] is not None else 3
    desc = "case=%s observer launches=%s states=%s aborted=%s" % (case, obs, res.states, res.aborted)
    if len(restarts) > limit:
        raise Violation("repeating-restarts-exceed-maximum", "%d restart launches > %d; %s" % (len(restarts), limit, desc))
    if res.stuck:
        raise Violation("repeating-component-never-finalised", desc)
    if res.aborted:
        ctx.rec.label("observer:inconclusive:" + res.aborted)
        return
    ctx.rec.label("observer:restarts=%d" % len(restarts), "observer:final=%s" % res.states.get("stage0.Obs"))
    if restarts or any(r != "Success" for r, k in obs):
        ctx.rec.nt(["c12obs", {k: case[k] for k in case if k != "sched"}],
                   {"case": case, "observer_launches": obs, "final": res.states}, group="observer")


# ----------------------------------------------------------------------------------------------------------
# sub `engine`: Engine.restart()/kill() used directly (the anchor mechanism itself): a task exits, restart() is called,
# kill() arrives at a generated moment (inside or after the launch delay of the restarted run), then restart() again.
@st.composite
def engine_cases(draw):
    return {"first": draw(st.sampled_from(["ResourceExhausted", "ResourceExhausted", "SubmissionFailed", "KnownIssue"])),
            "second": draw(st.sampled_from(["Success", "ResourceExhausted", "KnownIssue"])),
            "kill_after": draw(st.sampled_from([0.0, 0.5, 2.0, 5.0, 5.9, 6.5, 8.0, 20.0])),
            "again_after": draw(st.sampled_from([1.0, 12.0, 40.0])),
            "maxRestarts": draw(st.sampled_from([None, None, 1, 5])),
            "backend": draw(st.sampled_from(["local", "local", "simulator"])),
            "sched": draw(st.sampled_from(["fifo", "fifo", "lifo"]))}


def check_engine(case, ctx: Ctx):
    import datetime as _dt
    import experiment.model.codes as codes
    import experiment.runtime.backends as backends
    import experiment.runtime.workflow as workflow
    from ..rt import kernel as K
    KERNEL = K.KERNEL
    loc = ctx.mkdtemp()
    K.new_case()
    saved = dict(backends.backendGeneratorMap)
    launches = []
    try:
        wa = {}
        if case["maxRestarts"] is not None:
            wa["maxRestarts"] = case["maxRestarts"]
        comp = {"name": "Comp", "stage": 0, "command": {"executable": "echo", "arguments": "x"}}
        if wa:
            comp["workflowAttributes"] = wa
        if case.get("backend", "local") != "local":
            comp["resourceManager"] = {"config": {"backend": case["backend"]}}
        exp = pkg.experiment_from_flowir({"components": [comp]}, loc)
        now = lambda: (KERNEL.clock - K.EPOCH).total_seconds()
        backend = rtdriver.ScriptedBackend({"stage0.Comp": [case["first"], case["second"]]},
                                           lambda ref, job, n, reason: launches.append((n, reason, now())))
        backend.submission_failure_as_exit = True
        for k_ in list(backends.backendGeneratorMap):
            backends.backendGeneratorMap[k_] = backend
        job = exp._stages[0].jobWithName("Comp")
        cs = workflow.ComponentState(job, exp.experimentGraph, create_engine=True)
        eng = cs.engine
        chooser = PatternChooser(case["sched"])

        def pump(seconds):
            end = KERNEL.clock + _dt.timedelta(seconds=seconds)
            for _ in range(400):
                if KERNEL.clock >= end:
                    break
                KERNEL.drain(max_items=4000, horizon_s=max((end - KERNEL.clock).total_seconds(), 0.0), chooser=chooser)
                nd = KERNEL.next_due()
                if nd is None or nd > end:
                    KERNEL.advance_to(end)
            KERNEL.drain(max_items=4000, horizon_s=0.0, chooser=chooser)

        eng.run()
        pump(30.0)
        if eng.isAlive() or len(launches) != 1:
            ctx.rec.label("engine:inconclusive:first-task-did-not-end")
            return
        first_reason = eng.exitReason()
        code = eng.restart()
        desc = "case=%s first exit=%s restart code=%s" % (case, first_reason, code)
        restart_on = job.workflowAttributes.get("restartHookOn") or []
        if code == codes.restartCodes["RestartInitiated"] and first_reason not in restart_on and \
                first_reason != "SubmissionFailed":
            raise Violation("restart-initiated-for-unlisted-reason",
                            "restart() returned RestartInitiated after exit reason %s (restartHookOn %s, backend %s); %s" % (
                                first_reason, restart_on, case.get("backend"), desc))
        if code != codes.restartCodes["RestartInitiated"]:
            ctx.rec.label("engine:first-restart:" + str(code))
            pump(20.0)
            if len(launches) != 1:
                raise Violation("launch-after-refused-restart", "restart() returned %s but a task was launched: %s; %s" % (
                    code, launches, desc))
            return
        pump(case["kill_after"])
        launched_before_kill = len(launches)
        alive_at_kill = eng.isAlive()
        t_kill = now()
        eng.kill()
        pump(40.0)
        after_kill = [l for l in launches[launched_before_kill:]]
        desc += " kill at %.1f (alive=%s) launches=%s" % (t_kill, alive_at_kill, launches)
        if eng.isAlive():
            raise Violation("engine-alive-after-kill", desc)
        if alive_at_kill and after_kill:
            raise Violation("task-launched-after-kill", desc)
        reason_after = eng.exitReason()
        killed_before_relaunch = alive_at_kill and launched_before_kill == 1
        if killed_before_relaunch and reason_after not in ("Killed", "Cancelled"):
            raise Violation("killed-engine-reports-exit-reason-of-previous-task",
                            "exit reason %s after a kill that prevented the restarted launch; %s" % (reason_after, desc))
        n = len(launches)
        try:
            code2 = eng.restart()
        except AssertionError:
            code2 = "assert"
        pump(case["again_after"] + 20.0)
        if alive_at_kill and len(launches) > n:
            raise Violation("relaunch-after-killed-or-cancelled",
                            "restart() after the kill returned %s and started the task again; %s; launches now %s" % (
                                code2, desc, launches))
        ctx.rec.label("engine:kill-%s" % ("before-relaunch" if killed_before_relaunch else
                                            "after-relaunch" if alive_at_kill else "after-death"),
                      "engine:first=" + case["first"])
        if alive_at_kill:
            ctx.rec.nt(["c12eng", case], {"case": case, "launches": launches, "exit_after_kill": reason_after,
                                          "second_restart": str(code2)}, group="engine")
    finally:
        backends.backendGeneratorMap.clear()
        backends.backendGeneratorMap.update(saved)
        shutil.rmtree(loc, ignore_errors=True)


def budget_catalogue():
    """Deterministic corner of the `policy` domain that every run executes: every spelling of the maximum (absent, -1, 0,
    1, 2, 5) x every spelling of the hook file (absent, empty, named; present on disk or not) against a task that keeps
    dying of a restartable reason, with an agreeable hook - the runs in which the budget, and nothing else, has to end
    the restarts (or, where the statement says unlimited, does not)."""
    out = []
    for max_restarts in (None, -1, 0, 1, 2, 5):
        for hook_file in (None, "", "custom.py"):
            for present in (False, True):
                for tail in ("Success", "KnownIssue"):
                    out.append({"reasons": ["ResourceExhausted"] * 9 + [tail], "maxRestarts": max_restarts,
                                "restartHookFile": hook_file, "hookPresent": present, "restartHookOn": None,
                                "shutdownOn": [], "hook": ["possible"] * 8, "sched": "fifo", "subfail_as_exit": False,
                                "unstable": None})
    return out


def shard(ctx: Ctx):
    for idx, case in enumerate(budget_catalogue()):
        if idx % ctx.nshards != ctx.shard or ctx.stop:
            continue
        ctx.rec.evaluations += 1
        try:
            check(case, ctx)
        except Violation as v:
            v.case, v.sub = case, "policy"
            ctx.rec.violations.append(v.to_dict())
            ctx.stop = True
            return
    explore(ctx, "policy", cases(), check, ctx.n(960, 40000), batch=60, shrink=True)
    explore(ctx, "engine", engine_cases(), check_engine, ctx.n(240, 8000), batch=30)
    explore(ctx, "observer", observer_cases(), check_observer, ctx.n(320, 12000), batch=20, shrink=True)


def replay(sub, case, ctx: Ctx):
    {"policy": check, "observer": check_observer, "engine": check_engine}[sub or "policy"](case, ctx)
