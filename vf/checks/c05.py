"""C05 — DoWhile unrolling is wired correctly for any number of iterations.

sub `unroll`  : a generated DoWhile workflow (vf/gen/c05_docs.py) is loaded into a real Experiment instance; then, the way
                Controller._instantiate_next_dowhile_iteration does it, `instantiate_dowhile_next_iteration(doc, k+1, True)`
                is called k times (working directory + Job created for every new node); optionally the instance is loaded
                again from disk at some iteration (a restart) and unrolled further. After *every* step the real
                WorkflowGraph is compared with the reference model (vf/model/c05_dowhile.py): node set, inputs /
                predecessors / arguments of every looped instance, placeholder metadata (`represents`, `latest`), DoWhile
                state, and the value of DataReference.resolve() for every reference that consumers outside the loop hold
                on looped components (:ref/:copy paths, :output contents, :loopref / :loopoutput lists).
sub `twoloops`: two DoWhile documents (different ones, or the same document imported twice) in one workflow, iterated in a
                generated interleaving; optionally a restart from the stage of the second loop once the first is over.
                Same oracles, per loop.
sub `latestfn`: the pure helper flowir.map_placeholder_id_to_iteration over generated sets of component ids.

A failure whose signature is a known (excluded) finding does not end the case: the remaining oracles and steps are still
evaluated (collect-then-classify), so the search keeps exploring behind known defects.
"""
from __future__ import annotations

import json
import os
import shutil

import yaml
from hypothesis import strategies as st

from ..core import Ctx, Violation, explore
from ..gen import c05_docs, pkg
from ..model.c05_dowhile import Model

ID = "C05"
LEVEL = "exploration"
RULE = ("DoWhile workflows built by construction: import stage 0-2, 1-4 looped components over <=2 loop stages (optionally "
        "the same name in both), 0-2 inputBindings (ref/output/copy, file given by binding or by use), loopBindings onto "
        "non-replicated looped components (relative/absolute spelling, offset stage), replicate 1-3 with propagation and "
        "aggregation inside the loop, condition on stdout or a file, 1-2 outside consumers using ref/output/copy/loopref/"
        "loopoutput (replicated or aggregating when the target is replicated); k drawn in 0..13 (quick, biased to 12-13) "
        "/ 0..25 (thorough), optional reload of the instance at a drawn iteration; two-loop workflows with interleaved "
        "iteration orders (per loop up to 12 / 20) and optional restart after the first loop; all oracles evaluated after "
        "every step; plus two fixed workflows modelled on tests/test_dowhile.py that are always unrolled to k=13 / 25 with "
        "a reload at 11 / 17 (so k >= 12 is reached in every run). Non-trivial = iteration >= 10 reached, or import stage > 0 together with a loopBinding, or (two "
        "loops) both loops at different iteration counts; distinct = distinct (workflow shape, history).")
ASSUMPTIONS = [
    "sub `controller`: documents in which a component outside the loop sits in a stage before the loop's last stage are "
    "skipped (it would depend on a later stage; found as FinalStageNoFinishedLeafComponents by thorough seed 11 and "
    "classified as outside the domain, not as a defect)",
    "iterations are instantiated the way Controller._instantiate_next_dowhile_iteration does it (document taken from "
    "get_document_metadata, next number = current iteration + 1, store_flowir_to_disk=True, working directory and "
    "Job created for each new node); the controller/engines themselves are not run",
    "a restart is modelled as: load the instance directory again (Experiment(instance_dir, is_instance=True)) and, for "
    "a restart from stage N>0, mark the placeholders of stages < N as finished exactly like Controller.initialise does "
    "(control.py 'Mark all placeholders in stages [0, starting_index) as finished')",
    "component names are letters only and pairwise non-overlapping; references occur once per component (name "
    "confusion in reference rewriting belongs to other properties); consumers outside the loop spell references to "
    "looped components absolutely (the package validator rejects the relative spelling)",
    "the producer of a loopBinding and of the condition is a non-replicated (plain or aggregating) component: "
    "instantiate_dowhile_next_iteration rejects a replicated loopBinding producer with "
    "FlowIRReferenceToUnknownComponent (no document says it is supported); no :loopref/:loopoutput between looped "
    "components; components with the same name in two loop stages only in workflows without replication",
    "an exception raised by instantiate_dowhile_next_iteration (or by reloading the instance) for a document that "
    "loaded and validated as iteration 0 is reported as a violation (the statement quantifies over every k)",
    "two DoWhile documents in one workflow occupy disjoint stage ranges (component ids stay unique)",
    "map_placeholder_id_to_iteration is called with ids in which the placeholder's name occurs in one stage only",
    "expected paths use the documented instance layout <instance>/stages/stage<N>/<component name>",
]
# one root cause, one signature: the observed value is exactly what comparing iteration numbers as *strings* yields
SIG_STRSORT = "iteration-numbers-ordered-as-strings"
# the state of a loop is computed from a same-named component of another loop stage / another DoWhile document
SIG_NAMESAKE = "loop-state-from-namesake-component"
# the instances of placeholders that are already marked finished are not matched any more -> next iteration is refused
SIG_FINISHED = "finished-placeholder-instances-unmatched"
TIERS = {"quick": {"shards": 8, "budget": 300}, "thorough": {"shards": 16, "budget": 2400}}


# ------------------------------------------------------------------------------------------------------------
def _shape_key(case):
    c = dict(case)
    c.pop("k", None)
    return c


def _labels(case, m: Model):
    loop = case["loop"]
    names = [c["name"] for c in loop]
    ls = ["S=%d" % case["S"], "nloop=%d" % len(loop),
          "loopstages=%d" % (1 + max(c["ls"] for c in loop)),
          "binds=%d" % len(case["binds"]),
          "loopbinds=%d" % sum(1 for b in case["binds"] if b["loop"])]
    if any(b["loop"] and loop[b["loop"]["to"]]["ls"] > 0 for b in case["binds"]):
        ls.append("loopbind-to-stage1")
    if any(b["loop"] and case["S"] > 0 for b in case["binds"]):
        ls.append("loopbind+offset")
    if m.nrep:
        ls.append("replicated")
    if any(c.get("aggregate") for c in loop):
        ls.append("aggregate-in-loop")
    if any(b["loop"] and loop[b["loop"]["to"]].get("aggregate") for b in case["binds"]):
        ls.append("loopbind-from-aggregator")
    if any(b["loop"] and any(m.reps[j] for j in range(len(loop)) if any(u.get("b") == bi for u in loop[j]["uses"]))
           for bi, b in enumerate(case["binds"])):
        ls.append("loopbind-into-replicated")
    if len(set(names)) < len(names):
        ls.append("same-name-two-stages")
    ls.append("cond-file" if case["cond"]["file"] else "cond-stdout")
    for c in case["cons"]:
        for u in c["uses"]:
            ls.append("consumer:" + u["method"])
        if c.get("aggregate"):
            ls.append("consumer-aggregates")
        elif len(m.consumer_replicas(c)) > 1 or m.consumer_replicas(c) != [None]:
            ls.append("consumer-replicated")
    return ls


class _Loop:
    def __init__(self, case):
        self.case = case
        self.m = Model(case)
        self.dw_name = "stage%d.%s" % (case["S"], c05_docs.import_name(case))
        self.k = 0


class _Run:
    """One real experiment instance (with one or more DoWhile documents) + the models, checked after every step."""

    def __init__(self, cases, ctx: Ctx):
        import experiment.model.frontends.flowir as F
        import experiment.model.graph as G
        self.F, self.G = F, G
        self.ctx = ctx
        self.loops = [_Loop(c) for c in cases]
        self.loc = ctx.mkdtemp()
        main, docs = c05_docs.render_many(cases)
        self.exp = pkg.experiment_from_flowir(
            main, self.loc, extra_files={"conf/" + name: yaml.safe_dump(doc) for name, doc in docs.items()})
        self.wg = self.exp.experimentGraph
        self.root = self.exp.instanceDirectory.location
        self._payload_done = set()
        self.restarted_at = None

    def close(self):
        shutil.rmtree(self.loc, ignore_errors=True)

    def fail(self, sig, message):
        """Collect-then-classify: a failure whose signature is an (excluded) known finding is counted and the remaining
        oracles are still evaluated, so that what lies behind a known defect keeps being explored."""
        if sig in self.ctx.excluded:
            self.ctx.rec.excluded[sig] += 1
            return
        raise Violation(sig, message)

    # -- driving (mirrors Controller._instantiate_next_dowhile_iteration) ---------------------------------------
    def next_iteration(self, which=0):
        import experiment.model.data
        lp = self.loops[which]
        dw_node = self.wg.get_document_metadata(self.F.FlowIR.LabelDoWhile, lp.dw_name)
        # the controller uses state.currentIteration+1; check() has just established that this is lp.k+1
        nxt = lp.k + 1
        try:
            new = self.wg.instantiate_dowhile_next_iteration(dw_node["document"], nxt, True)
            for reference in new:
                spec = self.wg.graph.nodes[reference]["componentSpecification"]
                cid = spec.identification
                directory = self.exp.instanceDirectory.createJobWorkingDirectory(cid.stageIndex, cid.componentName)
                job = experiment.model.data.Job.jobFromConfiguration(cid, self.wg, directory)
                self.exp.getStage(cid.stageIndex).add_job(job)
        except Exception as e:
            if self.restarted_at is not None and "Failed to match some looped component ids" in str(e):
                raise Violation(SIG_FINISHED, "with the placeholders of stages < %d marked as finished, instantiating "
                                "iteration %d of %s: %s: %s" % (self.restarted_at, nxt, lp.dw_name, type(e).__name__,
                                                                str(e)[:400]))
            raise Violation("next-iteration-raised:%s" % type(e).__name__,
                            "instantiating iteration %d of %s: %s: %s" % (nxt, lp.dw_name, type(e).__name__,
                                                                           str(e)[:600]))
        lp.k += 1
        return new

    def reload(self):
        """Load the instance directory again (what a restart does): the unrolled iterations come back from the FlowIR
        that instantiate_dowhile_next_iteration(..., store_flowir_to_disk=True) stored."""
        import experiment.model.data
        import experiment.model.storage
        try:
            inst = experiment.model.storage.ExperimentInstanceDirectory(self.root)
            self.exp = experiment.model.data.Experiment(inst, is_instance=True)
        except Exception as e:
            raise Violation("reload-raised:%s" % type(e).__name__, "loading the instance after %s iteration(s): %s: %s" % (
                "+".join(str(lp.k) for lp in self.loops), type(e).__name__, " ".join(str(e).split())[:600]))
        self.wg = self.exp.experimentGraph

    def restart_at_stage(self, starting_index):
        """A restart from stage `starting_index` > 0: the instance is loaded again, then Controller.initialise marks
        the placeholders of the skipped stages (control.py: "Mark all placeholders in stages [0, starting_index) as
        finished")."""
        import experiment.model.codes
        self.reload()
        for p_ref in self.wg._placeholders:
            if self.G.ComponentIdentifier(p_ref).stageIndex < starting_index:
                self.wg._placeholders[p_ref]["state"] = experiment.model.codes.FINISHED_STATE
        self.restarted_at = starting_index

    def namesakes(self, lp):
        """[(stage, iteration)] of looped instances elsewhere in the workflow (another loop stage, another DoWhile
        document) that carry the name of `lp`'s condition component"""
        cj = lp.case["cond"]["c"]
        name = lp.m.loop[cj]["name"]
        out = []
        for other in self.loops:
            for j, comp in enumerate(other.m.loop):
                if comp["name"] == name and not (other is lp and j == cj) and not other.m.reps[j]:
                    out.extend((other.m.stage_of(j), i) for i in range(other.k + 1))
        return out

    # -- oracles -------------------------------------------------------------------------------------------------
    def check(self):
        wg = self.wg
        at = "after %s further iteration(s): " % "+".join(str(lp.k) for lp in self.loops)
        # (a) exactly the instances 0..k of every loop
        expected_nodes = set()
        for lp in self.loops:
            expected_nodes |= set(lp.m.instances(lp.k)) | lp.m.outer_nodes()
        actual_nodes = set(wg.graph.nodes)
        if actual_nodes != expected_nodes:
            looped_extra = sorted(n for n in actual_nodes - expected_nodes if "#" in n)
            looped_missing = sorted(n for n in expected_nodes - actual_nodes if "#" in n)
            if not (looped_extra or looped_missing):
                raise RuntimeError("harness/model: nodes outside the loop differ: missing %s unexpected %s" % (
                    sorted(expected_nodes - actual_nodes), sorted(actual_nodes - expected_nodes)))
            self.fail("instances-not-exactly-0..k", at + "graph misses %s, has unexpected %s" % (
                looped_missing, looped_extra))
            return
        concrete_ids = {"stage%d.%s" % cid for cid in wg._concrete.get_component_identifiers(False)}
        if concrete_ids != expected_nodes:
            self.fail("instances-not-exactly-0..k", at + "replicated FlowIR misses %s, has unexpected %s" % (
                sorted(expected_nodes - concrete_ids), sorted(concrete_ids - expected_nodes)))
            return
        ph_all = {}
        for lp in self.loops:
            ph_all.update(lp.m.placeholders())
        if set(wg._placeholders) != set(ph_all):
            self.fail("placeholder-set-wrong", at + "placeholders %s, expected %s" % (
                sorted(wg._placeholders), sorted(ph_all)))
            return
        self._write_payloads()
        for lp in self.loops:
            self._check_loop(lp, at)

    def _check_loop(self, lp, at):
        m, k, wg = lp.m, lp.k, self.wg
        inst = m.instances(k)
        lex = m.lexicographic_latest(k)          # the iteration a *string* comparison of iteration numbers would pick
        # (b) wiring of every looped instance
        for node in sorted(inst):
            j, i, r = inst[node]
            exp_refs, exp_preds = m.instance_inputs(j, i, r)
            spec = wg.graph.nodes[node]["componentSpecification"]
            act_refs = sorted({d.absoluteReference for d in spec.componentDataReferences})
            direct = sorted(d.absoluteReference for d in spec.inputDataReferences)
            if act_refs != exp_refs or direct:
                loop_carried = i > 0 and any("b" in u and m.binds[u["b"]]["loop"] for u in m.loop[j]["uses"])
                self.fail("loop-instance-wrong-inputs" + ("@loop-carried" if loop_carried else ""),
                          at + "%s references %s (direct %s), expected %s" % (node, act_refs, direct, exp_refs))
            act_preds = set(wg.graph.predecessors(node))
            if act_preds != exp_preds:
                self.fail("loop-instance-wrong-predecessors",
                          at + "%s has predecessors %s, expected %s" % (node, sorted(act_preds), sorted(exp_preds)))
            args = wg._concrete.get_component_configuration(
                (m.stage_of(j), m.comp_name(j, i, r)), raw=True)["command"].get("arguments", "")
            toks = sorted(set(t for t in args.split() if ":" in t))
            if toks != [x for x in exp_refs if not x.endswith(":copy")]:
                self.fail("loop-instance-wrong-arguments", at + "%s has arguments %r, expected the references %s" % (
                    node, args, exp_refs))

        # (c) placeholders
        ph = m.placeholders()
        for p in sorted(ph):
            j, r = ph[p]
            meta = wg._placeholders[p]
            exp_rep = sorted(m.node(j, i, r) for i in range(k + 1))
            if sorted(meta["represents"]) != exp_rep:
                self.fail("placeholder-represents-wrong", at + "%s represents %s, expected %s" % (
                    p, sorted(meta["represents"]), exp_rep))
            if meta["latest"] != m.node(j, k, r):
                sig = SIG_STRSORT if meta["latest"] == m.node(j, lex, r) else "latest-not-numeric-max"
                self.fail(sig, at + "placeholder %s has latest=%s, expected %s" % (p, meta["latest"], m.node(j, k, r)))

        # (d) state of the loop
        state = wg.get_document_metadata(self.F.FlowIR.LabelDoWhile, lp.dw_name)["state"]
        ns = self.namesakes(lp)
        cond = lp.case["cond"]
        cname = m.loop[cond["c"]]["name"]
        ns_conditions = {"stage%d.%d#%s%s:output" % (st_, it, cname, ("/" + cond["file"]) if cond["file"] else "")
                         for st_, it in ns}
        if state["currentIteration"] != k:
            sig = "current-iteration-wrong"
            if state["currentIteration"] == lex:
                sig = SIG_STRSORT
            elif state["currentIteration"] in {it for _, it in ns}:
                sig = SIG_NAMESAKE
            self.fail(sig, at + "%s: state.currentIteration=%r, expected %d" % (lp.dw_name, state["currentIteration"], k))
        if state["currentCondition"] != m.condition(k):
            sig = "current-condition-wrong"
            if state["currentCondition"] in ns_conditions:
                sig = SIG_NAMESAKE
            elif state["currentCondition"] == m.condition(lex):
                sig = SIG_STRSORT
            self.fail(sig, at + "%s: state.currentCondition=%r, expected %r" % (
                lp.dw_name, state["currentCondition"], m.condition(k)))

        # (e) what references from outside the loop resolve to
        by_node = {}
        for node, u, j, r in m.consumer_probes():
            by_node.setdefault(node, []).append((u, j, r))
        for node in sorted(by_node):
            spec = wg.graph.nodes[node]["componentSpecification"]
            drs = {d.absoluteReference: d for d in spec.componentDataReferences}
            exp_keys = sorted({m.probe_reference(u, j, r) for (u, j, r) in by_node[node]})
            if sorted(drs) != exp_keys:
                raise RuntimeError("harness/model: consumer %s holds %s, model says %s" % (node, sorted(drs), exp_keys))
            for u, j, r in by_node[node]:
                ref = m.probe_reference(u, j, r)
                self._check_resolution(lp, drs[ref], u, j, r, at + "%s of consumer %s" % (ref, node))
                # the same reference parsed afresh (what tools outside the graph do)
                self._check_resolution(lp, self.G.DataReference(ref), u, j, r, at + "DataReference(%r)" % ref)

    def _write_payloads(self):
        """Distinct content in the stdout / referenced files of every looped instance (what :output reads)."""
        for lp in self.loops:
            m = lp.m
            files = {None}
            for c in lp.case["cons"]:
                for u in c["uses"]:
                    files.add(u["file"])
            for node, (j, i, r) in sorted(m.instances(lp.k).items()):
                if node in self._payload_done:
                    continue
                self._payload_done.add(node)
                for f in sorted(files, key=str):
                    path = m.payload_path(self.root, j, i, r, f)
                    os.makedirs(os.path.dirname(path), exist_ok=True)
                    with open(path, "w") as fh:
                        fh.write(m.payload(m.stage_of(j), m.comp_name(j, i, r), f) + "\n")

    def _check_resolution(self, lp, dr, u, j, r, what):
        m, k = lp.m, lp.k
        try:
            got = dr.resolve(self.wg)
        except Exception as e:
            self.fail("outside-reference-does-not-resolve:%s" % type(e).__name__,
                      "%s: %s: %s" % (what, type(e).__name__, str(e)[:400]))
            return
        exp = m.expected_resolution(self.root, u, j, r, k)
        if got == exp:
            if u["method"] == "loopoutput" and k >= 1:
                self._check_incomplete_aggregate(lp, dr, u, j, r, what)
            return
        short = lambda s: s.replace(self.root, "<inst>")
        if u["method"] in ("loopref", "loopoutput"):
            if got == m.expected_resolution(self.root, u, j, r, k, order=m.lexicographic_order(k)):
                sig = SIG_STRSORT
            elif sorted(got.split(" ")) == sorted(exp.split(" ")):
                sig = "loop-aggregate-not-in-iteration-order"
            else:
                sig = "loop-aggregate-wrong-instances"
            self.fail(sig, "%s resolves to %s, expected %s" % (what, short(got), short(exp)))
            return
        others = {m.expected_resolution(self.root, u, j, r, i): i for i in range(k)}
        if got == m.expected_resolution(self.root, u, j, r, m.lexicographic_latest(k)):
            sig = SIG_STRSORT
        elif got in others:
            sig = "outside-reference-not-latest-iteration"
        else:
            sig = "outside-reference-wrong"
        self.fail(sig, "%s resolves to %s (iteration %s), expected %s" % (what, short(got), others.get(got, "?"),
                                                                         short(exp)))


def _incomplete(self, lp, dr, u, j, r, what):
    """:loopoutput lists *all* instances: while the output of one of them does not exist (the new iteration was just
    instantiated, or a file went missing) the reference cannot be resolved - a shorter list is not an answer."""
    from ..core import jhash
    m, k = lp.m, lp.k
    i = jhash([what.split(": ", 1)[-1], k]) % (k + 1)
    path = m.payload_path(self.root, j, i, r, u["file"])
    aside = path + ".aside"
    if not os.path.isfile(path):
        return
    os.rename(path, aside)
    try:
        try:
            got = dr.resolve(self.wg)
        except Exception:
            self.ctx.rec.label("loopoutput-with-missing-instance:refused")
            return
    finally:
        os.rename(aside, path)
    self.fail("loop-aggregate-lists-fewer-instances",
              "%s: with the output of iteration %d missing (of 0..%d) the reference resolves to %r instead of being "
              "refused" % (what, i, k, got.replace(self.root, "<inst>")))


_Run._check_incomplete_aggregate = _incomplete


def check_unroll(case, ctx: Ctx):
    run = _Run([case], ctx)
    try:
        m = run.loops[0].m
        lbl = _labels(case, m)
        run.check()
        if case.get("reload_at") == 0:
            run.reload()
            run.check()
        for i in range(1, case["k"] + 1):
            run.next_iteration(0)
            run.check()
            if case.get("reload_at") == i:
                run.reload()
                run.check()
        ctx.rec.label(*lbl)
        if case.get("reload_at") is not None:
            ctx.rec.label("reload@>=10" if case["reload_at"] >= 10 else "reload@<10")
        ctx.rec.label("k>=10" if case["k"] >= 10 else "k<10")
        nt = case["k"] >= 10 or (case["S"] > 0 and any(b["loop"] for b in case["binds"]))
        if nt:
            ctx.rec.count("unroll_nontrivial_histories")
            ctx.rec.nt([_shape_key(case), case["k"]],
                       {"k": case["k"], "S": case["S"], "loop": [(c["name"], c["ls"]) for c in case["loop"]],
                        "loopBindings": {b["name"]: case["loop"][b["loop"]["to"]]["name"] for b in case["binds"]
                                         if b["loop"]},
                        "labels": sorted(set(lbl)), "nodes": len(run.wg.graph.nodes)}, group="unroll")
    finally:
        run.close()


# ------------------------------------------------------------------------------------------------------------
# the same loops unrolled by the real Controller (deterministic runtime kit): the condition component's task writes
# True for the first K iterations, then False; afterwards the graph must satisfy the same oracles
def _case_files(case):
    files = set()
    for b in case["binds"]:
        files.add(b.get("sfile"))
        if b.get("loop"):
            files.add(b["loop"].get("file"))
    for comp in case["loop"]:
        for u in comp["uses"]:
            files.add(u.get("file"))
    for c in case["cons"]:
        for u in c["uses"]:
            files.add(u.get("file"))
    files.add(case["cond"].get("file"))
    return sorted(f for f in files if f)


def check_controller(case, ctx: Ctx):
    from ..rt import driver as rtdriver
    from .c02 import PatternChooser
    K = min(case["k"], 3)
    last_loop_stage = case["S"] + max(c["ls"] for c in case["loop"])
    if any(c["stage"] < last_loop_stage for c in case["cons"]):
        # an outside consumer placed in a stage before the loop's last stage depends (through the condition component)
        # on a LATER stage; the sequential stage loop cannot order that (the final stage then has no leaf component).
        # Such documents are outside this sub-check's domain; the graph-level sub-checks still cover them.
        ctx.rec.label("controller:skipped:consumer-before-last-loop-stage")
        return
    for c in list(case["cons"]) + list(case["loop"]):
        staged = [case["loop"][u["c"]]["name"] for u in c["uses"] if "c" in u and u["method"] in ("copy", "link")]
        if len(staged) != len(set(staged)):
            # two same-named producers (of different stages) copied/linked into one working directory collide on the
            # destination name - a limit of staging, not of loops (thorough seed 11, second run)
            ctx.rec.label("controller:skipped:same-named-producers-staged-into-one-directory")
            return
    run = _Run([case], ctx)
    try:
        lp = run.loops[0]
        m = lp.m
        cond_name = case["loop"][case["cond"]["c"]]["name"]
        cond_file = case["cond"].get("file") or "out.stdout"
        files = _case_files(case)

        class Backend(rtdriver.ScriptedBackend):
            def __call__(self, job, outputFile=None, errorFile=None, **kw):
                t = super().__call__(job, outputFile=outputFile, errorFile=errorFile, **kw)
                wd = job.workingDirectory.path
                for f in files:
                    path = os.path.join(wd, f)
                    os.makedirs(os.path.dirname(path), exist_ok=True)
                    if not os.path.exists(path):
                        with open(path, "w") as fh:
                            fh.write("data\n")
                name = job.componentSpecification.identification.componentName
                if "#" in name and name.split("#", 1)[1] == cond_name:
                    it = int(name.split("#", 1)[0])
                    with open(os.path.join(wd, cond_file), "w") as fh:
                        fh.write("True\n" if it < K else "False\n")
                return t

        from ..core import jhash
        order = []
        mode = jhash(["c05-controller", case]) % 3
        # mode 1: whenever a condition instance reports that it finished, a scheduler pass of the stage loop wins the
        # controller's lock first; mode 2: the controller learns about the first condition instance one pass late
        is_cond = lambda ref: "#" in ref and ref.split("#", 1)[1] == cond_name
        cond_stage = case["S"] + case["loop"][case["cond"]["c"]]["ls"]
        drv = rtdriver.Driver(run.exp, PatternChooser("fifo"), {}, max_decisions=60000, max_items=400000,
                              on_component_run=lambda d, ref, cs: order.append(ref),
                              pass_at_lock=is_cond if mode == 1 else None,
                              delay_finished={"stage%d.0#%s" % (cond_stage, cond_name): 1} if mode == 2 else None)
        drv.backend = Backend({})
        res = drv.run()
        if res.aborted:
            if res.stuck:
                raise Violation("controller-run-of-loop-never-terminates",
                                "K=%d states=%s outcomes=%s" % (K, res.states, res.stage_outcomes))
            ctx.rec.label("controller:inconclusive:" + res.aborted)
            return
        bad = [o for o in res.stage_outcomes if o["outcome"] != "completed"]
        if bad:
            raise Violation("controller-run-of-loop-failed", "K=%d outcomes=%s launch log=%s errors=%s" % (
                K, res.stage_outcomes, res.launch_log[-12:], res.kernel_errors[:2]))
        # a component outside the loop that consumes a looped component starts only when the loop is over, i.e. after
        # the condition instance of the last iteration was started (and, being its consumer, finished)
        last_cond = "stage%d.%d#%s" % (cond_stage, K, cond_name)
        if last_cond not in order:
            raise Violation("controller-run-of-loop-incomplete", "K=%d: %s was never started; started: %s" % (
                K, last_cond, order))
        end = order.index(last_cond)
        for c in case["cons"]:
            prefix = "stage%d.%s" % (c["stage"], c["name"])
            early = [r for r in order[:end] if r == prefix or (r.startswith(prefix) and r[len(prefix):].isdigit())]
            if early:
                raise Violation("outside-consumer-started-before-loop-ended",
                                "K=%d mode=%d: %s started before %s; order of starts: %s" % (K, mode, early, last_cond, order))
        lp.k = K
        run.wg = run.exp.experimentGraph
        run.check()
        ctx.rec.label("controller:K=%d" % K, "controller:mode=%s" % ["plain", "pass-at-lock", "late-condition"][mode])
        ctx.rec.nt(["controller", _shape_key(case), K], {"K": K, "S": case["S"],
                                                          "loop": [(c["name"], c["ls"]) for c in case["loop"]],
                                                          "launches": len(res.launch_log)}, group="controller")
    finally:
        run.close()


def check_twoloops(case, ctx: Ctx):
    """Two DoWhile documents in one workflow, iterated in the interleaved order `steps`."""
    run = _Run(case["loops"], ctx)
    try:
        run.check()
        for which in case["steps"]:
            if which == 2:
                run.restart_at_stage(case["loops"][1]["S"])
            else:
                run.next_iteration(which)
            run.check()
        ks = [lp.k for lp in run.loops]
        cond_names = [lp.m.loop[lp.case["cond"]["c"]]["name"] for lp in run.loops]
        lbl = ["two:reuse-document" if case.get("reuse") else "two:different-documents",
               "two:same-condition-name" if cond_names[0] == cond_names[1] else "two:different-condition-names",
               "two:max-k>=10" if max(ks) >= 10 else "two:max-k<10",
               "two:both-iterated" if min(ks) >= 1 else "two:one-idle"]
        if 2 in case["steps"]:
            lbl.append("two:restart-after-first-loop" + ("+second-iterates" if ks[1] else ""))
        ctx.rec.label(*lbl)
        if max(ks) >= 10 or (min(ks) >= 1 and ks[0] != ks[1]):
            ctx.rec.count("twoloops_nontrivial_histories")
            ctx.rec.nt(["two", case["loops"], case["steps"]],
                       {"k": ks, "steps": "".join("AB|"[w] for w in case["steps"]), "labels": lbl,
                        "loops": [[(c["name"], lp.m.stage_of(j)) for j, c in enumerate(lp.m.loop)] for lp in run.loops]},
                       group="twoloops")
    finally:
        run.close()


# ------------------------------------------------------------------------------------------------------------
# sub `latestfn`: flowir.map_placeholder_id_to_iteration (pure)
@st.composite
def latestfn_case(draw):
    kmax = draw(st.one_of(st.integers(0, 30), st.integers(9, 120)))
    stage = draw(st.integers(0, 3))
    name = draw(st.sampled_from(["work", "acc", "gen"]))
    present = sorted(set(draw(st.lists(st.integers(0, kmax), max_size=8))) | {kmax}) if draw(st.booleans()) \
        else list(range(kmax + 1))
    other = [[draw(st.integers(0, 3)), "%d#%s" % (draw(st.integers(0, 130)), n)] for n in
             draw(st.lists(st.sampled_from(["other", "tail", "check"]), max_size=3))]
    plain = [[draw(st.integers(0, 3)), n] for n in draw(st.lists(st.sampled_from(["srcA", "repA"]), max_size=2))]
    order = draw(st.permutations(list(range(len(present) + len(other) + len(plain)))))
    return {"stage": stage, "name": name, "iterations": present, "other": other, "plain": plain, "order": list(order)}


def check_latestfn(case, ctx: Ctx):
    import experiment.model.frontends.flowir as F
    ids = [[case["stage"], "%d#%s" % (i, case["name"])] for i in case["iterations"]] + case["other"] + case["plain"]
    ids = [tuple(ids[i]) for i in case["order"]]
    got = F.map_placeholder_id_to_iteration((case["stage"], case["name"]), [], ids)
    top = max(case["iterations"])
    exp = (case["stage"], "%d#%s" % (top, case["name"]))
    ctx.rec.label("latestfn:max>=10" if top >= 10 else "latestfn:max<10")
    if top >= 10:
        ctx.rec.nt(["latestfn", case["stage"], case["name"], case["iterations"]],
                   {"placeholder": [case["stage"], case["name"]], "iterations": case["iterations"]}, group="latestfn")
    if got != exp:
        lex = max(case["iterations"], key=str)
        raise Violation(SIG_STRSORT if got == (case["stage"], "%d#%s" % (lex, case["name"]))
                        else "map-placeholder-latest-not-numeric-max",
                        "map_placeholder_id_to_iteration(%r, ids with iterations %s) -> %r, expected %r" % (
                            (case["stage"], case["name"]), case["iterations"], got, exp))


# ------------------------------------------------------------------------------------------------------------
# deterministic part: fixed workflows (modelled on tests/test_dowhile.py) always unrolled to k = 13 (quick) / 25
def _use(c, method, file=None, abs_=True):
    return {"c": c, "method": method, "file": file, "abs": abs_}


ANCHORS = [
    # dw_exp_simple: replicated `add` fed by a binding that is loop-carried from the aggregating `acc`
    {"S": 1, "outer": [{"name": "srcA", "stage": 0}],
     "binds": [{"name": "bx", "type": "output", "src": 0, "sfile": None, "loop": {"to": 1, "file": None, "abs": False}}],
     "loop": [{"name": "work", "ls": 0, "uses": [{"b": 0, "file": None}], "replicate": 2, "aggregate": False},
              {"name": "acc", "ls": 0, "uses": [_use(0, "output", None, False)], "replicate": None, "aggregate": True},
              {"name": "check", "ls": 0, "uses": [_use(1, "output", None, False)], "replicate": None, "aggregate": False}],
     "cond": {"c": 2, "file": "next.txt", "abs": False},
     "cons": [{"name": "repA", "stage": 2, "uses": [_use(0, "output"), _use(1, "loopref")], "aggregate": False},
              {"name": "repB", "stage": 2, "uses": [_use(2, "loopoutput"), _use(1, "ref", "d.txt")], "aggregate": False}]},
    # test_dowhile_loopbindings_stage_offset: loopBinding onto a component of the second loop stage, import stage 2
    {"S": 2, "outer": [{"name": "srcA", "stage": 0}, {"name": "srcB", "stage": 1}],
     "binds": [{"name": "bx", "type": "output", "src": 1, "sfile": None, "loop": {"to": 1, "file": None, "abs": True}},
               {"name": "by", "type": "ref", "src": 0, "sfile": "d.txt", "loop": None}],
     "loop": [{"name": "check", "ls": 0, "uses": [{"b": 1, "file": None}], "replicate": None, "aggregate": False},
              {"name": "work", "ls": 1, "uses": [{"b": 0, "file": None}, _use(0, "ref")], "replicate": None,
               "aggregate": False}],
     "cond": {"c": 0, "file": None, "abs": False},
     "cons": [{"name": "repA", "stage": 3, "uses": [_use(1, "loopref", "d.txt"), _use(0, "output", "sub/e.dat")],
               "aggregate": False},
              {"name": "repB", "stage": 4, "uses": [_use(1, "ref"), _use(0, "loopoutput")], "aggregate": False}]},
]


def anchors(ctx: Ctx):
    from ..core import _is_known
    for idx, base in enumerate(ANCHORS):
        if idx % ctx.nshards != ctx.shard or ctx.stop:
            continue
        k = ctx.pick(13, 25)
        case = dict(json.loads(json.dumps(base)), k=k, reload_at=ctx.pick(11, 17))
        for _attempt in range(8):
            ctx.rec.evaluations += 1
            try:
                check_unroll(case, ctx)
                ctx.rec.label("anchor")
                break
            except Violation as v:
                v.case, v.sub = case, "unroll"
                if v.sig in ctx.excluded:
                    ctx.rec.excluded[v.sig] += 1
                    break
                if _is_known(ctx, v.sig):
                    ctx.rec.known[v.sig] = v.to_dict()
                    ctx.excluded.add(v.sig)
                    continue
                ctx.rec.violations.append(v.to_dict())
                ctx.stop = True
                return


def shard(ctx: Ctx):
    kmax = ctx.pick(13, 25)
    explore(ctx, "unroll", c05_docs.dowhile_case(kmax=kmax, kmin_bias=12), check_unroll, ctx.n(240, 5000),
            batch=ctx.pick(20, 100))
    explore(ctx, "twoloops", c05_docs.two_loops_case(kmax=ctx.pick(12, 20), total=ctx.pick(16, 30)), check_twoloops,
            ctx.n(64, 1500), batch=ctx.pick(8, 50))
    explore(ctx, "latestfn", latestfn_case(), check_latestfn, ctx.n(2000, 100000), batch=1000)
    explore(ctx, "controller", c05_docs.dowhile_case(kmax=3, kmin_bias=2, allow_reload=False), check_controller,
            ctx.n(96, 3000), batch=ctx.pick(12, 50))
    anchors(ctx)


def replay(sub, case, ctx: Ctx):
    {"unroll": check_unroll, "twoloops": check_twoloops, "latestfn": check_latestfn,
     "controller": check_controller}[sub or "unroll"](case, ctx)
