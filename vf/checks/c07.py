"""C07 — an instance reloaded from its own files is the same experiment.

sub `roundtrip`: a generated package (platforms default/P[/Q], variables at global / stage / component scope on both
platforms referenced from arguments and typed options, blueprints, platform overrides, replication / aggregation,
0-2 user variable files, optionally a DoWhile document) is instantiated with the real
`Experiment.experimentFromPackage`; then a generated history runs on the live experiment:
   patch  : WorkflowGraph.setOptionForNode(node, option, value)
   iter   : WorkflowGraph.instantiate_dowhile_next_iteration(document, current+1, store) (what the controller calls)
   cycle  : snapshot the writer -> store_unreplicated_flowir_to_disk() -> Experiment.experimentFromInstance(dir,
            platform=<the platform of the instance>, updateInstanceConfiguration=<drawn>) -> store again -> snapshot the
            loaded experiment; the history continues on the *loaded* experiment (1-3 cycles).
Oracle (round trip, named in the design): writer and loaded experiment have the same node set, the same edges, for
every node the same parsed data references and the same `configurationForNode(raw=False)` (value *and* type, reported
per key path), the same DoWhile iteration state; and conf/flowir_instance.yaml describes the same document after
load+store as before (byte identity is recorded; a pure re-ordering of mapping keys / of the component list is not a
change of the description).
"""
from __future__ import annotations

import os
import re
import shutil

import yaml
from hypothesis import strategies as st

from ..core import Ctx, Violation, explore
from ..gen import c07_pkg as G

ID = "C07"
LEVEL = "exploration"
RULE = ("one evaluation = one generated package + history (create -> patches / loop iterations -> 1-3 store/load "
        "cycles, continuing on the loaded experiment). Non-trivial = the instance is created for platform P, or user "
        "variable files are supplied, or at least one loop iteration is instantiated before a reload; and at least one "
        "store/load cycle completed with all comparisons made. distinct = distinct (package, user variables, platform, "
        "history) values.")
ASSUMPTIONS = [
    "the instance is reloaded for the platform it was created for (elaunch remembers it in elaunch.yaml and passes it "
    "to Experiment on restart); reloading for another platform is outside the statement",
    "'the stored description does not change' is judged on the parsed YAML document with mapping-key order and the "
    "order of the component list ignored (the writer iterates over a set of component ids); byte identity is recorded "
    "as a label only",
    "fields of an Experiment that are not named by the statement are not compared (paths, instance names, run ids, "
    "environments, Job objects)",
    "a user variable only re-defines a variable that the package defines (packages are validated without user "
    "variables before the instance is created); several user variable files define disjoint names",
    "histories contain no setOptionForNode patches: run-time patches live in the replicated in-memory description "
    "only and are by design not part of the stored (unreplicated) description (the repository's own "
    "test_graph_instantiate_next_iter asserts this), so demanding their persistence would over-reach the statement",
    "only components that the (unreplicated) instance description can express are patched: a replica has no entry of "
    "its own in it",
    "the spelling of a reference (relative 'A:ref' / absolute 'stage0.A:ref') is not part of the configuration: the "
    "`references` list is compared after making every entry absolute (after a loop iteration the live experiment "
    "shows the package spelling again, a reloaded one the absolute spelling)",
    "edges from the condition component of an *earlier* loop iteration to a consumer of a loop placeholder are not "
    "compared: the live graph keeps them from before the iteration was added, a graph built from the stored "
    "description only waits for the current condition; they are not data references (label "
    "edges:stale-condition-edges-of-writer-not-restored counts the cases)",
    "packages that the repository rejects at creation are discarded (counted under label rejected:*); typed options "
    "given as %(var)s are generated on components and (walltime) in blueprints, not in platform overrides; ':copy' / ':link' references are declared but not used on the command line (the repository "
    "only allows :ref / :output there); no ':copy' from a producer of the same stage",
]
# (a fifth of the packages without a loop are a single FlowIR file whose folders an explicit manifest copies / links
#  into the instance: the reloaded experiment only has the directory listing to tell folders from components)
TIERS = {"quick": {"shards": 8, "budget": 150}, "thorough": {"shards": 16, "budget": 1500}}

PATCH_KEYS = {"args": "#command.arguments", "var": G.POOL[0], "newvar": "pvar",
              "walltime": "#resourceManager.config.walltime"}


# ------------------------------------------------------------------------------------------------------------
# observation
def _typed(v):
    """JSON-able copy that keeps bool / int / float / str apart."""
    if isinstance(v, dict):
        return {str(k): _typed(x) for k, x in v.items()}
    if isinstance(v, (list, tuple)):
        return [_typed(x) for x in v]
    if isinstance(v, bool):
        return {"#bool": v}
    if isinstance(v, float):
        return {"#float": repr(v)}
    if v is None or isinstance(v, (int, str)):
        return v
    return {"#%s" % type(v).__name__: str(v)}


def _diff(a, b, path=""):
    """Key-path differences between two `_typed` values."""
    out = []
    if isinstance(a, dict) and isinstance(b, dict) and not (any(k.startswith("#") for k in a) or
                                                               any(k.startswith("#") for k in b)):
        for k in sorted(set(a) | set(b)):
            p = "%s.%s" % (path, k) if path else k
            if k not in a:
                out.append((p, "<absent>", b[k]))
            elif k not in b:
                out.append((p, a[k], "<absent>"))
            else:
                out.extend(_diff(a[k], b[k], p))
    elif a != b:
        out.append((path, a, b))
    return out


def _absolute(ref, stage):
    import experiment.model.graph as MG
    try:
        return MG.DataReference(ref, stageIndex=stage).absoluteReference
    except Exception:
        return ref


def _without_override(snap):
    out = dict(snap)
    out["conf"] = {n: ({k: v for k, v in c.items() if k != "override"} if isinstance(c, dict) else c)
                   for n, c in snap["conf"].items()}
    return out


def snapshot(exp):
    g = exp.experimentGraph
    nodes = sorted(g.graph.nodes)
    conf, refs = {}, {}
    for n in nodes:
        try:
            c = g.configurationForNode(n, raw=False)
            if isinstance(c.get("references"), list):
                # spelling (relative / absolute) is not part of a reference: compare what the strings denote
                c = dict(c)
                c["references"] = [_absolute(r, c.get("stage", 0)) for r in c["references"]]
            conf[n] = _typed(c)
        except Exception as e:          # compared like a value: both sides must fail alike
            conf[n] = {"#raises": type(e).__name__}
        spec = g.graph.nodes[n]["componentSpecification"]
        rr = []
        try:
            for kind, lst in (("input", spec.inputDataReferences), ("component", spec.componentDataReferences)):
                for r in lst:
                    prod = r.true_reference_to_component_id(g)
                    rr.append([kind, r.absoluteReference, r.producerIdentifier.identifier, r.path, r.method,
                               sorted("stage%d.%s" % p for p in prod) if prod else None])
        except Exception as e:
            rr.append(["#raises", type(e).__name__])
        refs[n] = rr
    loops = {}
    for name, meta in sorted((g._documents.get("DoWhile") or {}).items()):
        loops[name] = _typed(meta.get("state"))
    try:
        # the user's variables as the experiment reports them (what interface hooks and restart logic receive)
        uservars = _typed(g.configuration.get_user_variables())
    except Exception as e:
        uservars = {"#raises": type(e).__name__}
    return {"nodes": nodes, "edges": sorted([a, b] for a, b in g.graph.edges()), "conf": conf, "refs": refs,
            "loops": loops, "uservars": uservars}


def _canonical(text: str):
    doc = yaml.safe_load(text)
    if isinstance(doc, dict) and isinstance(doc.get("components"), list):
        doc = dict(doc)
        doc["components"] = sorted(doc["components"], key=lambda c: (c.get("stage", 0), str(c.get("name"))))
    return _typed(doc)


def _read(path):
    with open(path) as f:
        return f.read()


# ------------------------------------------------------------------------------------------------------------
def _patch_explains(patched, node, path):
    """Can a recorded patch of `node` explain a difference at key path `path` of configurationForNode()?"""
    for kind in patched.get(node, ()):
        key = PATCH_KEYS[kind]
        if not key.startswith("#"):
            return True             # a variable is visible through every text of the component that refers to it
        if path == key[1:] or path.endswith("." + key[1:]):         # the option itself, also inside override.<p>
            return True
    return False


def _stale_condition_edges(case, nodes):
    """Edges (condition component of an iteration older than the latest -> consumer outside the loop).

    A consumer of a loop placeholder is made to wait for the *current* condition of the loop. The live graph is
    updated incrementally and keeps the edges to the conditions of earlier (necessarily finished) iterations; a graph
    built from scratch has the edge to the current one only. These are not data references: not compared."""
    dw = case.get("dowhile")
    if not dw:
        return set()
    cond = dw["condition"].rsplit(":", 1)[0].split("/")[0].split(".", 1)[-1]
    inst = {}
    for n in nodes:
        m = re.fullmatch(r"stage\d+\.(\d+)#%s" % re.escape(cond), n)
        if m:
            inst[n] = int(m.group(1))
    if not inst:
        return set()
    latest = max(inst.values())
    return {(u, v) for u, k in inst.items() if k < latest for v in nodes if "#" not in v}


def compare(w, l, patched, where, case, ctx):
    if w["nodes"] != l["nodes"]:
        lost = sorted(set(w["nodes"]) - set(l["nodes"]))
        new = sorted(set(l["nodes"]) - set(w["nodes"]))
        looped = any("#" in n for n in lost + new)
        raise Violation("node-set-differs-after-reload" + (":looped" if looped else ""),
                        "%s: missing after reload %s, new after reload %s" % (where, lost, new))
    if w["edges"] != l["edges"]:
        we, le = set(map(tuple, w["edges"])), set(map(tuple, l["edges"]))
        stale = _stale_condition_edges(case, w["nodes"])
        lost, gained = (we - le) - stale, le - we
        if lost or gained:
            raise Violation("edges-differ-after-reload", "%s: lost %s gained %s" % (where, sorted(lost), sorted(gained)))
        ctx.rec.label("edges:stale-condition-edges-of-writer-not-restored")
    for n in w["nodes"]:
        if w["refs"][n] != l["refs"][n]:
            raise Violation("references-differ-after-reload",
                            "%s: node %s writer %r loaded %r" % (where, n, w["refs"][n], l["refs"][n]))
    if w["loops"] != l["loops"]:
        raise Violation("loop-state-differs-after-reload", "%s: writer %r loaded %r" % (where, w["loops"], l["loops"]))
    if w.get("uservars") != l.get("uservars"):
        raise Violation("user-variables-differ-after-reload", "%s: get_user_variables(): writer %r loaded %r" % (
            where, w.get("uservars"), l.get("uservars")))
    late = []
    for n in w["nodes"]:
        d = _diff(w["conf"][n], l["conf"][n])
        if not d:
            continue
        other = [x for x in d if not _patch_explains(patched, n, x[0])]
        if other:
            p = other[0][0]
            top = p.split(".")
            what = "variables" if top[0] == "variables" else ".".join(top[:3])
            if other[0][1] == "<absent>" or other[0][2] == "<absent>":
                what += ":key-set"
            elif isinstance(other[0][1], dict) and "#raises" in other[0][1] or \
                    isinstance(other[0][2], dict) and "#raises" in other[0][2]:
                what = "unresolvable-on-one-side"
            raise Violation("configuration-differs-after-reload:" + what,
                            "%s: node %s: %s" % (where, n, "; ".join("%s: writer %r loaded %r" % x for x in other[:6])))
        late.append((n, d))
    if late:
        n, d = late[0]
        raise Violation("patched-option-lost-on-store",
                        "%s: node %s was patched with setOptionForNode(%s) before the store; after the reload %s" % (
                            where, n, [PATCH_KEYS[k] for k in patched.get(n, ())],
                            "; ".join("%s: writer %r loaded %r" % x for x in d[:6])))


def compare_stored(before: str, after: str, where: str, ctx: Ctx):
    if before == after:
        ctx.rec.label("restore:byte-identical")
        return
    a, b = _canonical(before), _canonical(after)
    d = _diff(a, b)
    if not d:
        ctx.rec.label("restore:reordered-only")
        return
    if a.get("components") != b.get("components") and isinstance(a.get("components"), list):
        ka = [(c.get("stage"), c.get("name")) for c in a["components"]]
        kb = [(c.get("stage"), c.get("name")) for c in b["components"]]
        if ka != kb:
            raise Violation("stored-description-changes-on-restore:component-set",
                            "%s: components before %s after %s" % (where, ka, kb))
        for ca, cb in zip(a["components"], b["components"]):
            dd = _diff(ca, cb)
            if dd:
                raise Violation("stored-description-changes-on-restore:components." + dd[0][0].split(".")[0],
                                "%s: component stage%s.%s: %s" % (where, ca.get("stage"), ca.get("name"), dd[:6]))
    raise Violation("stored-description-changes-on-restore:" + ".".join(d[0][0].split(".")[:2]),
                    "%s: %s" % (where, "; ".join("%s: before %r after %r" % x for x in d[:6])))


# ------------------------------------------------------------------------------------------------------------
def _create(case, loc):
    from ..gen import pkg
    F = G.int_stage_keys(case["flowir"])
    files = dict(case.get("files") or {})
    if case.get("dowhile"):
        files["conf/dowhile.yaml"] = yaml.safe_dump(G.int_stage_keys(case["dowhile"]), sort_keys=False)
    vfiles = []
    for i, uv in enumerate(case.get("user_vars") or []):
        p = os.path.join(loc, "uservars%d.yaml" % i)
        with open(p, "w") as f:
            yaml.safe_dump(G.int_stage_keys(uv), f)
        vfiles.append(p)
    plat = case["platform"]
    if case.get("manifest"):
        # the workflow is a single FlowIR file; its folders live elsewhere and an explicit manifest copies or links
        # them into the instance
        m = case["manifest"]
        ext = os.path.join(loc, "external")
        files["%s/table.csv" % m["folder"]] = "a,b\n1,2\n"
        pkg.populate_files(ext, files)
        manifest = {}
        for top in sorted({p.split("/")[0] for p in files}):
            method = m["method"] if top == m["folder"] else "copy"
            manifest[top] = os.path.join(ext, top) + (":" + method if method else "")
        wf_path = os.path.join(loc, "workflow.yaml")
        with open(wf_path, "w") as f:
            yaml.safe_dump(F, f, sort_keys=False)
        return pkg.experiment_from_package_path(wf_path, loc, vfiles or None, None if plat == "default" else plat,
                                                manifest=manifest)
    return pkg.experiment_from_flowir(F, loc, extra_files=files, variable_files=vfiles or None,
                                      platform=None if plat == "default" else plat)


def _apply_patch(exp, op, patched, ctx: Ctx):
    _, sel, kind, val = op
    g = exp.experimentGraph
    # a replica has no entry of its own in the (unreplicated) instance description: only components that the
    # description can express are patched
    unrep = g.configuration.get_unreplicated_flowir(return_copy=False)
    expressible = {"stage%d.%s" % cid for cid in unrep.get_component_identifiers(True, False)}
    nodes = sorted(n for n in g.graph.nodes if n in expressible)
    if not nodes:
        ctx.rec.label("patch:no-unreplicated-node")
        return
    node = nodes[sel % len(nodes)]
    key = PATCH_KEYS[kind]
    if kind == "args":
        raw = g.configurationForNode(node, raw=True)["command"].get("arguments") or ""
        val = (raw + " " + val).strip()
    try:
        g.setOptionForNode(node, key, val)
    except KeyError:
        # '#a.b.c' addresses an existing section of the component's own description (documented use); absent here
        ctx.rec.label("patch:section-absent")
        return
    patched.setdefault(node, []).append(kind)
    ctx.rec.label("patch:" + kind)


def _iterate(exp, op, patched, ctx: Ctx):
    g = exp.experimentGraph
    docs = g._documents.get("DoWhile") or {}
    if not docs:
        raise RuntimeError("harness: history has a loop iteration but the experiment has no DoWhile document")
    name = sorted(docs)[0]
    meta = docs[name]
    nxt = meta["state"]["currentIteration"] + 1
    new = g.instantiate_dowhile_next_iteration(meta["document"], nxt, bool(op[1]))
    # the replicated description is rebuilt from the unreplicated one: live patches do not survive an iteration
    patched.clear()
    ctx.rec.label("iter:stored" if op[1] else "iter:not-stored")
    return nxt, new


def run_case(case, ctx: Ctx, loc: str):
    import experiment.model.data as D
    import experiment.model.errors as E
    try:
        exp = _create(case, loc)
    except Exception as e:
        # the statement is about instances that exist; whatever makes the repository refuse to create one (also
        # defects that belong to other properties, e.g. reference substitution with confusable names) is not judged here
        if not (isinstance(e, E.FlowException) or type(e).__module__.startswith("experiment.")):
            raise
        ctx.rec.label("rejected:" + type(e).__name__)
        ctx.rec.extra.setdefault("rejected_examples", [])
        if len(ctx.rec.extra["rejected_examples"]) < 3:
            ctx.rec.extra["rejected_examples"].append(str(e)[-400:])
        return False
    plat = case["platform"]
    inst = exp.instanceDirectory.location
    path = os.path.join(inst, "conf", "flowir_instance.yaml")
    patched = {}
    cycles = 0
    iterations = 0
    for op in case["history"]:
        if op[0] == "patch":
            _apply_patch(exp, op, patched, ctx)
        elif op[0] == "iter":
            _iterate(exp, op, patched, ctx)
            iterations += 1
        elif op[0] == "cycle":
            cycles += 1
            where = "cycle %d (after %d loop iteration(s))" % (cycles, iterations)
            ctx.rec.label("load:updates-instance-files" if op[1] else "load:read-only")
            w = snapshot(exp)
            if len(op) < 3 or op[2]:
                exp.experimentGraph.configuration.store_unreplicated_flowir_to_disk()
            else:
                # rely on the store that instantiate_dowhile_next_iteration(..., store=True) performed itself (this is
                # what a running controller does: nobody stores explicitly before the next restart)
                ctx.rec.label("load:after-implicit-store-only")
            before = _read(path)
            try:
                loaded = D.Experiment.experimentFromInstance(inst, platform=None if plat == "default" else plat,
                                                             updateInstanceConfiguration=bool(op[1]))
            except Exception as e:
                raise Violation("own-instance-does-not-load:" + type(e).__name__,
                                "%s: experimentFromInstance raised %s: %s" % (where, type(e).__name__, str(e)[-600:]))
            after_load = _read(path)
            l = snapshot(loaded)
            compare(w, l, patched, where, case, ctx)
            compare_stored(before, after_load, where + (", file rewritten by the load" if op[1] else
                                                        ", file after a load that must not update it"), ctx)
            if plat != "default":
                # tools such as einspect load an instance directory without naming a platform: the stored description
                # must carry the selected platform's settings by itself (read-only load, files untouched)
                try:
                    anon = D.Experiment.experimentFromInstance(inst, platform=None, updateInstanceConfiguration=False)
                except Exception as e:
                    raise Violation("own-instance-does-not-load-without-platform:" + type(e).__name__,
                                    "%s: experimentFromInstance(platform=None) raised %s: %s" % (
                                        where, type(e).__name__, str(e)[-600:]))
                # the unapplied `override` blocks themselves are bookkeeping, not resolved configuration: a load for
                # another platform keeps or drops them, what counts is every resolved option and variable
                compare(_without_override(w), _without_override(snapshot(anon)), patched,
                        where + " [reloaded without naming the platform]", case, ctx)
                ctx.rec.label("load:without-platform")
            loaded.experimentGraph.configuration.store_unreplicated_flowir_to_disk()
            compare_stored(before, _read(path), where + ", explicit store by the loaded experiment", ctx)
            exp = loaded
            patched = {}
    return True


def check(case, ctx: Ctx):
    loc = ctx.mkdtemp()
    try:
        done = run_case(case, ctx, loc)
    finally:
        shutil.rmtree(loc, ignore_errors=True)
    if not done:
        return
    feats = G.features(case)
    ctx.rec.label(*feats)
    ops = [h[0] for h in case["history"]]         # a history always ends with a cycle
    nontrivial = case["platform"] != "default" or bool(case["user_vars"]) or "iter" in ops
    if nontrivial:
        ctx.rec.nt(case, {"features": feats, "platform": case["platform"], "user_vars": case["user_vars"],
                          "history": case["history"],
                          "components": [("stage%s.%s" % (c.get("stage", 0), c["name"])) for c in
                                         case["flowir"]["components"]],
                          "variables": case["flowir"].get("variables"),
                          "dowhile": bool(case["dowhile"])}, group="roundtrip")


# ------------------------------------------------------------------------------------------------------------
# minimisation (Hypothesis' shrinker needs minutes at ~0.2 s per evaluation: a bounded structural ddmin instead)
def _without(d, *keys):
    return {k: v for k, v in d.items() if k not in keys}


def _refers_to(comp, name):
    pat = re.compile(r"(^|[ .])%s(/|:)" % re.escape(name))
    return any(pat.search(r) for r in comp.get("references", [])) or \
        any(pat.search(str(v)) for v in (comp.get("bindings") or {}).values())


def _candidates(case):
    import copy
    h = case["history"]
    ncyc = sum(1 for x in h if x[0] == "cycle")
    for i in range(len(h)):
        if h[i][0] != "cycle" or ncyc > 1:
            yield dict(case, history=h[:i] + h[i + 1:])
    for i in range(len(case["user_vars"])):
        yield dict(case, user_vars=case["user_vars"][:i] + case["user_vars"][i + 1:])
        uv = case["user_vars"][i]
        for scope in ("global", "stages"):
            if scope in uv and len(uv) > 1:
                yield dict(case, user_vars=case["user_vars"][:i] + [_without(uv, scope)] + case["user_vars"][i + 1:])
        for name in list(uv.get("global", {})):
            if len(uv["global"]) > 1:
                u2 = dict(uv, **{"global": _without(uv["global"], name)})
                yield dict(case, user_vars=case["user_vars"][:i] + [u2] + case["user_vars"][i + 1:])
    F = case["flowir"]
    comps = F["components"]
    if case["dowhile"]:
        names = [c["name"] for c in case["dowhile"]["components"]]
        keep = []
        for c in comps:
            if "$import" in c:
                continue
            c = copy.deepcopy(c)
            refs = [r for r in c.get("references", []) if not any(_refers_to({"references": [r]}, n) for n in names)]
            gone = set(c.get("references", [])) - set(refs)
            if gone:
                c["references"] = refs
                c["command"]["arguments"] = " ".join(t for t in c["command"]["arguments"].split() if t not in gone)
            keep.append(c)
        yield dict(case, dowhile=None, flowir=dict(F, components=keep), history=[x for x in h if x[0] != "iter"])
    if "blueprint" in F:
        yield dict(case, flowir=_without(F, "blueprint"))
    if G.OTHER in F.get("platforms", []):
        F2 = copy.deepcopy(F)
        F2["platforms"] = [p for p in F2["platforms"] if p != G.OTHER]
        for sec in ("variables", "blueprint"):
            (F2.get(sec) or {}).pop(G.OTHER, None)
        for c in F2["components"]:
            (c.get("override") or {}).pop(G.OTHER, None)
            if c.get("override") == {}:
                del c["override"]
        yield dict(case, flowir=F2)
    V = F.get("variables", {})
    for plat in list(V):
        if plat != "default":
            yield dict(case, flowir=dict(F, variables=_without(V, plat)))
        for scope in ("stages", "global"):
            if scope in V[plat] and not (plat == "default" and scope == "global"):
                yield dict(case, flowir=dict(F, variables=dict(V, **{plat: _without(V[plat], scope)})))
        for s in list(V[plat].get("stages", {})):
            for name in list(V[plat]["stages"][s]):
                if not name.startswith("nrep"):
                    V2 = copy.deepcopy(V)
                    del V2[plat]["stages"][s][name]
                    yield dict(case, flowir=dict(F, variables=V2))
        for name, val in list(V[plat].get("global", {}).items()):
            if plat != "default" and not name.startswith("nrep"):
                V2 = copy.deepcopy(V)
                del V2[plat]["global"][name]
                yield dict(case, flowir=dict(F, variables=V2))
            elif plat == "default" and not name.startswith("nrep") and name != G.NUMVAR and val != "x":
                V2 = copy.deepcopy(V)
                V2[plat]["global"][name] = "x"
                yield dict(case, flowir=dict(F, variables=V2))
    for i, c in enumerate(comps):
        if "$import" in c:
            continue
        others = comps[:i] + comps[i + 1:]
        if not any(_refers_to(o, c["name"]) for o in others):
            yield dict(case, flowir=dict(F, components=others))
        for key in ("override", "variables", "workflowAttributes", "resourceManager"):
            if key in c and not (key == "variables" and "%(cv)s" in c["command"].get("arguments", "")):
                yield dict(case, flowir=dict(F, components=comps[:i] + [_without(c, key)] + comps[i + 1:]))
        toks = c["command"].get("arguments", "").split()
        for j, t in enumerate(toks):
            if t not in c.get("references", []):
                c2 = copy.deepcopy(c)
                c2["command"]["arguments"] = " ".join(toks[:j] + toks[j + 1:])
                yield dict(case, flowir=dict(F, components=comps[:i] + [c2] + comps[i + 1:]))
        for r in c.get("references", []):
            c2 = copy.deepcopy(c)
            c2["references"] = [x for x in c["references"] if x != r]
            c2["command"]["arguments"] = " ".join(t for t in toks if t != r)
            yield dict(case, flowir=dict(F, components=comps[:i] + [c2] + comps[i + 1:]))


def minimize(v: Violation, ctx: Ctx, max_runs=150):
    best = v
    runs = 0
    progress = True
    while progress and runs < max_runs:
        progress = False
        for cand in _candidates(best.case):
            if runs >= max_runs:
                break
            runs += 1
            try:
                check(cand, _Quiet(ctx))
            except Violation as v2:
                if v2.sig == v.sig:
                    v2.case = cand
                    best = v2
                    progress = True
                    break
            except Exception:
                pass
    return best


class _Quiet:
    """A context whose recorder is thrown away (minimisation must not count as coverage)."""

    def __init__(self, ctx: Ctx):
        from ..core import Recorder
        self._ctx = ctx
        self.rec = Recorder()

    def __getattr__(self, name):
        return getattr(self._ctx, name)


def shard(ctx: Ctx):
    explore(ctx, "roundtrip", G.cases(), check, ctx.n(1600, 60000), batch=30, shrink=False, minimize=minimize)


def replay(sub, case, ctx: Ctx):
    check(case, ctx)
