"""C01 — tasks start only after everything they consume from is final.

Real Controller + ComponentState + Engine/RepeatingEngine run over generated workflows under the deterministic
kernel (vf/rt): the harness owns every thread-pool, timer and clock, so the interleaving of task exits,
notifications and scheduler passes is a list of Hypothesis draws.  The invariant is evaluated at every task launch
(= every invocation of the backend's task generator) against an independent replication/dataflow model.
"""
from __future__ import annotations

from hypothesis import strategies as st

from ..core import Chooser, Ctx, Violation, explore
from ..rt import wfcase

ID = "C01"
LEVEL = "exploration"
RULE = ("case = generated workflow (<=5 primitive components, <=3 stages, replication x2, aggregators, repeating "
        "observers, shutdownOn/restart options) + exit-reason script per task execution + a schedule (one Hypothesis "
        "draw per choice among runnable callbacks / task exits / scheduler-pass timeouts). Non-trivial = the DAG has "
        ">=1 edge and >=1 consumer task was launched while another component's task was still running or not final; "
        "distinct = distinct (workflow, script, launch order).")
ASSUMPTIONS = [
    "interleavings are explored at callback granularity (each scheduled rx action / timer tick is atomic); "
    "pre-emption inside one callback is not explored",
    "tasks are scripted doubles of the backend (wait() returns the scripted exit reason after 1 virtual second); "
    "Controller, ComponentState, Engine, RepeatingEngine are the real classes",
    "monitor.CreateMonitor's polling thread is replaced by an equivalent scheduler-driven state machine",
    "the failed/shut-down-producer rule is not applied to a repeating consumer and its same-stage producer "
    "(they legitimately run concurrently)",
]
TIERS = {"quick": {"shards": 16, "budget": 200}, "thorough": {"shards": 16, "budget": 3000}}


def run(case, ctx: Ctx, chooser: Chooser):
    res, mon = wfcase.run_case(case, ctx, chooser)
    W = case["W"]
    n_edges = sum(len(c["refs"]) for c in W["components"])
    full = {"W": W, "script": case["script"], "memo": case.get("memo", []), "late": case.get("late") or {}, "lockpass": case.get("lockpass") or [], "pauses": case.get("pauses") or [],
            "choices": list(chooser.log)}
    if mon.violations:
        sig, msg = mon.violations[0]
        raise Violation(sig, msg + " | launches=%s" % [l["ref"] for l in mon.launches], case=full)
    ctx.rec.label("aborted:%s" % res.aborted if res.aborted else "ran",
                  "stages=%d" % (max(c["stage"] for c in W["components"]) + 1),
                  "has-observer" if any(c["repeat"] for c in W["components"]) else "no-observer",
                  "has-aggregator" if any(c["aggregate"] for c in W["components"]) else "no-aggregator",
                  "has-replication" if any(c["replicate"] for c in W["components"]) else "no-replication",
                  "has-failure-script" if case["script"] else "all-success",
                  "outcome:" + (res.stage_outcomes[-1]["outcome"] if res.stage_outcomes else "none"),
                  "never-paused" if not case.get("pauses") else
                  "paused:finished-components-postponed" if any(e[0] == "wake_up" and e[2] for e in res.pause_log) else
                  "paused:slept" if any(e[0] == "wake_up" for e in res.pause_log) else "paused:run-over-before")
    if res.kernel_errors:
        ctx.rec.label("callback-exceptions")
    if n_edges and mon.concurrent_launch and not res.aborted:
        order = [l["ref"] for l in mon.launches]
        ctx.rec.nt(["c01", W, case["script"], order],
                   {"components": [(c["name"], c["stage"], [r["p"] for r in c["refs"]],
                                    "rep" if c["replicate"] else "", "agg" if c["aggregate"] else "",
                                    "obs" if c["repeat"] else "") for c in W["components"]],
                    "script": case["script"], "launch_order": order, "decisions": res.decisions,
                    "final": res.states})
    return res, mon


def check(data, ctx: Ctx):
    case = data.draw(wfcase.runtime_cases(max_components=ctx.pick(5, 6)), label="case")
    run(case, ctx, Chooser(data=data))


def _minimize(v, ctx):
    return wfcase.minimize_schedule(v, ctx, lambda c: run(c, ctx, Chooser(script=c.get("choices", []))))


def shard(ctx: Ctx):
    explore(ctx, "sched", st.data(), check, ctx.n(640, 24000), batch=40, shrink=False, minimize=_minimize)


def replay(sub, case, ctx: Ctx):
    run(case, ctx, Chooser(script=case.get("choices", [])))
