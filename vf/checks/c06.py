"""C06 — DSL 2.0 compilation preserves the dataflow and parameter bindings.

sub `valid`   : fold strategy (vf/gen/c06_fold.py): an abstract flat dataflow is drawn first (the oracle), then folded
                into nested workflows / parameters; `namespace_to_flowir(Namespace(**doc))` must produce exactly that
                flat dataflow (one uniquely named component per leaf, producer/consumer relation incl. path and method,
                every parameter replaced by the value supplied along its call chain or its default) and the result
                must pass FlowIRConcrete.validate().
sub `invalid` : a valid generated namespace with one invalidating mutation (vf/gen/c06_mutate.py); the only acceptable
                outcomes are pydantic.ValidationError at model construction or DSLInvalidError with non-empty,
                located underlying errors.
"""
from __future__ import annotations

import copy
import re
import signal

from ..core import jhash, Ctx, Violation, explore
from ..gen import c06_fold as G
from ..gen import c06_mutate as MU
from ..model import c06_flat as M

ID = "C06"
LEVEL = "exploration"
RULE = ("valid: namespaces folded from a flat dataflow of <=8 leaf steps over <=3 component templates; non-trivial = "
        "workflow nesting depth >= 2 and some template instantiated >= 2 times and >= 1 output reference crossing a "
        "workflow boundary; distinct = distinct DSL documents. invalid: every case carries exactly one invalidating "
        "mutation of a valid generated namespace; distinct = distinct (mutation kind, document).")
ASSUMPTIONS = [
    "a namespace is 'valid' when it only uses forms shown in the module docstring / tests of frontends/dsl.py: "
    "references written in the workflow that contains both ends, starting with a sibling step; forwarded through "
    "parameters with optional '/path' and ':method' appended lower down; literals never contain '%', ':', '<', '>' "
    "or '\"'",
    "the compiler may name components as it likes: components are matched to leaf steps through a unique tag in their "
    "arguments; only uniqueness of (stage, name) is required",
    "step names that end in a digit and instantiate a component: either a correct compilation or a located "
    "DSLInvalidError is accepted (the model accepts such names, FlowIR reserves trailing digits for replicas)",
    "no replicate/aggregate attributes, key outputs only as :ref references to leaf steps, no interface, no input./data. entry parameters",
    "a compile that burns more than 5 s (and, on a second attempt, 10 s) of CPU time for a <=8-step namespace is "
    "reported as a hang (never shrunk: the mutated document is reported as generated)",
    "'lists the offending locations': every underlying error of DSLInvalidError must be a DSLInvalidFieldError; an "
    "error list in which no entry has a non-empty location is a violation; for mutations confined to one template "
    "some reported location must lie inside that template (['workflows'|'components', index, ...])",
]
TIERS = {"quick": {"shards": 8, "budget": 240}, "thorough": {"shards": 16, "budget": 2400}}

TIME_LIMIT_S = 5        # CPU seconds (a compile + validate of these namespaces takes ~0.02 s)
# mutation kinds whose site names one template: some reported location must lie inside that template
SITE_KINDS = {"duplicate-execute-entry": "workflows", "method-inside-brackets": "workflows",
              "missing-argument-without-default": "workflows", "reference-to-non-sibling": "workflows",
              "reference-without-method": "workflows", "step-without-execute-entry": "workflows",
              "unknown-argument": "workflows", "unknown-parent-parameter": "workflows",
              "unknown-step-in-execute": "workflows", "unknown-template": "workflows", "workflow-cycle": "workflows",
              "unknown-parameter-in-component": "components", "variable-shadows-parameter": "components"}


class _Hang(BaseException):
    pass


class _TimeLimit:
    """Raises _Hang in the main thread after `seconds` of *CPU time* of this process (ITIMER_VIRTUAL): an endless
    loop burns CPU, a process that is merely descheduled on a loaded machine does not."""

    def __init__(self, seconds):
        self.seconds = seconds

    def _fire(self, *a):
        raise _Hang()

    def __enter__(self):
        self.old = signal.signal(signal.SIGVTALRM, self._fire)
        signal.setitimer(signal.ITIMER_VIRTUAL, self.seconds, 1.0)   # re-fires in case something swallows it

    def __exit__(self, *a):
        signal.setitimer(signal.ITIMER_VIRTUAL, 0)
        signal.signal(signal.SIGVTALRM, self.old)
        return False


def _parse_reference(ref, stage):
    import experiment.model.frontends.flowir as F
    return F.FlowIR.ParseDataReferenceFull(ref, index=stage)


def _short(doc, limit=1800):
    import json
    s = json.dumps(doc, sort_keys=True)
    return s if len(s) <= limit else s[:limit] + "..."


def compile_doc(doc, override, validate=False):
    """-> ('ok', FlowIRConcrete[, validation errors]) | ('model', ValidationError) | ('dsl', DSLInvalidError) |
    ('hang', None) | ('exc', exception). A hang is confirmed by a second attempt with twice the CPU budget."""
    import pydantic
    import experiment.model.errors as E
    import experiment.model.frontends.dsl as D
    for attempt in (1, 2):
        try:
            with _TimeLimit(TIME_LIMIT_S * attempt):
                try:
                    ns = D.Namespace(**copy.deepcopy(doc))
                except pydantic.ValidationError as e:
                    return "model", e
                try:
                    res = D.namespace_to_flowir(ns, override_entrypoint_args=copy.deepcopy(override) or None)
                    if validate:
                        return "ok", (res, res.validate())
                    return "ok", res
                except E.DSLInvalidError as e:
                    return "dsl", e
                except Exception as e:
                    return "exc", e
        except _Hang:
            continue
    return "hang", None


_ROMAN = re.compile(r"-[IVX]+$")


def step_name_class(doc) -> str:
    """Independent predicate on the input used to key crash signatures by root cause: which kind of unusual (but
    schema-valid) names do the steps that instantiate components have?"""
    comps = {c["signature"]["name"] for c in doc.get("components", [])}
    names = [n for w in doc.get("workflows", []) for n, t in w.get("steps", {}).items() if t in comps]
    out = []
    if any(_ROMAN.search(n) for n in names):
        out.append("step-named-like-dedup-suffix")
    if any(n.startswith("stage0.") for n in names):
        out.append("stage0-prefixed-step")
    if any(n[-1:].isdigit() for n in names):
        out.append("step-name-ends-in-digit")
    return "+".join(out)


def _record_unshrunk(ctx: Ctx, sub: str, v: Violation):
    """Hangs cost TIME_LIMIT_S per evaluation, so they are reported as found (no Hypothesis shrinking: hundreds of
    re-runs) and the signature is excluded for the rest of the shard."""
    from ..core import known_open_sigs
    v.sub = sub
    if ctx.replaying:
        raise v
    ctx.excluded.add(v.sig)
    if v.sig in known_open_sigs(ctx.prop):
        ctx.rec.known[v.sig] = v.to_dict()
    else:
        ctx.rec.violations.append(v.to_dict())


def check_valid(case, ctx: Ctx):
    import experiment.model.errors as E
    flat, doc, meta = case["flat"], case["doc"], case["meta"]
    if "valid-namespace-hangs" in ctx.excluded and not ctx.replaying:
        ctx.rec.excluded["valid-namespace-hangs"] += 1
        return
    # half of the cases: the entrypoint declares key outputs that point at (up to three of) the leaf steps; they are
    # output references like any other and must name the component that the step instance was compiled to
    key_outputs = {}
    paths = case.get("where") or {}
    if paths and jhash([doc, "key-outputs"]) % 2 == 0:
        tags = sorted(paths)
        picked = sorted({tags[jhash([doc, i]) % len(tags)] for i in range(3)} | {tags[-1]})
        doc = copy.deepcopy(doc)
        doc["entrypoint"]["output"] = [{"name": "k-%s" % t, "data-in": "<%s>/out.txt:ref" % paths[t]} for t in picked]
        key_outputs = {"k-%s" % t: t for t in picked}
    kind, res = compile_doc(doc, case.get("override"), validate=True)
    if key_outputs and kind == "dsl" and res.underlying_errors and all(
            list(getattr(e, "location", []))[:2] == ["entrypoint", "output"] or "output" in str(getattr(e, "location", ""))
            for e in res.underlying_errors):
        # the compiler does not accept this spelling of a key output: not this check's business, carry on without them
        ctx.rec.label("v:key-outputs-rejected")
        doc, key_outputs = case["doc"], {}
        kind, res = compile_doc(doc, case.get("override"), validate=True)
    where = "leaf steps at %s" % case.get("where")
    if kind == "model":
        raise Violation("valid-namespace-rejected-by-model", "%s\n%s" % (str(res)[:600], where))
    if kind == "dsl":
        if "step-name-ends-in-digit" in step_name_class(doc) and res.underlying_errors and all(
                isinstance(e, E.DSLInvalidFieldError) and len(e.location) > 0 for e in res.underlying_errors):
            # FlowIR gives trailing digits of component names a meaning (replica index) and the DSL forbids them for
            # component templates; whether a *step* may end in a digit is not stated: a located rejection is accepted
            ctx.rec.label("v:digit-step-name-rejected-with-location")
            return
        raise Violation("valid-namespace-rejected", "DSLInvalidError %s\n%s" % (str(res.errors())[:900], where))
    if kind == "hang":
        return _record_unshrunk(ctx, "valid", Violation("valid-namespace-hangs", "no result after %d s of CPU time\n%s" % (
            TIME_LIMIT_S, where), case=case))
    if kind == "exc":
        cls = step_name_class(doc)
        raise Violation("valid-namespace-raises-" + type(res).__name__ + ("@" + cls if cls else ""), "%s: %s\n%s" % (
            type(res).__name__, str(res)[:600], where))
    res, errors = res
    raw = res.raw()
    try:
        ident = M.compare(flat, raw.get("components", []), _parse_reference,
                          (raw.get("environments") or {}).get("default") or {})
    except M.Mismatch as m:
        raise Violation(m.sig, "%s\n%s" % (m.message, where))
    if key_outputs:
        leaf_of = {l["tag"]: i for i, l in enumerate(flat["leaves"])}
        got = raw.get("output") or {}
        for name, tag in sorted(key_outputs.items()):
            st_, nm = ident[leaf_of[tag]]
            want = "stage%d.%s/out.txt:ref" % (st_, nm)
            have = (got.get(name) or {}).get("data-in")
            if have != want:
                raise Violation("key-output-names-wrong-component",
                                "key output %s (data-in <%s>/out.txt:ref) compiles to %r, the step instance is component "
                                "%s\n%s" % (name, paths[tag], have, want, where))
        ctx.rec.label("v:key-outputs-checked")
    if errors:
        raise Violation("compiled-flowir-fails-validation", "%s\n%s" % ([str(e)[:300] for e in errors[:4]], where))
    ctx.rec.label(*["v:" + l for l in meta["labels"]])
    ctx.rec.label("depth:%d" % min(meta["depth"], 4), "leaves:%d" % meta["leaves"],
                  "reuse:workflow-template" if meta["workflow_template_reuse"] >= 2 else "reuse:no-workflow-template",
                  "step-name-reused" if meta["step_name_reused"] else "step-names-distinct")
    if G.nontrivial(meta):
        ctx.rec.label("nontrivial")
        ctx.rec.nt(["v", doc], {"depth": meta["depth"], "leaves": meta["leaves"], "workflows": meta["workflows"],
                                "template_reuse": meta["template_reuse"], "where": case.get("where"),
                                "labels": meta["labels"]}, group="valid")


def check_invalid(case, ctx: Ctx):
    import experiment.model.errors as E
    doc, mkind = case["doc"], case["mutation"]
    hang_sig = "invalid-namespace-hangs:" + mkind
    if hang_sig in ctx.excluded and not ctx.replaying:
        # a known hang costs TIME_LIMIT_S per case: once it is recorded the kind is counted as excluded, not re-run
        ctx.rec.excluded[hang_sig] += 1
        return
    kind, res = compile_doc(doc, case.get("override"))
    what = "mutation %s (%s)" % (mkind, case.get("detail"))
    if kind == "ok":
        raise Violation("invalid-namespace-accepted:" + mkind, "%s compiled without error to %s" % (
            what, _short(res.raw().get("components"), 900)))
    if kind == "hang":
        return _record_unshrunk(ctx, "invalid", Violation(hang_sig, "%s: no result after %d s" % (what, TIME_LIMIT_S),
                                                          case=case))
    if kind == "exc":
        raise Violation("invalid-namespace-raises-%s:%s" % (type(res).__name__, mkind), "%s: %s: %s" % (
            what, type(res).__name__, str(res)[:600]))
    if kind == "model":
        ctx.rec.label("i:outcome:ValidationError")
    else:
        under = getattr(res, "underlying_errors", None)
        if not under:
            raise Violation("invalid-namespace-error-without-details:" + mkind, "%s: DSLInvalidError has no "
                                                                                "underlying errors" % what)
        bad = [e for e in under if not isinstance(e, E.DSLInvalidFieldError) or
               not isinstance(getattr(e, "location", None), (list, tuple))]
        if bad:
            raise Violation("invalid-namespace-error-not-located:" + mkind, "%s: underlying errors without a location "
                                                                            "attribute: %r" % (what, bad[:3]))
        if all(len(e.location) == 0 for e in under):
            raise Violation("invalid-namespace-error-with-empty-location:" + mkind,
                            "%s: every underlying error has an empty location: %s" % (what, res.errors()[:4]))
        if any(len(e.location) == 0 for e in under):
            ctx.rec.label("i:some-error-with-empty-location")
        site = case.get("site") or []
        if mkind in SITE_KINDS and site and isinstance(site[0], int):
            want = [SITE_KINDS[mkind], site[0]]
            if not any(list(e.location[:2]) == want for e in under):
                raise Violation("invalid-namespace-error-location-elsewhere:" + mkind,
                                "%s: no underlying error is located at %s: %s" % (what, want, res.errors()[:4]))
        ctx.rec.label("i:outcome:DSLInvalidError")
    ctx.rec.label("i:kind:" + mkind)
    ctx.rec.nt(["i", mkind, doc], {"mutation": mkind, "detail": case.get("detail"), "outcome": kind,
                                   "errors": (res.errors()[:2] if kind == "dsl" else str(res)[:200])},
               group="invalid:" + mkind)


def shard(ctx: Ctx):
    explore(ctx, "valid", G.namespace_case(), check_valid, ctx.n(2400, 100000), batch=150)
    explore(ctx, "invalid", MU.invalid_case(), check_invalid, ctx.n(1600, 50000), batch=100)


def replay(sub, case, ctx: Ctx):
    {"valid": check_valid, "invalid": check_invalid}[sub or "valid"](case, ctx)
