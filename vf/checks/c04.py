"""C04 — resolved component configuration follows the documented layering order.

sub `masks`    : exhaustive define/omit masks of ONE key (a variable, or one option of each declared type) over all
                 layers incl. the user-variable layers (patched in from a real YAML file through
                 FlowIRExperimentConfiguration._patch_in_variable_files), the never-selected platform Q, the override
                 of the non-selected platform and (thorough) the other stage; both platform choices. Sharded.
sub `concrete` : Hypothesis documents with several variables (typed, chains a -> %(b)s -> %(c)s whose links live in
                 different layers, dangling references) and several options; FlowIRConcrete only (+ optional user
                 file patched in). Every component of the document (probe, same-stage sibling, other-stage filler) is
                 compared with the reference model vf/model/c04_layering.py.
sub `package`  : the same documents written as a real package + variable file, loaded through
                 Experiment.experimentFromPackage(variable_files=[...], platform=...); observed on the configuration's
                 primitive (unreplicated) FlowIRConcrete and on the replicated one that the graph uses.

Observation point everywhere: FlowIRConcrete.get_component_configuration(comp, raw=False, include_default=True,
platform=P).
"""
from __future__ import annotations

import os
import shutil

import yaml
from hypothesis import strategies as st

from ..core import Ctx, Violation, explore
from ..gen import c04_docs as G
from ..model import c04_layering as M

ID = "C04"
LEVEL = "exploration"
RULE = ("one probe component (+ optional same-stage sibling and other-stage filler); every variable/option is "
        "defined or omitted independently in each layer (default global/stage, platform global/stage, user "
        "global/stage, component, component override; plus never-active layers: platform Q, override of the "
        "non-selected platform, the other stage) with a value tagged by its layer. Non-trivial = for the probe, some "
        "key is defined in >=2 active layers (so order matters) or a reference chain crosses >=2 layers, or a "
        "reference is undefined for the component while a never-active layer defines it. Distinct = distinct cases.")
ASSUMPTIONS = [
    "option values are what the package schema accepts: a value of the declared type or a string containing a "
    "variable reference; no None values (override_object treats None as 'not given'), no interpreter, no array "
    "accesses '[n]', no '%' or ':' in literal text, no reference cycles",
    "a primitive variable substituted into a string reads as Python repr (5 -> '5', 0.5 -> '0.5', true -> 'True'); "
    "resolved *variables* are compared modulo str() of primitives (5 == '5')",
    "for options declared `bool` (workflowAttributes.isMigratable) given through a variable reference only the type "
    "is checked: the statement does not say how a substituted string maps to True/False",
    "the override for platform `default` counts as 'its override for that platform' when `default` is selected",
    "user variables come from ONE variable file (global + per-stage sections)",
    "package sub-check: an undefined reference in ANY component of the package is expected to make the load fail "
    "with ExperimentInvalidConfigurationError; packages are generated valid on their own (every referenced variable "
    "is also defined by the package, the user file only overrides), because ExperimentPackage.packageFromLocation "
    "validates the package before user variables are applied",
    "a reference that is undefined for the selected platform but sits in the component's override for a platform "
    "that is NOT selected: both 'reported as FlowIRVariableUnknown' and 'ignored' are accepted (statement is silent)",
    "expected error type for an undefined reference at the observation point: FlowIRVariableUnknown",
]
TIERS = {"quick": {"shards": 8, "budget": 300}, "thorough": {"shards": 16, "budget": 2400}}

PROBE_OPTIONS_QUICK = ["command.arguments", "resourceRequest.numberProcesses", "resourceManager.config.walltime",
                       "command.resolvePath"]


# ------------------------------------------------------------------------------------------------------------
def _norm(v):
    """Variables: compare modulo str() of primitives."""
    if isinstance(v, bool):
        return "True" if v else "False"
    if isinstance(v, (int, float)):
        return repr(v)
    return v


def _get(conf, path):
    cur = conf
    for key in path.split("."):
        if not isinstance(cur, dict) or key not in cur:
            return _Missing
        cur = cur[key]
    return cur


class _Missing:
    pass


def _early(sub, user, section, key):
    try:
        return M.resolve_early(sub, user)[section].get(key, _Missing)
    except Exception:
        return _Missing


def _who_would_give(kind, sub, key, actual, user):
    """Which single layer, had it won, yields `actual`? (root-cause classification only)"""
    defs = sub["vars" if kind == "var" else "opts"].get(key, {})
    layered = M.overlay(sub.get("vars", {}), M.active_var_layers(sub["platform"], user))
    for layer in sorted(defs):
        try:
            v = M.substitute(defs[layer], layered, "x")
            if kind == "opt":
                v = M.convert(key, v)
        except Exception:
            continue
        if (kind == "var" and _norm(v) == _norm(actual)) or (kind == "opt" and v == actual and type(v) is type(actual)):
            return layer
    if kind == "opt" and key in M.BUILTIN and M.BUILTIN[key] == actual:
        return "builtin"
    return None


def compare(sub, conf, exp, where, user, comp):
    """conf = observed configuration of one component; exp = model.resolve(sub)."""
    act_order = M.active_var_layers(sub["platform"], user)
    got_vars = conf.get("variables", {})
    for name in sorted(exp["vars"]):
        if name not in got_vars:
            raise Violation("variable-missing" + where, "%s: variable %s (layer %s) absent from resolved variables %r"
                            % (comp, name, exp["var_winner"][name], got_vars))
        a, e = got_vars[name], exp["vars"][name]
        if _norm(a) != _norm(e):
            w = _who_would_give("var", sub, name, a, user) if where != "@replicated" else None
            if w is not None and w != exp["var_winner"][name]:
                cls = "inactive-layer-leaks" if w not in act_order else "wrong-layer-wins"
                raise Violation("%s:var:%s-instead-of-%s%s" % (cls, w, exp["var_winner"][name], where),
                                "%s: variable %s = %r, expected %r (layers %s)" % (comp, name, a, e, sub["vars"][name]))
            early = _early(sub, user, "vars", name)
            if early is not _Missing and _norm(early) == _norm(a):
                raise Violation("reference-bound-in-defining-scope-not-component-scope" + where,
                                "%s: variable %s = %r, expected %r: chain %s was resolved inside the global/stage "
                                "scope, ignoring the higher layer that redefines the referenced variable"
                                % (comp, name, a, e, exp["chains"].get("var:" + name)))
            if isinstance(a, str) and M.REF.search(a):
                raise Violation("variable-reference-left-in-place" + where,
                                "%s: variable %s = %r, expected %r" % (comp, name, a, e))
            raise Violation("variable-value-mismatch" + where, "%s: variable %s = %r, expected %r (chain %s)"
                            % (comp, name, a, e, exp["chains"].get("var:" + name)))
    extra = sorted(set(got_vars) - set(exp["vars"]))
    if extra:
        homes = sorted({layer for n in extra for layer in sub.get("all_vars", sub["vars"]).get(n, {})})
        raise Violation("inactive-layer-leaks:var-present:%s%s" % ("+".join(homes) or "?", where),
                        "%s: variables %s are defined only in layers that are not active for it, yet resolved to %r"
                        % (comp, extra, {n: got_vars[n] for n in extra}))
    for opt in sorted(exp["opts"]):
        a, e = _get(conf, opt), exp["opts"][opt]
        if a is _Missing:
            raise Violation("option-missing" + where, "%s: option %s absent" % (comp, opt))
        if e is M.AnyBool:
            if not isinstance(a, bool):
                raise Violation("option-type:bool" + where, "%s: %s = %r (%s)" % (comp, opt, a, type(a).__name__))
            continue
        if a == e and type(a) is type(e):
            continue
        if a == e or (isinstance(a, str) and not isinstance(e, str) and e is not None and a == str(e)):
            raise Violation("option-type:%s%s" % (M.OPTION_TYPES[opt], where), "%s: %s = %r (%s), declared type gives %r (%s)"
                            % (comp, opt, a, type(a).__name__, e, type(e).__name__))
        early = _early(sub, user, "opts", opt)
        if early is not _Missing and early == a and type(early) is type(a):
            raise Violation("reference-bound-in-defining-scope-not-component-scope" + where,
                            "%s: %s = %r, expected %r: chain %s was resolved inside the global/stage scope of the "
                            "blueprint, ignoring the higher layer that redefines the referenced variable"
                            % (comp, opt, a, e, exp["chains"].get("opt:" + opt)))
        w = _who_would_give("opt", sub, opt, a, user)
        if w is not None and w != exp["opt_winner"][opt]:
            cls = "inactive-layer-leaks" if w not in M.active_opt_layers(sub["platform"]) + ["builtin"] else "wrong-layer-wins"
            raise Violation("%s:opt:%s-instead-of-%s%s" % (cls, w, exp["opt_winner"][opt], where),
                            "%s: %s = %r, expected %r (layers %s)" % (comp, opt, a, e, sub["opts"].get(opt)))
        if isinstance(a, str) and M.REF.search(a):
            raise Violation("option-reference-left-in-place" + where, "%s: %s = %r, expected %r" % (comp, opt, a, e))
        raise Violation("option-value-mismatch" + where, "%s: %s = %r (%s), expected %r (%s) (chain %s)"
                        % (comp, opt, a, type(a).__name__, e, type(e).__name__, exp["chains"].get("opt:" + opt)))


def _dangling_in_inactive_override(sub, user):
    """Does the override section of a platform that is NOT selected hold a reference that is undefined for the
    selected platform? The statement does not say whether that is 'a reference to an undefined variable' of the
    component (the code reports it), so either outcome is accepted for such documents."""
    layered = M.overlay(sub.get("vars", {}), M.active_var_layers(sub["platform"], user))
    inactive = {"o", "od", "oq"} - set(M.active_var_layers(sub["platform"], user))
    for section in ("vars", "opts"):
        for defs in sub[section].values():
            for layer, value in defs.items():
                if layer in inactive:
                    try:
                        M.substitute(value, layered, "x")
                    except M.Undefined:
                        return True
    return False


def observe(concrete, sub, comp, user, where=""):
    import experiment.model.errors as E
    cid = (sub["stage"] if comp != "filler" else 1 - sub["stage"], comp)
    exp = M.resolve(sub, user=user)
    try:
        conf = concrete.get_component_configuration(cid, raw=False, include_default=True, platform=sub["platform"])
    except Exception as e:
        if exp["error"] is not None:
            if isinstance(e, E.FlowIRVariableUnknown):
                return exp, "error"
        elif isinstance(e, E.FlowIRVariableUnknown) and _dangling_in_inactive_override(sub, user):
            return exp, "ambiguous-inactive-override"
        if exp["error"] is not None:
            raise Violation("undefined-variable-wrong-error:%s%s" % (type(e).__name__, where),
                            "%s: %s is undefined (%s) but the error is %s: %s" % (
                                comp, exp["error"].name, exp["error"].where, type(e).__name__, str(e)[:300]))
        raise Violation("unexpected-error:%s%s" % (type(e).__name__, where),
                        "%s: every reference is defined, model expects vars=%r opts=%r; got %s: %s" % (
                            comp, exp["vars"], exp["opts"], type(e).__name__, str(e)[:400]))
    if exp["error"] is not None:
        name = exp["error"].name
        homes = sorted(sub["vars"].get(name, {}))
        raise Violation("undefined-variable-not-reported%s%s" % (":defined-only-in-inactive-layer" if homes else "", where),
                        "%s: %s references %s which no active layer defines (defined in %s); resolved variables=%r "
                        "arguments=%r" % (comp, exp["error"].where, name, homes or "no layer", conf.get("variables"),
                                          conf.get("command", {}).get("arguments")))
    compare(sub, conf, exp, where, user, comp)
    return exp, "ok"


def record(ctx: Ctx, case, exp, outcome, group):
    """Labels + non-trivial accounting for the probe."""
    user = case["user"] != "none"
    vorder = M.active_var_layers(case["platform"], user)
    oorder = M.active_opt_layers(case["platform"])
    multi = False
    for name in case["vars"]:
        d = M.definers(case["vars"], name, vorder)
        if len(d) >= 2:
            multi = True
            ctx.rec.label("var-win:%s" % d[-1], "var-beats:%s>%s" % (d[-1], d[-2]))
    for opt in case["opts"]:
        d = M.definers(case["opts"], opt, oorder)
        if len(d) >= 2:
            multi = True
            ctx.rec.label("opt-win:%s" % d[-1], "opt-beats:%s>%s" % (d[-1], d[-2]))
        elif len(d) == 1:
            ctx.rec.label("opt-over-builtin:%s" % d[0])
    depth = 0
    cross = False
    for key, chain in exp["chains"].items():
        depth = max(depth, len(chain) - 1)
        if len({layer for _, layer in chain}) >= 2:
            cross = True
    leak_probe = False
    if exp["error"] is not None:
        leak_probe = bool(case["vars"].get(exp["error"].name))
        ctx.rec.label("undefined:" + ("only-inactive-layers" if leak_probe else "nowhere"))
    ctx.rec.label("platform:" + case["platform"], "outcome:" + outcome, "refs-followed:%d" % min(depth, 4),
                  "user:" + case["user"], "multi-layer" if multi else "single-layer",
                  "chain-crosses-layers" if cross else "chain-one-layer")
    if multi or cross or leak_probe:
        ctx.rec.nt(case, {"platform": case["platform"], "vars": case["vars"], "opts": case["opts"],
                          "expected": ({"error": str(exp["error"])} if exp["error"] else
                                       {"vars": exp["vars"], "opts": {k: repr(v) for k, v in exp["opts"].items()}})},
                   group=group)


# ------------------------------------------------------------------------------------------------------------
def build_concrete(case, ctx: Ctx):
    import experiment.model.conf
    import experiment.model.frontends.flowir as F
    flowir, user_doc = G.render(case)
    active = case.get("active", "same")
    concrete = F.FlowIRConcrete(flowir, case["platform"] if active == "same" else active, None)
    if user_doc is not None:
        d = ctx.mkdtemp()
        try:
            path = os.path.join(d, "variables.yaml")
            with open(path, "w") as f:
                yaml.safe_dump(user_doc, f)
            errors = []
            experiment.model.conf.FlowIRExperimentConfiguration._patch_in_variable_files([path], concrete, errors)
        finally:
            shutil.rmtree(d, ignore_errors=True)
        if errors:
            raise Violation("user-variables-rejected", "variable file %r: %r" % (user_doc, errors))
    return concrete


def check_concrete(case, ctx: Ctx, group="concrete"):
    concrete = build_concrete(case, ctx)
    user = case["user"] != "none"
    for plat in case.get("warm", []):
        try:        # fills the per-platform cache; the result for the selected platform must not depend on it
            concrete.get_component_configuration((case["stage"], "probe"), raw=False, include_default=True, platform=plat)
        except Exception:
            pass
    for comp in G.components_of(case):
        sub = G.view(case, comp)
        exp, outcome = observe(concrete, sub, comp, user)
        if outcome != "error" and outcome != "ok":
            ctx.rec.label(outcome)
        if outcome == "ok":          # second call is served from the cache
            observe(concrete, sub, comp, user, where="@cached")
        if comp == "probe":
            record(ctx, case, exp, outcome, group)
        else:
            ctx.rec.label("%s:%s" % (comp, outcome))


def check_package(case, ctx: Ctx):
    import experiment.model.errors as E
    from ..gen import pkg
    flowir, user_doc = G.render(case)
    user = user_doc is not None
    loc = ctx.mkdtemp()
    try:
        files = None
        if user:
            files = [os.path.join(loc, "variables.yaml")]
            with open(files[0], "w") as f:
                yaml.safe_dump(user_doc, f)
        comps = G.components_of(case)
        exps = {comp: M.resolve(G.view(case, comp), user=user) for comp in comps}
        bad = [comp for comp in comps if exps[comp]["error"] is not None]
        # the package is validated on its own (ExperimentPackage.packageFromLocation) before the variable file is
        # applied: a reference that only the user file defines makes the *package* invalid
        alone = [comp for comp in comps if M.resolve(G.view(case, comp), user=False)["error"] is not None]
        try:
            exp = pkg.experiment_from_flowir(flowir, loc, variable_files=files,
                                             platform=None if case["platform"] == "default" and case.get("plat_none")
                                             else case["platform"])
        except E.ExperimentInvalidConfigurationError as e:
            if bad:
                ctx.rec.label("package:rejected-as-expected")
                record(ctx, case, exps["probe"], "error", "package")
                return
            if alone:
                ctx.rec.label("package:invalid-without-user-variables")
                return
            if _dangling_in_inactive_override(case, user) or _dangling_in_inactive_override(case, False):
                ctx.rec.label("ambiguous-inactive-override")
                return
            text = str(e)
            sig = "valid-package-rejected"
            if "Invalid value" in text and ".override." in text:
                sig = "typed-option-via-reference-in-override-rejected"
            elif "Invalid value FlowIR.blueprint." in text:
                sig = "typed-option-via-reference-in-blueprint-rejected"
            raise Violation(sig, "model resolves every component (probe vars=%r opts=%r) but the "
                            "load failed: %s" % (exps["probe"]["vars"], exps["probe"]["opts"], str(e)[-600:]))
        if bad:
            e0 = exps[bad[0]]["error"]
            raise Violation("undefined-variable-not-reported@package-load",
                            "component %s: %s references undefined %s, but the package loaded" % (bad[0], e0.where, e0.name))
        conf = exp.configuration
        for where, concrete in (("@unreplicated", conf._unreplicated),
                                ("@replicated", conf.get_flowir_concrete(return_copy=False))):
            for comp in comps:
                observe(concrete, G.view(case, comp), comp, user, where=where)
        ctx.rec.label("package:compared")
        record(ctx, case, exps["probe"], "ok", "package")
    finally:
        shutil.rmtree(loc, ignore_errors=True)


# ------------------------------------------------------------------------------------------------------------
def _tagged_value(option):
    kind = M.OPTION_TYPES[option] if option else "var"
    n = G.LAYER_NO

    def value_of(layer):
        if kind in ("var", "str"):
            return "T" + layer
        if kind == "int":
            return 2 + n[layer]
        if kind == "float":
            return n[layer] + 1.5
        if kind in ("flag", "bool"):
            return n[layer] % 2 == 1      # builtin is True; the lowest layers alternate
        if kind == "memory":
            return "%dMi" % (n[layer] + 1)
        raise AssertionError(kind)
    return value_of


def exhaustive_masks(ctx: Ctx):
    thorough = ctx.tier != "quick"
    vlayers = ["dg", "ds", "pg", "ps", "ug", "us", "c", "o", "od", "qg", "qs", "oq"]
    olayers = ["dg", "ds", "pg", "ps", "c", "o", "od", "qg", "qs", "oq"]
    if thorough:
        vlayers += ["dsx", "psx", "usx"]
        olayers += ["dsx", "psx"]
    families = [("var", "v", vlayers, _tagged_value(None))]
    options = [o for o, _ in G.OPTIONS if o != "command.expandArguments"] if thorough else PROBE_OPTIONS_QUICK
    families += [("opt", o, olayers, _tagged_value(o)) for o in options]
    idx = 0
    for kind, key, layers, value_of in families:
        for case in G.mask_cases(kind, key, layers, value_of):
            idx += 1
            if idx % ctx.nshards != ctx.shard:
                continue
            if ctx.stop or ctx.out_of_time():
                ctx.rec.notes.append("masks: stopped early at %d (shard %d)" % (idx, ctx.shard))
                return
            ctx.rec.evaluations += 1
            try:
                check_concrete(case, ctx, group="masks:" + kind)
            except Violation as v:
                if v.sig in ctx.excluded:
                    ctx.rec.excluded[v.sig] += 1
                    continue
                v.case = case
                v.sub = "masks"
                ctx.rec.violations.append(v.to_dict())
                ctx.stop = True
                return
    ctx.rec.count("exhaustive_masks_enumerated", idx if ctx.shard == 0 else 0)


def sibling_anchors():
    """Deterministic packages, loaded on every run: two components of one stage, one of which privately defines a name
    that a component-level variable of the other refers to (leak in either direction, either resolution order)."""
    out = []
    for platform in ("default", "P"):
        for user in ("none", "file"):
            base = {"nstages": 1, "opts": {"command.arguments": {}}, "plat_none": False, "platform": platform,
                    "sibling": True, "stage": 0, "user": user}
            out.append(dict(base, vars={"s0": {"c": "c0-%(s1)s"}, "s1": {"dg": "dg1"}}, sib_vars={"s1": "sibpriv-s1"}))
            out.append(dict(base, vars={"s0": {"dg": "dg0"}, "s1": {"c": "c1", "dg": "dg1"}},
                            sib_vars={"s0": "sibpriv-s0-%(s1)s"}))
            out.append(dict(base, vars={"i0": {"c": "%(i1)s", "dg": 10}, "i1": {"dg": 11}}, sib_vars={"i1": 4242}))
    return out


def nested_name_anchors():
    """Deterministic documents, checked on every run: the name of a reference is itself spelled with a reference
    (%(s%(i1)s)s -> %(s2)s -> value of s2); the composed name is defined in another layer than the parts."""
    out = []
    for platform in ("default", "P"):
        for where, target in (("c", "dg"), ("dg", "c"), ("ds", "pg" if platform == "P" else "dg"), ("c", "c")):
            base = {"nstages": 1, "opts": {"command.arguments": {"c": "run %(s%(i1)s)s"}}, "plat_none": False,
                    "platform": platform, "sibling": False, "stage": 0, "user": "none", "active": "same", "warm": []}
            out.append(dict(base, vars={"s0": {where: "%(s%(i1)s)s-x"}, "i1": {"dg": 2}, "s2": {target: target + "2"}}))
            out.append(dict(base, vars={"s0": {where: "a/%(s%(i1)s)s/%(s2)s"}, "i1": {target: "2"},
                                        "s2": {"dg": "dg2"}}))
    return out


def shard(ctx: Ctx):
    for idx, case in enumerate(nested_name_anchors()):
        if idx % ctx.nshards != ctx.shard or ctx.stop:
            continue
        for sub, fn in (("concrete", check_concrete), ("package", check_package)):
            ctx.rec.evaluations += 1
            try:
                fn(case, ctx)
            except Violation as v:
                if v.sig in ctx.excluded:
                    ctx.rec.excluded[v.sig] += 1
                    continue
                v.case, v.sub = case, sub
                ctx.rec.violations.append(v.to_dict())
                ctx.stop = True
                return
    for idx, case in enumerate(sibling_anchors()):
        if idx % ctx.nshards != ctx.shard or ctx.stop:
            continue
        ctx.rec.evaluations += 1
        try:
            check_package(case, ctx)
        except Violation as v:
            if v.sig in ctx.excluded:
                ctx.rec.excluded[v.sig] += 1
                continue
            v.case, v.sub = case, "package"
            ctx.rec.violations.append(v.to_dict())
            ctx.stop = True
            return
    exhaustive_masks(ctx)
    explore(ctx, "concrete", G.layered_case(), check_concrete, ctx.n(8000, 200000), batch=1000)
    explore(ctx, "package", G.layered_case(for_package=True), check_package, ctx.n(400, 8000), batch=50)


def replay(sub, case, ctx: Ctx):
    {"masks": check_concrete, "concrete": check_concrete, "package": check_package}[sub or "concrete"](case, ctx)
