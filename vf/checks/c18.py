"""C18 — staging and deployment never write outside their target directory.

sub `stage`   : a real Experiment is instantiated in a per-case sandbox; the consumer component references generated
                tar archives (`:extract`) and optionally `:link` / `:copy` sources; the real `Job.stageIn` runs between
                two recursive snapshots of the whole sandbox minus the component working directory.
sub `deploy`  : a single-file FlowIR package with a generated manifest is deployed with the real
                `ExperimentPackage.expandPackageToDirectory` (directly, manifest injected without validation) or through
                `ExperimentPackage.packageFromLocation(manifest=...)` (-> `Manifest.validate`) +
                `ExperimentInstanceDirectory.newInstanceDirectory`; same snapshot/diff around it.
catalogue     : a deterministic enumeration of every hostile technique x climb height x landing place x position
                (both subs), run in addition to the Hypothesis search.

Oracle (derived from the statement, never from the code under test):
  * nothing in the sandbox outside the target (and outside the by-design shadow area) differs after the operation;
  * an input whose destination, resolved by the independent model in vf/fault/c18_vfs.py, lies outside the target
    must be rejected with DataReferenceCouldNotStageError (staging) / a manifest, package or instance-creation error
    (deployment);
  * a clean input (plain names, never leaves the target; includes nested keys and internal relative symlinks)
    must be accepted and the target must contain what the model expects; every hostile case is followed by its
    benign twin (the same input without the members/keys flagged hostile) in the same sandbox.
"""
from __future__ import annotations

import contextlib
import copy
import os
import shutil

from hypothesis import strategies as st

from ..core import Ctx, HarnessError, Violation, explore
from ..fault import c18_archive as A
from ..fault import c18_fs as FS
from ..fault import c18_vfs as M

ID = "C18"
LEVEL = "fault_enumeration"
RULE = ("non-trivial = the input contains at least one operation whose destination the independent path model "
        "resolves outside the target (an escaping archive member, staged reference or manifest key); distinct = "
        "distinct (sub-check, full case) values. Hostile techniques enumerated and generated: '..' segments in member "
        "names / manifest keys (plain, './', 'd/../..' prefixes, directories), absolute names/keys, symlink members "
        "(relative/absolute targets, chains, '.'-links) followed by files/dirs/links below or at them, also across "
        "two archives, hard-link members to files outside, members below links staged by earlier :link/:copy "
        "references, copy onto a staged link, manifest keys below a :link entry; x climb height 1..5 x landing place "
        "x position among benign members x tar format/compression x deployment entry point.")
ASSUMPTIONS = [
    "the sandbox outside the target contains no symbolic links on any path a hostile name traverses (the model "
    "resolves textually there); the experiment shadow directory (by design outside the instance) is redirected into "
    "the sandbox and excluded from the comparison",
    "an input is 'offending' (must be rejected) when, honouring '..' segments, absolute paths and links literally, "
    "some operation's destination lies outside the target; inputs that only look odd (a/../b, ./x, re-entering "
    "../consumer/x, absolute link targets, links pointing outside that nothing is written through, archives the model "
    "expects to fail with an ordinary OS error) may be accepted or rejected - only confinement is checked for them",
    "hard-link members only refer to earlier file members or to existing files (a hard link to a missing name is "
    "malformed, not hostile)",
    "staging rejection = experiment.model.errors.DataReferenceCouldNotStageError; deployment rejection = "
    "FlowIRManifestException, ExperimentInvalidConfigurationError (manifest validation at load), PackageCreateError, "
    "InstanceCreateError, and - when expandPackageToDirectory is called directly - the ValueError it already uses for "
    "absolute keys",
    "for manifest keys named conf/input/stages/output (folders deployment itself writes into) only the no-write-outside "
    "oracle applies (the resulting instance is not modelled); link-method keys whose parent folder does not exist yet "
    "are not required to work",
    "references are staged in the order the code documents (non-component references in declaration order, then "
    "component references); collision scenarios are built so that the verdict does not depend on that order",
]
TIERS = {"quick": {"shards": 8, "budget": 150}, "thorough": {"shards": 16, "budget": 1500}}

PAD = ["p%d" % i for i in range(1, 21)]              # 20 levels of slack between the sandbox root and the test area
OUT = "/".join(PAD + ["outside"])                       # sibling "outside" area, root-relative
ST_LOC = PAD + ["w"]
ST_INST = ST_LOC + ["p.instance"]
ST_T = ST_INST + ["stages", "stage0", "consumer"]
DP_T = PAD + ["w", "inst.instance"]
DP_T2 = PAD + ["w2", "inst.instance"]
MAX_CLIMB = len(ST_T)                                   # never above the sandbox root

SIG = {
    "dotdot-name": "tar-dotdot-member-escapes",
    "absolute-name": "tar-absolute-member-escapes",
    "via-member-link": "tar-link-member-escapes",
    "hardlink-to-outside": "tar-link-member-escapes",
    "via-staged-link": "extract-through-staged-link",
    "via-copied-link": "extract-through-staged-link",
    "copy-through-link": "copy-through-staged-link",
    "dotdot-key": "manifest-dotdot-key-escapes",
    "absolute-key": "manifest-absolute-key-escapes",
    "via-manifest-link": "manifest-link-followed-outside",
    "via-copied-link@deploy": "manifest-link-followed-outside",
}


def up(k):
    return "../" * k


# ------------------------------------------------------------------------------------------------------------
# sandbox plumbing
@contextlib.contextmanager
def shadow_inside(root):
    """The shadow directory (/tmp/chpc-<user>-shadow by design) is created inside the sandbox instead."""
    import experiment.model.storage as S
    orig = S.ExperimentShadowDirectory.__dict__["temporaryShadow"]

    def temporaryShadow(cls, name):
        return S.ExperimentShadowDirectory(name, os.path.join(root, "shadow"))

    S.ExperimentShadowDirectory.temporaryShadow = classmethod(temporaryShadow)
    try:
        yield
    finally:
        S.ExperimentShadowDirectory.temporaryShadow = orig


def make_sandbox(ctx: Ctx):
    root = os.path.realpath(ctx.mkdtemp())
    os.makedirs(os.path.join(root, "shadow"))
    out = os.path.join(root, OUT)
    os.makedirs(os.path.join(out, "dir"))
    for rel, text in (("sentinel.txt", "SENTINEL"), ("dir/keep.txt", "KEEP")):
        with open(os.path.join(out, rel), "w") as f:
            f.write(text)
    with open(os.path.join(root, "p1", "top.txt"), "w") as f:
        f.write("TOP")
    return root


def clear_dir(path):
    for name in os.listdir(path):
        p = os.path.join(path, name)
        if os.path.isdir(p) and not os.path.islink(p):
            shutil.rmtree(p)
        else:
            os.unlink(p)


def describe(changes, limit=6):
    sig = [dict(c, path=c["path"].replace("/".join(PAD), "<pad>")) for c in FS.significant(changes)]
    return "; ".join("%s %s%s" % (c["change"], c["path"], "" if c["change"] != "modified" else " " + ",".join(c["what"]))
                     for c in sig[:limit]) + (" (+%d more)" % (len(sig) - limit) if len(sig) > limit else "")


def guard_budget(names, link_targets, limit):
    b = M.dotdot_budget(names, link_targets)
    if b > limit:
        raise HarnessError("generated case could climb %d levels above the target (limit %d)" % (b, limit))
    for s in list(names) + list(link_targets):
        if s.startswith("/") or ("{ROOT}" in s and not s.startswith("{ROOT}/")):
            raise HarnessError("generated absolute path %r is not rooted in the sandbox" % s)


# ------------------------------------------------------------------------------------------------------------
# sub `stage`
def ref_string(ref):
    kind = ref["kind"]
    src = ref["src"]
    if src.startswith("producer/"):
        src = "stage0." + src
    return "%s:%s" % (src, kind)


def ref_abs(ref):
    """{ROOT}-anchored location of a reference's source inside the instance."""
    src = ref["src"]
    if src.startswith("producer/"):
        return "{ROOT}/" + "/".join(ST_INST + ["stages", "stage0", "producer", src.split("/", 1)[1]])
    return "{ROOT}/" + "/".join(ST_INST + src.split("/"))


def stage_model(refs, twin=False):
    """-> (Verdict, VFS) for staging `refs` in order; twin=True drops everything flagged hostile."""
    fs = M.VFS(ST_T)
    v = M.Verdict()
    order = [r for r in refs if not r["src"].startswith("producer/")] + \
            [r for r in refs if r["src"].startswith("producer/")]
    for i, ref in enumerate(order):
        if twin and ref.get("hostile"):
            continue
        if v.stopped:
            break
        if ref["kind"] == "extract":
            members = [m for m in ref["members"] if not (twin and m.get("hostile"))]
            for j, m in enumerate(members):
                M.apply_tar_member(fs, m, j, v, members)
                if v.stopped:
                    break
        else:
            r = dict(ref, abs=ref_abs(ref), base=ref["src"].rsplit("/", 1)[-1])
            if r["base"] in ("..", "."):
                # a reference whose file part ends in `..` / `.`: whether the staged entry is named after the
                # normalised path (harmless) or after the last component (the parent of the working directory - it
                # must then be refused) is not stated; either way nothing outside may be created, replaced or removed
                v.odd.append("dotdot-reference")
                break
            before = v.escape
            M.apply_staged_ref(fs, r, i, v)
            if v.escape and not before and ref["kind"] == "copy":
                v.escape = "copy-through-link"
    return v, fs


def stage_strings(refs):
    names, links = [], []
    for ref in refs:
        if ref["kind"] == "extract":
            for m in ref["members"]:
                names.append(m["n"])
                if m["t"] == "s":
                    links.append(m["l"])
                elif m["t"] == "h":
                    names.append(m["l"])
        elif ref.get("tree"):
            def rec(t):
                if t["type"] == "link":
                    links.append(t["target"])
                for s in t.get("entries", {}).values():
                    rec(s)
            rec(ref["tree"])
    return names, links


def write_ref_sources(refs, root, data_dir, producer_dir, twin=False):
    for ref in refs:
        where = producer_dir if ref["src"].startswith("producer/") else data_dir
        if where is None:
            continue
        path = os.path.normpath(os.path.join(where, ref.get("tree_at", ref["src"]).split("/", 1)[1]))
        if ref["kind"] == "extract":
            members = [m for m in ref["members"] if not (twin and m.get("hostile"))]
            os.makedirs(os.path.dirname(path), exist_ok=True)
            with open(path, "wb") as f:
                f.write(A.build_tar(members, root, ref.get("compress", ""), ref.get("fmt", "pax")))
        elif not twin:
            A.write_tree(path, ref["tree"], root)


def check_stage(case, ctx: Ctx):
    import experiment.model.data
    import experiment.model.errors as E
    import experiment.model.storage
    from ..gen import pkg

    refs = case["refs"]
    verdict, fs = stage_model(refs)
    names, links = stage_strings(refs)
    guard_budget(names, links, MAX_CLIMB)

    root = make_sandbox(ctx)
    try:
        flowir = {"components": [
            {"name": "producer", "stage": 0, "command": {"executable": "echo", "arguments": "hi"}},
            {"name": "consumer", "stage": 0, "command": {"executable": "echo", "arguments": "hi"},
             "references": [ref_string(r) for r in refs]}]}
        pkgs = os.path.join(root, *PAD, "pkgs")
        os.makedirs(pkgs)
        package_path = pkg.write_package(flowir, pkgs, name="p")
        write_ref_sources(refs, root, os.path.join(package_path, "data"), None)
        loc = os.path.join(root, *ST_LOC)
        os.makedirs(loc)
        with shadow_inside(root):
            package = experiment.model.storage.ExperimentPackage.packageFromLocation(package_path)
            exp = experiment.model.data.Experiment.experimentFromPackage(package, location=loc, timestamp=False)
        job = exp.findJob(0, "consumer")
        target = os.path.realpath(job.workingDirectory.path)
        if target != os.path.join(root, *ST_T):
            raise HarnessError("unexpected working directory %s" % target)
        producer_dir = exp.findJob(0, "producer").workingDirectory.path
        write_ref_sources(refs, root, None, producer_dir)
        with open(os.path.join(root, *ST_INST, "stages", "stage0", "sib.txt"), "w") as f:
            f.write("SIBLING")

        exclude = ["/".join(ST_T), "shadow"]
        before = FS.snapshot(root, exclude)
        outcome, err = "accepted", None
        try:
            job.stageIn()
        except E.DataReferenceCouldNotStageError as e:
            outcome, err = "rejected", e
        except Exception as e:                                  # noqa
            outcome, err = "other:" + type(e).__name__, e
        changes = FS.diff(before, FS.snapshot(root, exclude))

        kind = verdict.kind
        mech = verdict.escape
        ctx.rec.label("stage:verdict:" + kind, "stage:outcome:" + outcome.split(":")[0])
        if mech:
            ctx.rec.label("stage:mech:" + mech)
            ctx.rec.cover("mechanisms", "stage:" + mech)
        for t in sorted(set(case.get("tags", []) + [t for r in refs for t in r.get("tags", [])])):
            ctx.rec.label("stage:tech:" + t)
            ctx.rec.cover("techniques", "stage:" + t)
        summary = {"refs": [ref_string(r) for r in refs],
                   "members": [[("%s %s" % (m["t"], m["n"])) + (" -> " + m["l"] if "l" in m else "")
                                for m in r["members"]] for r in refs if r["kind"] == "extract"],
                   "verdict": kind, "mechanism": mech, "outcome": outcome}
        if changes:
            sig = SIG.get(mech, "outside-modified-unexplained@stage") if kind == "escape" else \
                "outside-modified-unexplained@stage"
            raise Violation(sig, "staging %s wrote outside the working directory (%s; model: %s/%s): %s" % (
                summary["refs"], outcome, kind, mech, describe(changes)) + " members=%s" % summary["members"])
        if kind == "escape":
            if outcome == "accepted":
                raise Violation(SIG.get(mech, "hostile-input-accepted@stage"),
                                "offending input accepted without a staging error (%s via %s) members=%s" % (
                                    summary["refs"], mech, summary["members"]))
            if outcome != "rejected":
                raise Violation("hostile-input-wrong-error@stage",
                                "offending input (%s) raised %s instead of DataReferenceCouldNotStageError: %s" % (
                                    mech, outcome, str(err)[:300]))
            ctx.rec.nt(["stage", case], summary, group="stage:" + SIG.get(mech, mech))
        elif kind == "clean":
            if outcome != "accepted":
                raise Violation("benign-input-rejected@stage", "clean input %s members=%s was not staged: %s %s" % (
                    summary["refs"], summary["members"], outcome, str(err)[:300]))
            bad = A.check_expected(target, M.expected_entries(fs), root)
            if bad:
                raise Violation("benign-input-misstaged@stage", "clean input %s members=%s: %s" % (
                    summary["refs"], summary["members"], "; ".join(bad[:5])))
        elif outcome.startswith("other:"):
            ctx.rec.label("stage:either-other-exception:" + outcome[6:])

        # benign twin in the same sandbox (same Job object, working directory emptied, archives rewritten)
        if any(m.get("hostile") for r in refs if r["kind"] == "extract" for m in r["members"]) and \
                not any(r.get("hostile") for r in refs):
            tv, tfs = stage_model(refs, twin=True)
            if tv.kind == "clean":
                clear_dir(target)
                write_ref_sources(refs, root, os.path.join(root, *ST_INST, "data"), producer_dir, twin=True)
                before = FS.snapshot(root, exclude)
                try:
                    job.stageIn()
                except Exception as e:                          # noqa
                    raise Violation("benign-input-rejected@stage",
                                    "benign twin of %s (hostile members removed) was not staged: %s %s" % (
                                        summary["members"], type(e).__name__, str(e)[:300]))
                changes = FS.diff(before, FS.snapshot(root, exclude))
                if changes:
                    raise Violation("outside-modified-unexplained@stage", "benign twin of %s wrote outside: %s" % (
                        summary["members"], describe(changes)))
                bad = A.check_expected(target, M.expected_entries(tfs), root)
                if bad:
                    raise Violation("benign-input-misstaged@stage", "benign twin of %s: %s" % (
                        summary["members"], "; ".join(bad[:5])))
                ctx.rec.label("stage:twin-staged")
            else:
                ctx.rec.label("stage:twin-not-clean")
    finally:
        shutil.rmtree(root, ignore_errors=True)


# ------------------------------------------------------------------------------------------------------------
# sub `deploy`
DEPLOY_SOURCES = {
    "s1": {"type": "dir", "entries": {"a.txt": {"type": "file", "content": "A"},
                                      "sub": {"type": "dir", "entries": {"b.txt": {"type": "file", "content": "B"}}}}},
    "s2": {"type": "dir", "entries": {"c.txt": {"type": "file", "content": "C"},
                                      "lnk": {"type": "link", "target": "c.txt"}}},
    "s3": {"type": "dir", "entries": {}},
    # a folder meant for conf: the names deployment writes the workflow definition to are links to files elsewhere
    "s4": {"type": "dir", "entries": {"flowir_package.yaml": {"type": "link", "target": "../s1/a.txt"},
                                      "dsl.yaml": {"type": "link", "target": "../s2/c.txt"},
                                      "notes.txt": {"type": "file", "content": "N"}}},
}
DP_SRC = PAD + ["pkgsrc"]


def deploy_model(entries, target, twin=False):
    fs = M.VFS(target)
    v = M.Verdict()
    seen = set()
    for i, e in enumerate(entries):
        if twin and e.get("hostile"):
            continue
        if v.stopped:
            break
        if e["key"] in seen:            # a dict cannot hold the same key twice: generator keeps keys unique
            raise HarnessError("duplicate manifest key %r" % e["key"])
        seen.add(e["key"])
        if _top(e["key"]) in RESERVED_KEYS:
            # folders that deployment itself writes into (conf receives the workflow definition): what the instance
            # then contains is not modelled, only the no-write-outside oracle applies
            v.odd.append("reserved-key")
            continue
        src_abs = "{ROOT}/" + "/".join(DP_SRC + [e["src"]])
        M.apply_manifest_entry(fs, e, i, v, DEPLOY_SOURCES[e["src"]], src_abs)
        if v.escape == "via-copied-link":
            v.escape = "via-copied-link@deploy"
    return v, fs


def manifest_dict(entries, root, twin=False):
    out = {}
    for e in entries:
        if twin and e.get("hostile"):
            continue
        src = os.path.join(root, *DP_SRC, e["src"]) if e.get("abs_src") else e["src"]
        if e.get("method"):
            src = "%s:%s" % (src, e["method"])
        out[A.concrete(e["key"], root)] = src
    return out


def run_deploy(case, root, location_rel, twin=False):
    """-> (outcome, exception); deploys into root/<location_rel>/inst.instance"""
    import experiment.model.errors as E
    import experiment.model.storage as S
    import yaml
    wf = os.path.join(root, *DP_SRC, "wf.yaml")
    man = manifest_dict(case["entries"], root, twin)
    loc = os.path.join(root, *location_rel)
    rejections = (E.FlowIRManifestException, E.ExperimentInvalidConfigurationError, E.PackageCreateError,
                  E.InstanceCreateError)
    try:
        with shadow_inside(root):
            if case["entry"] == "expand":
                package = S.ExperimentPackage.packageFromLocation(wf)
                package.manifest_update(man)
                rejections = rejections + (ValueError,)
                package.expandPackageToDirectory(os.path.join(loc, "inst.instance"))
            else:
                if case.get("via") == "file":
                    arg = os.path.join(root, *DP_SRC, "manifest-twin.yaml" if twin else "manifest.yaml")
                    with open(arg, "w") as f:
                        yaml.safe_dump(man, f, sort_keys=False)
                else:
                    arg = man
                package = S.ExperimentPackage.packageFromLocation(wf, manifest=arg)
                if case["entry"] == "experiment":
                    # the whole deployment: instance directory, then stage / component working directories and inputs
                    import experiment.model.data as D
                    D.Experiment.experimentFromPackage(
                        package, location=loc, timestamp=False, instance_name="inst",
                        inputs=[os.path.join(root, *DP_SRC, "s1", "a.txt")] if case.get("with_input") else None,
                        createApplicationLinks=False, createVirtualEnvLinks=False)
                else:
                    S.ExperimentInstanceDirectory.newInstanceDirectory(loc, package, stamp=False, name="inst")
    except rejections as e:
        return "rejected", e
    except Exception as e:                                      # noqa
        return "other:" + type(e).__name__, e
    return "accepted", None


def check_deploy(case, ctx: Ctx):
    entries = case["entries"]
    verdict, fs = deploy_model(entries, DP_T)
    guard_budget([e["key"] for e in entries], [], len(DP_T) - 1)
    for e in entries:
        if _top(e["key"]) in RESERVED_KEYS and "reserved-key" not in case.get("tags", []):
            raise HarnessError("reserved manifest key generated: %r" % e["key"])

    root = make_sandbox(ctx)
    try:
        src = os.path.join(root, *DP_SRC)
        os.makedirs(src)
        with open(os.path.join(src, "wf.yaml"), "w") as f:
            f.write("components:\n- name: hello\n  command:\n    executable: echo\n    arguments: hi\n")
        for name, tree in DEPLOY_SOURCES.items():
            A.write_tree(os.path.join(src, name), tree, root)
        for w in ("w", "w2"):
            os.makedirs(os.path.join(root, *PAD, w))
        if case.get("via") == "file":           # manifest files are written before the snapshot
            for n in ("manifest.yaml", "manifest-twin.yaml"):
                open(os.path.join(src, n), "w").close()
        exclude = ["/".join(DP_T), "shadow", "/".join(DP_SRC + ["manifest.yaml"]),
                   "/".join(DP_SRC + ["manifest-twin.yaml"])]
        before = FS.snapshot(root, exclude)
        outcome, err = run_deploy(case, root, DP_T[:-1])
        changes = _drop_parent_mtime(FS.diff(before, FS.snapshot(root, exclude)), DP_T)

        kind, mech = verdict.kind, verdict.escape
        ctx.rec.label("deploy:verdict:" + kind, "deploy:outcome:" + outcome.split(":")[0],
                      "deploy:entry:" + case["entry"] + ("/" + case.get("via", "dict") if case["entry"] != "expand" else ""))
        if mech:
            ctx.rec.label("deploy:mech:" + mech)
            ctx.rec.cover("mechanisms", "deploy:" + mech)
        for t in case.get("tags", []):
            ctx.rec.label("deploy:tech:" + t)
            ctx.rec.cover("techniques", "deploy:" + t)
        summary = {"entry": case["entry"], "via": case.get("via"),
                   "manifest": {e["key"]: "%s%s" % (e["src"], ":" + e["method"] if e.get("method") else "")
                                for e in entries},
                   "verdict": kind, "mechanism": mech, "outcome": outcome}
        if changes:
            sig = SIG.get(mech, "outside-modified-unexplained@deploy") if kind == "escape" else \
                "outside-modified-unexplained@deploy"
            raise Violation(sig, "deploying manifest %s (%s) created/modified entries outside the instance directory "
                                 "(%s; model: %s/%s): %s" % (summary["manifest"], case["entry"], outcome, kind, mech,
                                                             describe(changes)))
        if kind == "escape":
            if outcome == "accepted":
                raise Violation(SIG.get(mech, "hostile-input-accepted@deploy"),
                                "offending manifest %s accepted (%s via %s)" % (summary["manifest"], case["entry"], mech))
            if outcome != "rejected":
                raise Violation("hostile-input-wrong-error@deploy",
                                "offending manifest %s raised %s instead of a packaging error: %s" % (
                                    summary["manifest"], outcome, str(err)[:300]))
            ctx.rec.nt(["deploy", case], summary, group="deploy:" + SIG.get(mech, mech))
        elif kind == "clean":
            if outcome != "accepted":
                raise Violation("benign-input-rejected@deploy", "clean manifest %s (%s) was not deployed: %s %s" % (
                    summary["manifest"], case["entry"], outcome, str(err)[:300]))
            expect = M.expected_entries(fs) + [("conf/flowir_package.yaml", "f", None)]
            bad = _check_deployed(os.path.join(root, *DP_T), expect, root)
            if bad:
                raise Violation("benign-input-misdeployed@deploy", "clean manifest %s: %s" % (
                    summary["manifest"], "; ".join(bad[:5])))
        elif outcome.startswith("other:"):
            ctx.rec.label("deploy:either-other-exception:" + outcome[6:])

        if any(e.get("hostile") for e in entries):
            tv, tfs = deploy_model(entries, DP_T2, twin=True)
            if tv.kind == "clean":
                exclude2 = exclude + ["/".join(DP_T2)]
                before = FS.snapshot(root, exclude2)
                outcome, err = run_deploy(case, root, DP_T2[:-1], twin=True)
                if outcome != "accepted":
                    raise Violation("benign-input-rejected@deploy",
                                    "benign twin of manifest %s (hostile keys removed) was not deployed: %s %s" % (
                                        summary["manifest"], outcome, str(err)[:300]))
                changes = _drop_parent_mtime(FS.diff(before, FS.snapshot(root, exclude2)), DP_T2)
                if changes:
                    raise Violation("outside-modified-unexplained@deploy", "benign twin of %s wrote outside: %s" % (
                        summary["manifest"], describe(changes)))
                bad = _check_deployed(os.path.join(root, *DP_T2), M.expected_entries(tfs) +
                                      [("conf/flowir_package.yaml", "f", None)], root)
                if bad:
                    raise Violation("benign-input-misdeployed@deploy", "benign twin of %s: %s" % (
                        summary["manifest"], "; ".join(bad[:5])))
                ctx.rec.label("deploy:twin-deployed")
            else:
                ctx.rec.label("deploy:twin-not-clean")
    finally:
        shutil.rmtree(root, ignore_errors=True)


def _drop_parent_mtime(changes, target):
    """Creating the instance directory itself legitimately updates the mtime of the directory that contains it."""
    parent = "/".join(target[:-1])
    return [c for c in changes if not (c["path"] == parent and c["change"] == "modified" and c["what"] == ["mtime"])]


def _check_deployed(target, expect, root):
    bad = []
    plain = [x for x in expect if x[2] is not None or x[1] != "f"]
    bad += A.check_expected(target, plain, root)
    for rel, kind, payload in expect:
        if kind == "f" and payload is None and not os.path.isfile(os.path.join(target, rel)):
            bad.append("%s: missing" % rel)
    return bad


# ------------------------------------------------------------------------------------------------------------
# generators: bundles of members (each returns a list of member dicts; `i` makes names unique)
def f(name, content=None, hostile=False):
    m = {"t": "f", "n": name, "c": content if content is not None else "content of " + name}
    if hostile:
        m["hostile"] = True
    return m


def d(name, hostile=False, mode=None):
    m = {"t": "d", "n": name}
    if mode is not None:
        m["mode"] = mode
    if hostile:
        m["hostile"] = True
    return m


def s(name, target, hostile=False):
    m = {"t": "s", "n": name, "l": target}
    if hostile:
        m["hostile"] = True
    return m


def h(name, target, hostile=False):
    m = {"t": "h", "n": name, "l": target}
    if hostile:
        m["hostile"] = True
    return m


BENIGN_BUNDLES = [
    lambda i: [f("f%d.txt" % i)],
    lambda i: [f("d1/g%d" % i)],
    lambda i: [d("d1"), f("d1/h%d" % i)],
    lambda i: [d("d1"), s("ln%d" % i, "d1"), f("ln%d/y%d" % (i, i))],
    lambda i: [f("f%d.txt" % i), s("d2/up%d" % i, "../f%d.txt" % i)],
    lambda i: [f("k%d" % i), h("hk%d" % i, "k%d" % i)],
    lambda i: [d("e%d/" % i, mode=0o750)],
    lambda i: [s("self%d" % i, ".")],
    lambda i: [f("d2/sub/deep%d.txt" % i, ""), s("d2/sub/back%d" % i, "../../d2/sub/deep%d.txt" % i)],
    lambda i: [d("shared"), f("shared/inner%d" % i)],
]

# where a climb of k levels above the working directory ends, and names that exist / can be created there
LANDINGS = {
    # (the last two: siblings whose NAME extends the working directory's name - a string-prefix test calls them "inside")
    1: ["evil.txt", "producer/evil.txt", "sib.txt", "nd/evil.txt", "consumer.old/evil.txt", "consumer2/evil.txt"],
    2: ["evil.txt", "stage0/evil.txt"],
    3: ["evil.txt", "data/evil.txt", "conf/evil.txt", "nd/evil.txt"],
    4: ["evil.txt", "p.instance/evil.txt", "p.instance.old/evil.txt"],
    5: ["outside/evil.txt", "outside/sentinel.txt", "outside/dir/evil.txt", "evil.txt", "outside/nd/evil.txt"],
}
DIR_LANDINGS = {1: ["", "producer", "consumer.old"], 2: ["", "stage0"], 3: ["", "data", "conf"], 4: [""],
                5: ["outside", "outside/dir", ""]}
PREFIXES = ["", "./", "d1/../", "d1/./../", "nodir/../"]
ABS_OUT = "{ROOT}/" + OUT


def hostile_bundles(tech, k, land, i, variant=0):
    """-> list of parts; each part is a list of members that stays contiguous; parts keep their relative order."""
    dl = DIR_LANDINGS[k][land % len(DIR_LANDINGS[k])]
    fl = LANDINGS[k][land % len(LANDINGS[k])]
    updir = (up(k) + dl).rstrip("/")
    if tech == "dotdot-file":
        pre = PREFIXES[variant % len(PREFIXES)]
        parts = [[f(pre + up(k) + fl, "EVIL", hostile=True)]]
        if pre.startswith("d1") :
            parts.insert(0, [d("d1")])
        return parts
    if tech == "dotdot-dir":
        return [[d(updir if variant % 2 == 0 else up(k) + "newdir%d" % i, hostile=True, mode=0o700)]]
    if tech == "absolute-file":
        name = [ABS_OUT + "/evil.txt", ABS_OUT + "/sentinel.txt", "{ROOT}/p1/evil.txt",
                "{ROOT}/" + "/".join(ST_INST) + "/data/evil.txt"][variant % 4]
        return [[f(name, "EVIL", hostile=True)]]
    if tech == "symlink-then-below":
        tgt = updir if variant % 3 else ("{ROOT}/" + "/".join(ST_T[:len(ST_T) - k]) + ("/" + dl if dl else ""))
        below = [f("L%d/evil.txt" % i, "EVIL", hostile=True), d("L%d/newdir" % i, hostile=True),
                 s("L%d/slink" % i, "whatever", hostile=True), f("L%d/nd/deep/evil.txt" % i, "EVIL", hostile=True)]
        return [[s("L%d" % i, tgt, hostile=True)], [below[variant % len(below)]]]
    if tech == "symlink-then-same-name":
        tgt = up(5) + "outside/sentinel.txt" if variant % 2 == 0 else ABS_OUT + "/sentinel.txt"
        return [[s("S%d" % i, tgt, hostile=True)], [f("S%d" % i, "EVIL", hostile=True)]]
    if tech == "symlink-chain":
        # A -> d1 (inside), B -> A/../<up> (outside through a link), write below B
        return [[d("d1"), s("A%d" % i, "d1", hostile=True)],
                [s("B%d" % i, "A%d/../%s" % (i, updir), hostile=True)],
                [f("B%d/evil.txt" % i, "EVIL", hostile=True)]]
    if tech == "dot-link":
        # P -> .  then  P/../x : textual normalisation says "inside", the kernel says "outside"
        if variant % 2 == 0:
            return [[s("P%d" % i, ".", hostile=True)], [f("P%d/../evil.txt" % i, "EVIL", hostile=True)]]
        return [[d("d1"), s("d1/P%d" % i, "..", hostile=True)], [f("d1/P%d/../sib.txt" % i, "EVIL", hostile=True)]]
    if tech == "deep-link":
        # link inside a sub-directory whose relative target only escapes because of where the link lives
        return [[d("d1"), s("d1/Q%d" % i, up(k + 1) + dl, hostile=True)], [f("d1/Q%d/evil.txt" % i, "EVIL", hostile=True)]]
    if tech == "hardlink-outside":
        parts = [[h("H%d" % i, up(5) + "outside/sentinel.txt", hostile=True)]]
        if variant % 2:
            parts.append([f("H%d" % i, "EVIL", hostile=True)])
        return parts
    if tech == "hardlink-via-link":
        return [[s("HL%d" % i, up(5) + "outside", hostile=True)], [h("HH%d" % i, "HL%d/sentinel.txt" % i, hostile=True)]]
    raise ValueError(tech)


AMBIG_BUNDLES = [
    lambda i, k: [d("d1"), f("d1/../amb%d" % i)],
    lambda i, k: [f("../consumer/re%d" % i)],
    lambda i, k: [s("ow%d" % i, up(k))],
    lambda i, k: [s("ow%d" % i, ABS_OUT)],
    lambda i, k: [f("./dot%d" % i)],
    lambda i, k: [f("in%d" % i), s("absin%d" % i, "{ROOT}/" + "/".join(ST_T) + "/in%d" % i)],
    lambda i, k: [f("{ROOT}/" + "/".join(ST_T) + "/absname%d" % i)],
    lambda i, k: [f("x%d" % i), d("x%d" % i)],
]

TAR_TECHS = ["dotdot-file", "dotdot-dir", "absolute-file", "symlink-then-below", "symlink-then-same-name",
             "symlink-chain", "dot-link", "deep-link", "hardlink-outside", "hardlink-via-link"]
REF_TECHS = ["staged-link-dir", "staged-link-file", "copied-link", "copy-through-link", "copy-dir-onto-link",
             "cross-archive"]

SIDE_TREES = {
    "dir": {"type": "dir", "entries": {"orig.txt": {"type": "file", "content": "ORIG"}}},
    "file": {"type": "file", "content": "ORIGFILE"},
    "dir-with-link": {"type": "dir", "entries": {"keep.txt": {"type": "file", "content": "K"},
                                                 "out": {"type": "link", "target": ABS_OUT},
                                                 "rel": {"type": "link", "target": "keep.txt"}}},
}


def merge_parts(order, groups):
    """groups: list of lists of parts; `order` = list of group indices (one per part) giving the interleaving."""
    pos = [0] * len(groups)
    out = []
    for g in order:
        if pos[g] < len(groups[g]):
            out.extend(copy.deepcopy(groups[g][pos[g]]))
            pos[g] += 1
    for g, parts in enumerate(groups):
        while pos[g] < len(parts):
            out.extend(copy.deepcopy(parts[pos[g]]))
            pos[g] += 1
    return out


@st.composite
def archive_members(draw, n_benign, hostile_groups, start=0):
    groups = [[BENIGN_BUNDLES[draw(st.integers(0, len(BENIGN_BUNDLES) - 1))](start + j)] for j in range(n_benign)]
    groups += hostile_groups
    slots = [g for g, parts in enumerate(groups) for _ in parts]
    order = draw(st.permutations(slots)) if slots else []
    return merge_parts(order, groups)


@st.composite
def stage_case(draw):
    mode = draw(st.sampled_from(["tar", "tar", "tar", "ref", "benign", "ambiguous"]))
    fmt = {"compress": draw(st.sampled_from(["", "", "gz"])), "fmt": draw(st.sampled_from(["pax", "gnu"]))}
    nb = draw(st.integers(0, 3))
    refs, tags = [], []
    if mode == "tar":
        n = draw(st.integers(1, 2))
        groups = []
        for j in range(n):
            tech = draw(st.sampled_from(TAR_TECHS))
            k = draw(st.sampled_from([1, 1, 3, 5, 5, 2, 4]))
            groups.append(hostile_bundles(tech, k, draw(st.integers(0, 5)), 10 + j, draw(st.integers(0, 5))))
            tags.append(tech)
        members = draw(archive_members(nb, groups))
        refs.append(dict({"kind": "extract", "src": "data/a0.tar", "members": members, "tags": tags}, **fmt))
        if draw(st.booleans()):
            refs.append(dict({"kind": "extract", "src": "data/a1.tar",
                              "members": draw(archive_members(draw(st.integers(1, 2)), [], start=20))}, **fmt))
            if draw(st.booleans()):
                refs.reverse()
    elif mode == "benign":
        refs.append(dict({"kind": "extract", "src": "data/a0.tar",
                          "members": draw(archive_members(max(nb, 1), [])), "tags": ["benign"]}, **fmt))
        if draw(st.booleans()):
            where = draw(st.sampled_from(["data", "producer"]))
            kind = draw(st.sampled_from(["link", "copy"]))
            tree = draw(st.sampled_from(sorted(SIDE_TREES)))
            refs.append({"kind": kind, "src": "%s/side" % where, "tree": SIDE_TREES[tree]})
        if draw(st.booleans()):
            refs.append(dict({"kind": "extract", "src": "producer/b.tar",
                              "members": draw(archive_members(1, [], start=30))}, **fmt))
    elif mode == "ambiguous":
        k = draw(st.sampled_from([1, 3, 5]))
        groups = [[AMBIG_BUNDLES[draw(st.integers(0, len(AMBIG_BUNDLES) - 1))](40 + j, k)]
                  for j in range(draw(st.integers(1, 2)))]
        refs.append(dict({"kind": "extract", "src": "data/a0.tar", "members": draw(archive_members(nb, groups)),
                          "tags": ["ambiguous"]}, **fmt))
    else:
        tech = draw(st.sampled_from(REF_TECHS))
        tags.append(tech)
        where = draw(st.sampled_from(["data", "producer"]))
        if tech == "staged-link-dir":
            refs.append({"kind": "link", "src": "%s/shared" % where, "tree": SIDE_TREES["dir"]})
            hm = draw(st.sampled_from([f("shared/evil.txt", "EVIL", True), f("shared/orig.txt", "EVIL", True),
                                       d("shared/newdir", True), s("shared/sl", "x", True)]))
            refs.append(dict({"kind": "extract", "src": "data/a0.tar",
                              "members": draw(archive_members(nb, [[[hm]]])), "tags": tags}, **fmt))
        elif tech == "staged-link-file":
            refs.append({"kind": "link", "src": "%s/shared" % where, "tree": SIDE_TREES["file"]})
            refs.append(dict({"kind": "extract", "src": "data/a0.tar",
                              "members": draw(archive_members(nb, [[[f("shared", "EVIL", True)]]])), "tags": tags}, **fmt))
        elif tech == "copied-link":
            refs.append({"kind": "copy", "src": "%s/dd" % where, "tree": SIDE_TREES["dir-with-link"]})
            hm = draw(st.sampled_from([f("dd/out/evil.txt", "EVIL", True), f("dd/out/sentinel.txt", "EVIL", True),
                                       d("dd/out/newdir", True)]))
            refs.append(dict({"kind": "extract", "src": "data/a0.tar",
                              "members": draw(archive_members(nb, [[[hm]]])), "tags": tags}, **fmt))
        elif tech == "copy-through-link":
            refs.append({"kind": "link", "src": "data/shared", "tree": SIDE_TREES["file"]})
            refs.append({"kind": "copy", "src": "producer/shared", "hostile": True,
                         "tree": {"type": "file", "content": "FROM PRODUCER"}})
            if draw(st.booleans()):
                refs.append(dict({"kind": "extract", "src": "data/a0.tar",
                                  "members": draw(archive_members(max(nb, 1), [])), "tags": tags}, **fmt))
        elif tech == "copy-dir-onto-link":
            refs.append({"kind": "link", "src": "data/shared", "tree": SIDE_TREES["dir"]})
            refs.append({"kind": "copy", "src": "producer/shared", "hostile": True,
                         "tree": {"type": "dir", "entries": {"orig.txt": {"type": "file", "content": "FROM PRODUCER"},
                                                             "more.txt": {"type": "file", "content": "MORE"}}}})
        else:   # cross-archive: the link comes from the first archive, the write below it from the second
            k = draw(st.sampled_from([1, 3, 5]))
            parts = hostile_bundles("symlink-then-below", k, draw(st.integers(0, 5)), 10, draw(st.integers(0, 5)))
            refs.append(dict({"kind": "extract", "src": "data/a0.tar",
                              "members": draw(archive_members(nb, [[parts[0]]])), "tags": tags}, **fmt))
            refs.append(dict({"kind": "extract", "src": "data/a1.tar",
                              "members": draw(archive_members(draw(st.integers(0, 2)), [[parts[1]]], start=20))}, **fmt))
    return {"refs": refs, "tags": tags}


# manifests ------------------------------------------------------------------------------------------------
BENIGN_KEYS = ["bin", "special", "n1/n2", "data", "m1/m2/m3", "hooks", "lib"]
DP_LAND = {1: ["esc", "w2/esc", "nd/esc", "inst.instance.old/esc", "inst.instance2"], 2: ["esc", "outside/esc", "outside/dir/esc", "pkgsrc/s3/esc"]}


def manifest_hostile(tech, k, land, variant):
    """-> list of entries (in order); hostile ones flagged."""
    fl = DP_LAND[k][land % len(DP_LAND[k])]
    method = [None, "copy", "link"][variant % 3]
    if tech == "dotdot-key":
        pre = ["", "./", "a/../", "n1/../"][(variant // 3) % 4]
        ents = [{"key": pre + up(k) + fl, "src": "s1", "method": method, "hostile": True}]
        if pre.startswith("n1"):
            ents.insert(0, {"key": "n1/n2", "src": "s2", "method": "copy"})
        return ents
    if tech == "absolute-key":
        key = ["{ROOT}/" + OUT + "/abs", "{ROOT}/p1/abs", "{ROOT}/" + "/".join(DP_T) + "/absinside"][variant % 3]
        return [{"key": key, "src": "s1", "method": method, "hostile": True}]
    if tech == "below-link-key":
        sub = ["l/sub/deep", "l/new", "l/a.txt/x"][variant % 3]
        return [{"key": "l", "src": "s1", "method": "link", "hostile": True},
                {"key": sub, "src": "s2", "method": [None, "copy", "link"][(variant // 3) % 3], "hostile": True}]
    raise ValueError(tech)


RESERVED_KEYS = ("conf", "input", "stages", "output")


def _top(key):
    """Left-most folder a relative manifest key denotes (./conf, conf/, a/../conf all denote conf)."""
    return os.path.normpath(key).split("/")[0] if not key.startswith(("/", "{")) else key
AMBIG_KEYS = ["a/../b", "./b", "b/", "b//c", "../inst.instance/re", "b/."]
MAN_TECHS = ["dotdot-key", "dotdot-key", "absolute-key", "below-link-key"]


@st.composite
def deploy_case(draw):
    mode = draw(st.sampled_from(["hostile", "hostile", "hostile", "benign", "ambiguous", "reserved"]))
    entry = draw(st.sampled_from(["expand", "instance", "instance"]))
    case = {"entry": entry}
    if entry == "instance":
        case["via"] = draw(st.sampled_from(["dict", "file"]))
    keys = draw(st.lists(st.sampled_from(BENIGN_KEYS), unique=True, min_size=0 if mode != "benign" else 1, max_size=3))
    benign = []
    for key in keys:
        method = draw(st.sampled_from([None, "copy", "copy", "link"]))
        if "/" in key and method == "link":
            method = "copy"
        benign.append({"key": key, "src": draw(st.sampled_from(["s1", "s2", "s3"])), "method": method,
                       "abs_src": draw(st.booleans())})
    if draw(st.booleans()) and any(e["key"] == "bin" and e["method"] != "link" for e in benign):
        benign.append({"key": "bin/extra", "src": "s2", "method": "link"})        # nested link key, parent exists
    tags = []
    special = []
    if mode == "hostile":
        tech = draw(st.sampled_from(MAN_TECHS))
        tags.append(tech)
        special = manifest_hostile(tech, draw(st.sampled_from([1, 2])), draw(st.integers(0, 4)), draw(st.integers(0, 11)))
    elif mode == "reserved":
        # a folder that deployment itself writes into, populated by the manifest - linked from outside in particular
        tags.append("reserved-key")
        special = [{"key": draw(st.sampled_from(["conf", "conf", "./conf", "conf/", "bin/../conf", "input", "output",
                                                 "./input", "stages", "stages", "./stages", "stages/stage0"])),
                    "src": "s1",
                    "method": draw(st.sampled_from(["link", "link", "copy", None])), "abs_src": draw(st.booleans())}]
        if _top(special[0]["key"]) == "conf" and special[0]["method"] != "link" and draw(st.booleans()):
            # conf is copied into the instance, but the place of the workflow definition inside it is a link: a folder
            # that holds such links, or a further manifest entry that links the file name itself
            if draw(st.booleans()):
                special[0]["src"] = "s4"
            else:
                special.append({"key": draw(st.sampled_from(["conf/flowir_package.yaml", "conf/./flowir_package.yaml",
                                                             "conf/dsl.yaml"])),
                                "src": draw(st.sampled_from(["s1/a.txt", "s2/c.txt"])), "method": "link",
                                "abs_src": draw(st.booleans())})
    elif mode == "ambiguous":
        tags.append("ambiguous")
        special = [{"key": draw(st.sampled_from(AMBIG_KEYS)), "src": "s1", "method": draw(st.sampled_from([None, "link"]))}]
    else:
        tags.append("benign")
    if mode == "reserved":
        if _top(special[0]["key"]) != "conf" and draw(st.booleans()):
            # the folders that the rest of the deployment (not expandPackageToDirectory) fills: go all the way
            case["entry"] = "experiment"
            case["via"] = draw(st.sampled_from(["dict", "file"]))
            case["with_input"] = draw(st.booleans())
    have = {e["key"] for e in special}
    benign = [e for e in benign if e["key"] not in have]
    # interleave keeping the order of the special entries
    cut = sorted(draw(st.lists(st.integers(0, len(benign)), min_size=len(special), max_size=len(special))))
    entries = list(benign)
    for off, (c, e) in enumerate(zip(cut, special)):
        entries.insert(c + off, e)
    case["entries"] = entries
    case["tags"] = tags
    return case


# ------------------------------------------------------------------------------------------------------------
# deterministic catalogue
def catalogue():
    cases = []
    base = [BENIGN_BUNDLES[0](0), BENIGN_BUNDLES[3](1)]
    for tech in TAR_TECHS:
        for k in (1, 2, 3, 4, 5):
            if tech in ("symlink-then-same-name", "hardlink-outside", "hardlink-via-link", "absolute-file", "dot-link") \
                    and k != 5:
                continue
            for land in range(max(3, len(LANDINGS[k])) if tech in ("dotdot-file", "dotdot-dir") else 3):
                for variant in range(6 if tech in ("dotdot-file", "symlink-then-below") else 2):
                    parts = hostile_bundles(tech, k, land, 10, variant)
                    for position in (0, 1, 2):
                        groups = [[base[0]], [base[1]], parts]
                        order = {0: [2] * len(parts) + [0, 1], 1: [0] + [2] * len(parts) + [1],
                                 2: [0, 2, 1] + [2] * len(parts)}[position]
                        members = merge_parts(order, groups)
                        cases.append(("stage", {"refs": [{"kind": "extract", "src": "data/a0.tar", "members": members,
                                                          "tags": [tech], "compress": "gz" if position == 1 else "",
                                                          "fmt": "gnu" if position == 2 else "pax"}]}))
    for where in ("data", "producer"):
        for hm in (f("shared/evil.txt", "EVIL", True), f("shared/orig.txt", "EVIL", True), d("shared/newdir", True)):
            cases.append(("stage", {"refs": [{"kind": "link", "src": "%s/shared" % where, "tree": SIDE_TREES["dir"]},
                                             {"kind": "extract", "src": "data/a0.tar", "members": [f("ok.txt"), hm],
                                              "tags": ["staged-link-dir"]}]}))
        cases.append(("stage", {"refs": [{"kind": "link", "src": "%s/shared" % where, "tree": SIDE_TREES["file"]},
                                         {"kind": "extract", "src": "data/a0.tar",
                                          "members": [f("ok.txt"), f("shared", "EVIL", True)],
                                          "tags": ["staged-link-file"]}]}))
        cases.append(("stage", {"refs": [{"kind": "copy", "src": "%s/dd" % where, "tree": SIDE_TREES["dir-with-link"]},
                                         {"kind": "extract", "src": "data/a0.tar",
                                          "members": [f("dd/out/evil.txt", "EVIL", True)], "tags": ["copied-link"]}]}))
    cases.append(("stage", {"refs": [{"kind": "link", "src": "data/shared", "tree": SIDE_TREES["file"]},
                                     {"kind": "copy", "src": "producer/shared", "hostile": True,
                                      "tree": {"type": "file", "content": "FROM PRODUCER"}}]}))
    cases.append(("stage", {"refs": [{"kind": "link", "src": "data/shared", "tree": SIDE_TREES["dir"]},
                                     {"kind": "copy", "src": "producer/shared", "hostile": True,
                                      "tree": {"type": "dir", "entries": {
                                          "orig.txt": {"type": "file", "content": "FROM PRODUCER"}}}}]}))
    for where in ("data", "producer"):
        for tail in ("..", "sub/..", "sub/../..", "."):
            for kind in ("copy", "link"):
                # a reference whose file part ends in `..`: the source exists, the staged name would be `..`
                cases.append(("stage", {"refs": [{"kind": kind, "src": "%s/dd/%s" % (where, tail),
                                                  "tree_at": "%s/dd" % where, "hostile": True,
                                                  "tree": {"type": "dir", "entries": {
                                                      "sub": {"type": "dir", "entries": {
                                                          "b.txt": {"type": "file", "content": "B"}}},
                                                      "a.txt": {"type": "file", "content": "A"}}},
                                                  "tags": ["dotdot-reference"]}]}))
    for k in (1, 3, 5):
        for variant in range(4):
            parts = hostile_bundles("symlink-then-below", k, 0, 10, variant)
            cases.append(("stage", {"refs": [
                {"kind": "extract", "src": "data/a0.tar", "members": [f("ok.txt")] + parts[0], "tags": ["cross-archive"]},
                {"kind": "extract", "src": "data/a1.tar", "members": parts[1] + [f("ok2.txt")]}]}))
    for entry, via in (("expand", None), ("instance", "dict"), ("instance", "file")):
        for key in ("conf", "input", "./conf", "conf/", "bin/../conf"):
            for method in ("link", "copy"):
                c = {"entry": entry, "tags": ["reserved-key"],
                     "entries": [{"key": key, "src": "s1", "method": method, "abs_src": True},
                                 {"key": "bin", "src": "s2", "method": "copy"}]}
                if via:
                    c["via"] = via
                cases.append(("deploy", c))
        for tech in ("dotdot-key", "absolute-key", "below-link-key"):
            for k in (1, 2):
                if tech != "dotdot-key" and k != 1:
                    continue
                for land in range(len(DP_LAND[k]) if tech == "dotdot-key" else 1):
                    for variant in range(12 if tech == "dotdot-key" else 6):
                        ents = manifest_hostile(tech, k, land, variant)
                        for position in (0, 1):
                            benign = {"key": "bin", "src": "s2", "method": "copy"}
                            entries = [benign] + ents if position else ents + [benign]
                            c = {"entry": entry, "entries": copy.deepcopy(entries), "tags": [tech]}
                            if via:
                                c["via"] = via
                            cases.append(("deploy", c))
    return cases


def run_catalogue(ctx: Ctx):
    cases = catalogue()
    n = 0
    for idx, (sub, case) in enumerate(cases):
        if idx % ctx.nshards != ctx.shard or ctx.stop:
            continue
        ctx.rec.evaluations += 1
        n += 1
        try:
            (check_stage if sub == "stage" else check_deploy)(case, ctx)
        except Violation as v:
            if v.sig in ctx.excluded:
                ctx.rec.excluded[v.sig] += 1
                continue
            from ..core import known_open_sigs
            if v.sig in known_open_sigs(ctx.prop):
                v.case, v.sub = case, sub
                ctx.rec.known[v.sig] = v.to_dict()
                ctx.excluded.add(v.sig)
                continue
            v.case, v.sub = case, sub
            ctx.rec.violations.append(v.to_dict())
            ctx.stop = True
            return
    ctx.rec.count("catalogue_cases_total", len(cases) if ctx.shard == 0 else 0)
    ctx.rec.count("catalogue_cases_run", n)


def shard(ctx: Ctx):
    run_catalogue(ctx)
    explore(ctx, "stage", stage_case(), check_stage, ctx.n(1600, 60000), batch=100)
    explore(ctx, "deploy", deploy_case(), check_deploy, ctx.n(1000, 40000), batch=100)


def replay(sub, case, ctx: Ctx):
    {"stage": check_stage, "deploy": check_deploy}[sub or "stage"](case, ctx)
