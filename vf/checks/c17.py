"""C17 — component environments are built only from their declared sources.

sub `graph`      : an in-memory FlowIRExperimentConfiguration + WorkflowGraph (the construction `graphFromFlowIR` performs,
                   but with generated system variables), `WorkflowGraph.environmentForNode(node)` for every component of
                   a generated package, evaluated while the *real* `os.environ` is replaced by the generated launch
                   environment (restored afterwards, always).
sub `experiment` : the same packages written to disk and loaded as a full `Experiment` (package -> instance); the system
                   variables are then exactly the ones the runtime adds itself (INSTANCE_DIR, FLOW_EXPERIMENT_NAME,
                   FLOW_RUN_ID).

Oracle: `vf/model/c17_environment.py` (built from the statement; never calls the code under test).
"""
from __future__ import annotations

import contextlib
import os
import shutil
import uuid

from hypothesis import strategies as st

from ..core import Ctx, Violation, explore
from ..model import c17_environment as M

ID = "C17"
LEVEL = "exploration"
RULE = ("one evaluation = one generated package (platforms default/P[/Q], 0-3 environments whose names are written in "
        "mixed case and defined on default / P / both / neither / only an unrelated platform, DEFAULTS lists, values with "
        "$X / ${X} references to own, launch or unknown variables, 1-4 components selecting nothing / '' / none / "
        "environment / a name in another case, optionally with an interpreter) under a generated launch environment "
        "with planted sentinel variables. Non-trivial = (component, package) pairs where the selected name is defined "
        "on exactly one of the two platforms, or a value of the selected environment references a launch variable, or "
        "it imports launch variables through DEFAULTS; distinct = distinct (platform, selector, interpreter, visible "
        "definitions, launch environment) tuples.")
ASSUMPTIONS = [
    "the default environment ('environment') of a non-default platform is resolved like any named environment "
    "(platform layered over default)",
    "selecting the default environment explicitly by its name ('environment', any case) when the package does not "
    "define it may either raise the unknown-environment error or fall back to the launch environment (the statement "
    "covers only 'selects no environment'; tests/test_command.py::test_auto_generated_default_env asserts the fall-back)",
    "whether text substituted from the environment itself is expanded again from the environment (chains, self "
    "references without DEFAULTS) is not specified: both one-pass and recursive own-first results are accepted",
    "variables whose value is the empty string may be kept or dropped; the DEFAULTS directive may be kept or dropped",
    "an undefined environment may be rejected either when the configuration is validated "
    "(ExperimentInvalidConfigurationError wrapping FlowIREnvironmentUnknown) or by environmentForNode "
    "(FlowIREnvironmentUnknown)",
    "names of system variables, launch variables and environment variables are valid shell identifiers; system "
    "variable names never collide with launch or package variable names (precedence between them is not in the "
    "statement); launch values contain no '$' and no '%'; package values contain no '%' and no '$$'",
    "no two spellings of the same environment name on one platform",
    "the DEFAULTS directive is processed as documented in environmentWithName "
    "(names missing from the launch environment are ignored; a variable that is both listed in DEFAULTS and defined "
    "has references to itself replaced by the launch value)",
]
TIERS = {"quick": {"shards": 8, "budget": 120}, "thorough": {"shards": 16, "budget": 1500}}

PLATFORM = "P"
OTHER = "Q"
ENV_BASES = ["environment", "gnu", "mpi"]
OWN_KEYS = ["A", "B", "C", "PATH", "LD_LIBRARY_PATH", "PYTHONPATH", "L1", "OMP_NUM_THREADS"]
LAUNCH_POOL = ["PATH", "PYTHONPATH", "PYTHONHOME", "LD_LIBRARY_PATH", "L1", "L2", "A", "HOME", "VF_SENTINEL_2"]
SENTINEL = "VF_SENTINEL_1"          # always planted, never referenced or imported
UNKNOWN_VARS = ["NOPE", "UNSET_1"]
SYSTEM_POOL = {"INSTANCE_DIR": "/inst/exp-0.instance", "FLOW_EXPERIMENT_NAME": "exp-0.instance",
               "FLOW_RUN_ID": "0b7c1e9a-run", "VF_SYS": "sysval"}
LITERALS = ["a", "b/c", "/opt/x", "lib", "x.y", "-O2", "1", "/usr/bin", "v_1"]
IDENT = "abcdefghijklmnopqrstuvwxyzABCDEFGHIJKLMNOPQRSTUVWXYZ0123456789_"


# ------------------------------------------------------------------------------------------------------------
# generators
def _spell(draw, name: str) -> str:
    how = draw(st.sampled_from(["lower", "lower", "upper", "cap", "alt", "alt2"]))
    if how == "lower":
        return name
    if how == "upper":
        return name.upper()
    if how == "cap":
        return name.capitalize()
    off = 0 if how == "alt" else 1
    return "".join(c.upper() if (i + off) % 2 else c for i, c in enumerate(name))


@st.composite
def _value(draw, own_keys):
    kind = draw(st.sampled_from(["lit", "lit", "ref", "ref", "ref", "int", "empty"] + ["ref"] * 3))
    if kind == "int":
        return draw(st.sampled_from([0, 1, 16]))
    if kind == "empty":
        return ""
    if kind == "lit":
        return draw(st.sampled_from(LITERALS))
    n = draw(st.integers(1, 3))
    pieces = []
    has_ref = False
    for i in range(n):
        want_ref = draw(st.booleans()) or (i == n - 1 and not has_ref)
        if want_ref:
            has_ref = True
            pool = draw(st.sampled_from(["launch", "launch", "own", "own", "unknown"]))
            if pool == "own" and own_keys:
                name = draw(st.sampled_from(own_keys))
            elif pool == "unknown":
                name = draw(st.sampled_from(UNKNOWN_VARS))
            else:
                name = draw(st.sampled_from(LAUNCH_POOL))
            pieces.append(("ref", name, draw(st.booleans())))
        else:
            pieces.append(("lit", draw(st.sampled_from(LITERALS))))
    out = ""
    prev_bare = False
    for p in pieces:
        if p[0] == "lit":
            text = p[1]
            if prev_bare and text[0] in IDENT:
                text = draw(st.sampled_from(["/", ":", "."])) + text     # keep `$NAME` delimited
            elif out and draw(st.booleans()):
                text = draw(st.sampled_from(["/", ":"])) + text
            out += text
            prev_bare = False
        else:
            if out and not out.endswith(("/", ":")) and draw(st.booleans()):
                out += ":"
            out += ("${%s}" % p[1]) if p[2] else ("$%s" % p[1])
            prev_bare = not p[2]
    return out


@st.composite
def _env_body(draw):
    keys = draw(st.lists(st.sampled_from(OWN_KEYS), min_size=0, max_size=4, unique=True))
    body = {}
    for k in keys:
        body[k] = draw(_value(keys))
    if draw(st.integers(0, 9)) >= 6:
        names = draw(st.lists(st.sampled_from(["PATH", "LD_LIBRARY_PATH", "L1", "L2", "A", "PYTHONPATH", "NOPE",
                                               "VF_SENTINEL_2"]), min_size=1, max_size=3, unique=True))
        body["DEFAULTS"] = ":".join(names)
        if draw(st.booleans()):
            # the documented idiom  PATH: my/path:$PATH  for an imported variable
            k = names[0]
            body[k] = draw(st.sampled_from(["/my/bin:$%s", "${%s}:/my/lib", "$%s", "pre:$%s:post"])) % k
    return body


@st.composite
def case_strategy(draw, max_components=4):
    platform = draw(st.sampled_from(["default", PLATFORM, PLATFORM]))
    sections = {}
    for base in ENV_BASES:
        where = draw(st.sampled_from(["nowhere", "default", "platform", "both", "both", "other"]
                                     if base != "environment" else
                                     ["nowhere", "nowhere", "default", "platform", "both", "other"]))
        targets = {"nowhere": [], "default": ["default"], "platform": [PLATFORM], "both": ["default", PLATFORM],
                   "other": [OTHER]}[where]
        for t in targets:
            sections.setdefault(t, {})[_spell(draw, base)] = draw(_env_body())
    if draw(st.booleans()):
        sections.setdefault("default", {})
    if draw(st.booleans()):
        sections.setdefault(PLATFORM, {})

    launch = {SENTINEL: "sentinel-%d-leak" % draw(st.integers(1, 3))}
    for k in draw(st.lists(st.sampled_from(LAUNCH_POOL), min_size=0, max_size=7, unique=True)):
        launch[k] = "/lv/%s/%d%s" % (k.lower(), draw(st.integers(0, 2)), draw(st.sampled_from(["", ":/lv/bin", "/x"])))
    system = {k: SYSTEM_POOL[k] for k in draw(st.lists(st.sampled_from(sorted(SYSTEM_POOL)), max_size=4, unique=True))}

    comps = []
    for _ in range(draw(st.integers(1, max_components))):
        kind = draw(st.sampled_from(["unset", "empty", "none", "environment", "name", "name", "name", "ghost"]))
        if kind == "unset":
            sel = None
        elif kind == "empty":
            sel = ""
        elif kind == "ghost":
            sel = _spell(draw, "ghost")
        elif kind == "name":
            sel = _spell(draw, draw(st.sampled_from(ENV_BASES[1:])))
        else:
            sel = _spell(draw, kind)
        comps.append({"env": sel, "interp": draw(st.integers(0, 3)) == 3})
    # selectors are case-insensitive: a twin that writes the same selector in lower case must get the same answer
    for idx, c in enumerate(list(comps)):
        if c["env"] and c["env"] != c["env"].lower() and len(comps) < max_components + 2 and draw(st.booleans()):
            comps.append({"env": c["env"].lower(), "interp": c["interp"], "twin_of": idx})
    return {"platform": platform, "envs": sections, "launch": launch, "system": system, "components": comps,
            "validate": draw(st.booleans()), "primitive": draw(st.booleans()),
            "declare_platforms": draw(st.booleans())}


# ------------------------------------------------------------------------------------------------------------
@contextlib.contextmanager
def launch_environment(env):
    """Replace the real process environment (os.environ and the C-level environ) by `env`; always restored."""
    saved = dict(os.environ)
    try:
        os.environ.clear()
        os.environ.update(env)
        yield
    finally:
        os.environ.clear()
        os.environ.update(saved)


def flowir_for(case):
    comps = []
    for i, c in enumerate(case["components"]):
        cmd = {"executable": "echo", "arguments": "hello"}
        if c["env"] is not None:
            cmd["environment"] = c["env"]
        if c["interp"]:
            cmd["interpreter"] = "bash"
        comps.append({"name": "c%d" % i, "stage": 0, "command": cmd})
    doc = {"components": comps}
    envs = {p: {n: dict(b) for n, b in names.items()} for p, names in case["envs"].items()}
    if envs:
        doc["environments"] = envs
    platforms = sorted(set(["default", case["platform"]] + list(envs)))
    if case.get("declare_platforms") or case["platform"] not in envs:
        doc["platforms"] = platforms
    return doc


def _flatten(e, out):
    out.append(e)
    u = getattr(e, "underlyingErrors", None)
    if callable(u):
        try:
            u = u()
        except Exception:
            u = None
    for x in (u or []):
        if isinstance(x, BaseException):
            _flatten(x, out)
    return out


def _expectations(case, system):
    return [M.expected(case["envs"], case["platform"], c["env"], case["launch"], system, c["interp"])
            for c in case["components"]]


def _judge_construct_error(case, exps, exc):
    import experiment.model.errors as E
    flat = _flatten(exc, [])
    unknown = [x for x in flat if isinstance(x, E.FlowIREnvironmentUnknown)]
    if not unknown:
        raise exc                      # not about environments: a generator problem, not a verdict
    may_fail = {e.name for e in exps if e.kind in ("error", "either")}
    for u in unknown:
        if (u.name or "").lower() not in may_fail:
            raise Violation("defined-environment-rejected",
                            "platform %s: validation reports environment %r unknown, but it is visible: sections %r" % (
                                case["platform"], u.name, case["envs"]))
    if not any(e.kind == "error" for e in exps) and not any(e.kind == "either" for e in exps):
        raise exc


def _judge(case, i, exp, outcome, ctx: Ctx, where: str):
    import experiment.model.errors as E
    comp = case["components"][i]
    kind, val = outcome
    tag = "platform=%s selector=%r interpreter=%s" % (case["platform"], comp["env"], comp["interp"])
    if exp.kind == "error":
        if kind == "env":
            raise Violation("undefined-environment-no-error",
                            "%s: environment %r is defined on neither %s nor default (sections %r) but %s returned %r" % (
                                tag, exp.name, case["platform"], case["envs"], where, val))
        if not isinstance(val, E.FlowIREnvironmentUnknown):
            raise Violation("undefined-environment-unexpected-exception",
                            "%s: expected the unknown-environment error, got %s: %s" % (tag, type(val).__name__, val))
        return
    if kind == "exc":
        if isinstance(val, E.FlowIREnvironmentUnknown):
            if exp.kind == "either":
                return
            raise Violation("defined-environment-unknown",
                            "%s: %s raised %s although the environment is visible (source %s); sections %r" % (
                                tag, where, val, exp.source, case["envs"]))
        raise val
    res = M.compare(exp, val, case["launch"])
    if res is None:
        return
    problems, leaks = res
    cause = _layering_cause(case, comp, exp, val)
    if cause:
        sig = cause
    elif leaks:
        sig = "launch-variable-leaks-into-%s-environment" % exp.source
    else:
        kinds = sorted(set(p[0] for p in problems))
        sig = "%s-environment-wrong-%s" % (exp.source, "+".join(kinds))
    raise Violation(sig, "%s (%s): got %r; expected %r; differences %r; leaks %r; sections %r; launch %r" % (
        tag, where, val, exp.describe(), problems, leaks, case["envs"], case["launch"]))


def _layering_cause(case, comp, exp, got):
    """Root-cause classification only (the verdict is already made): does the observed environment match a model in
    which the two platform layers are combined the wrong way?"""
    plat = case["platform"]
    if plat == "default" or exp.source not in ("named", "default-env"):
        return None
    lname = exp.name if exp.source == "named" else M.DEFAULT_ENV
    if M.where_defined(case["envs"], plat, lname) != "both":
        return None
    d_key = [k for k in case["envs"]["default"] if k.lower() == lname][0]
    p_key = [k for k in case["envs"][plat] if k.lower() == lname][0]
    d_env, p_env = case["envs"]["default"][d_key], case["envs"][plat][p_key]
    variants = {
        "platform-environment-replaces-default-environment-instead-of-layering": (None, p_env),
        "default-environment-layered-over-platform-environment": (p_env, d_env),
        "platform-environment-ignored": (d_env, None),
    }
    for sig, (lower, upper) in variants.items():
        alt = {"default": {}, plat: {}}
        if lower is not None:
            alt["default"][lname] = lower
        if upper is not None:
            alt[plat][lname] = upper
        e = M.expected(alt, plat, comp["env"], case["launch"], exp.system, comp["interp"])
        if e.kind != "error" and M.compare(e, got, case["launch"]) is None:
            return sig
    return None


def _record(case, exps, ctx: Ctx, group: str):
    for c, e in zip(case["components"], exps):
        sel = c["env"]
        lname = (sel or "").lower()
        sel_class = ("unset" if sel is None else "empty" if sel == "" else "none" if lname == "none" else
                     "environment" if lname == "environment" else "name")
        spelled = "n/a" if not sel else ("lower" if sel == lname else "mixed-case")
        lookup = lname if sel_class in ("name",) else "environment"
        where = M.where_defined(case["envs"], case["platform"], lookup) if sel_class != "none" else "n/a"
        written = [k for p in ("default", case["platform"]) for k in (case["envs"].get(p) or {}) if k.lower() == lookup]
        ctx.rec.label("platform:" + case["platform"], "selector:" + sel_class, "spelling:" + spelled,
                      "defined:" + where, "expect:" + e.kind + "/" + e.source,
                      "interpreter" if c["interp"] else "plain")
        if any(w != w.lower() for w in written):
            ctx.rec.label("definition-mixed-case")
        if e.kind != "error":
            if e.open_keys:
                ctx.rec.label("has-open-value")
            if e.launch_refs:
                ctx.rec.label("value-references-launch")
            if e.allowed_launch - e.launch_refs and e.source != "launch-fallback":
                ctx.rec.label("imports-via-DEFAULTS-or-searchpath")
        nontrivial = (where in ("default-only", "platform-only") and case["platform"] != "default") or \
                     (e.kind != "error" and (e.launch_refs or (e.source in ("named", "default-env") and e.allowed_launch)))
        if nontrivial:
            visible = {p: {k.lower(): v for k, v in (case["envs"].get(p) or {}).items() if k.lower() == lookup}
                       for p in ("default", case["platform"])}
            key = [case["platform"], sel, c["interp"], visible, case["launch"]]
            ctx.rec.nt(key, {"platform": case["platform"], "selector": sel, "interpreter": c["interp"],
                             "defined": where, "visible": visible, "launch": case["launch"],
                             "expect": e.describe() if e.kind != "error" else "error"}, group=group)


# ------------------------------------------------------------------------------------------------------------
def _run_graph(case):
    import experiment.model.conf as C
    import experiment.model.frontends.flowir as F
    import experiment.model.graph as G
    flowir = flowir_for(case)
    plat = case["platform"]
    prim = case["primitive"]
    with launch_environment(case["launch"]):
        try:
            concrete = F.FlowIRConcrete(flowir, plat, None)
            conf = C.FlowIRExperimentConfiguration(
                concrete=concrete, path=None, is_instance=False, primitive=prim, manifest=None,
                createInstanceFiles=False, updateInstanceFiles=False, variable_substitute=True, platform=plat,
                variable_files=None, system_vars=dict(case["system"]) or None, config_patches=None,
                validate=case["validate"])
            graph = G.WorkflowGraph(configuration=conf, platform=plat, primitive=prim)
        except Exception as e:
            return ("construct-error", e)
        out = []
        for i in range(len(case["components"])):
            try:
                out.append(("env", graph.environmentForNode("stage0.c%d" % i)))
            except Exception as e:
                out.append(("exc", e))
        return ("ok", out)


def _spelling_relation(case, payload, where):
    """payload[i] = ("env", value) | ("exc", exception); value may be a pair (graph answer, specification answer)."""
    def norm(o):
        if o[0] == "exc":
            return ("exc", type(o[1]).__name__)
        v = o[1][0] if isinstance(o[1], tuple) else o[1]
        return ("env", {k: x for k, x in v.items() if k != "FLOW_RUN_ID"})
    for i, c in enumerate(case["components"]):
        j = c.get("twin_of")
        if j is None or i >= len(payload) or j >= len(payload):
            continue
        a, b = norm(payload[j]), norm(payload[i])
        if a != b:
            raise Violation("selector-spelling-changes-result",
                            "%s: selector %r -> %s but the same selector in lower case %r -> %s (platform %s, "
                            "environments %s)" % (where, case["components"][j]["env"], _brief_outcome(a), c["env"],
                                                  _brief_outcome(b), case["platform"], case["envs"]))


def _brief_outcome(o):
    return "raises " + o[1] if o[0] == "exc" else "environment with keys %s" % sorted(o[1])


def check_graph(case, ctx: Ctx):
    exps = _expectations(case, case["system"])
    status, payload = _run_graph(case)
    if status == "ok":
        _spelling_relation(case, payload, "WorkflowGraph.environmentForNode")
    if status == "construct-error":
        _judge_construct_error(case, exps, payload)
        ctx.rec.label("rejected-at-validation")
        _record(case, exps, ctx, "graph")
        return
    for i, (exp, outcome) in enumerate(zip(exps, payload)):
        _judge(case, i, exp, outcome, ctx, "WorkflowGraph.environmentForNode")
    _record(case, exps, ctx, "graph")


# ------------------------------------------------------------------------------------------------------------
def _run_experiment(case, loc):
    from ..gen import pkg
    flowir = flowir_for(case)
    with launch_environment(case["launch"]):
        try:
            exp = pkg.experiment_from_flowir(flowir, loc, platform=case["platform"])
        except Exception as e:
            return ("construct-error", e, None)
        system = {"INSTANCE_DIR": exp.instanceDirectory.location,
                  "FLOW_EXPERIMENT_NAME": exp.instanceDirectory.name}
        out = []
        for i in range(len(case["components"])):
            node = "stage0.c%d" % i
            try:
                a = exp.experimentGraph.environmentForNode(node)
                b = exp.graph.nodes[node]["componentSpecification"].environment
                out.append(("env", (a, b)))
            except Exception as e:
                out.append(("exc", e))
        return ("ok", out, system)


def check_experiment(case, ctx: Ctx):
    loc = ctx.mkdtemp()
    try:
        status, payload, system = _run_experiment(case, loc)
        if status == "construct-error":
            exps = _expectations(case, {})
            _judge_construct_error(case, exps, payload)
            ctx.rec.label("rejected-at-validation")
            _record(case, exps, ctx, "experiment")
            return
        exps = None
        _spelling_relation(case, payload, "Experiment")
        for i, outcome in enumerate(payload):
            if outcome[0] == "env":
                a, b = outcome[1]
                if a != b:
                    raise Violation("component-specification-environment-differs",
                                    "graph.environmentForNode -> %r but ComponentSpecification.environment -> %r" % (a, b))
                # the run id is a fresh uuid: it must be there, be a uuid, and is then compared as given
                rid = a.get("FLOW_RUN_ID")
                try:
                    uuid.UUID(str(rid))
                except Exception:
                    raise Violation("system-variable-missing", "FLOW_RUN_ID is %r in %r" % (rid, a))
                sysv = dict(system, FLOW_RUN_ID=rid)
                outcome = ("env", a)
            else:
                sysv = dict(system, FLOW_RUN_ID="-")
            c = case["components"][i]
            exp_i = M.expected(case["envs"], case["platform"], c["env"], case["launch"], sysv, c["interp"])
            _judge(case, i, exp_i, outcome, ctx, "Experiment...environmentForNode")
            exps = (exps or []) + [exp_i]
        _record(case, exps, ctx, "experiment")
    finally:
        shutil.rmtree(loc, ignore_errors=True)


# ------------------------------------------------------------------------------------------------------------
def shard(ctx: Ctx):
    explore(ctx, "experiment", case_strategy(max_components=3), check_experiment, ctx.n(320, 8000), batch=40)
    explore(ctx, "graph", case_strategy(), check_graph, ctx.n(8000, 200000), batch=500)


def replay(sub, case, ctx: Ctx):
    {"graph": check_graph, "experiment": check_experiment}[sub or "graph"](case, ctx)
