"""C14 — experiment state files are updated atomically and read back faithfully.

Writers (the real code, real objects):
  status    Status.update                                   -> output/status.txt
  output    OutputAgent.process_stage -> updateLogs         -> output/output.txt, output/output.json
  details   StatusMonitor.try_generate_status_details       -> output/status_details.json
  conf      FlowIRExperimentConfiguration.store_unreplicated_flowir_to_disk / _generate_instance_files
                                                            -> conf/flowir_instance.yaml, conf/manifest.yaml
  dowhile   WorkflowGraph.instantiate_dowhile_next_iteration(..., store_flowir_to_disk=True) (same file, the path the
            controller takes after every loop iteration)

Every case is a *history* of 1..6 successive updates with generated values.  After every update the file is loaded
with the repository's loader and compared with the values that were handed to the writer (round trip).  At one step
of the history (`fault_step`) the update is additionally subjected to fault enumeration (vf/fault/inject.py): a
counting pass in a forked child records the write boundaries, then for every boundary and every fault kind the same
update runs in a fresh forked child that dies (os._exit) or gets an OSError exactly there; afterwards each target
file must be byte-equal to the complete previous or the complete new version (or at least load to the same value as
one of them).  `*_rt` sub-checks are the same histories without faults (cheap, many more of them).
"""
from __future__ import annotations

import configparser
import copy
import datetime as _real_datetime
import json
import os
import shutil

from hypothesis import strategies as st

from ..core import Ctx, Violation, explore
from ..fault import fsnap, inject

ID = "C14"
LEVEL = "fault_enumeration"
RULE = ("a case is a history of 1..6 updates of one writer with generated values (error descriptions / key-output "
        "names / status-detail tables / component arguments / manifest entries built from fragments with newlines, "
        "backslashes, '=', quotes, unicode, control characters, leading/trailing blanks). Non-trivial = a fault "
        "(process death or OSError) delivered at a write boundary strictly inside the update (after the first open, "
        "up to and including the last rename/close), counted per distinct (content, step, boundary, kind); or a "
        "round-trip comparison after the 2nd..6th update of a history, counted per distinct (content, step).")
ASSUMPTIONS = [
    "crash model: process death / OSError at Python-level boundaries (open, each write, flush, close, rename, "
    "remove) of the writing module; at a death either nothing buffered has reached the file ('die') or everything "
    "written so far has ('die-flushed'); power loss / page-cache reordering are not modelled",
    "a target file that is not byte-identical to the previous or new version is still accepted when the "
    "repository's loader returns the same value for it as for the previous or the new version (e.g. output.json "
    "re-rendered from an unchanged output.txt); a missing output.json counts as 'no key-outputs'",
    "files other than the named state files (left-over temporary files) are ignored",
    "datetime.now() inside experiment.model.data is replaced by a virtual clock (one second per update) so that the "
    "'new version' is a deterministic function of the case",
    "key-output names are non-empty single-line strings without leading/trailing blanks, never 'DEFAULT' "
    "(configparser's reserved section); file paths of key-outputs use the FlowIR reference alphabet",
    "status values read back are compared at the type they were written with (float('0.5') == 0.5, "
    "datetime.fromisoformat(text) == datetime, str(None)); string values must be identical",
    "component texts placed in flowir_instance.yaml never contain '%(' or ':<letter>' (variable / reference syntax)",
    "for FlowIR documents with many hundred emitter writes the write boundaries are sampled (first 4, last 4, evenly "
    "spaced rest with a per-case offset); all open/flush/close/rename boundaries are always exercised",
]
TIERS = {"quick": {"shards": 8, "budget": 150}, "thorough": {"shards": 16, "budget": 2400}}

FRAGMENTS = ["\n", "\\", "\\n", "\\x41", "=", " ", "  ", "\t", "\r\n", "\r", "é", "ü", "雪", "😀", "'", '"', "#",
             ": ", "%", "a", "Z", "0", "line", "\x00", "\x1b", " ", "\x85", "{", "}", "[", "]", "- ", "&", "*",
             "!", "|", ">", ",", "?", "@", "`", "~", "Traceback (most recent call last):", "/tmp/x.instance", "None"]


def text(max_frags=8, frags=None):
    return st.lists(st.sampled_from(frags or FRAGMENTS), min_size=0, max_size=max_frags).map("".join)


# ------------------------------------------------------------------------------------------------------------
# reporting helpers
def _report(ctx: Ctx, sig: str, msg: str, case):
    """A violation whose signature is an excluded known finding is counted and the check carries on."""
    if sig in ctx.excluded:
        ctx.rec.excluded[sig] += 1
        return
    # Hypothesis now starts shrinking this case: remember which fault failed so that shrink attempts re-run only
    # that fault instead of the whole enumeration (see _shrink_hint)
    ctx.__dict__.setdefault("_c14_hint", {})["last"] = {"sig": sig, "only": case.get("only")}
    raise Violation(sig, msg, case=case)


def _shrink_hint(ctx: Ctx):
    hint = ctx.__dict__.get("_c14_hint", {}).get("last")
    if hint is not None and hint["sig"] in ctx.excluded:        # became a known finding: the search restarted
        ctx.__dict__["_c14_hint"].pop("last", None)
        hint = None
    return hint


def _rt_case(case):
    c = copy.deepcopy(case)
    c["fault_step"] = None
    c.pop("only", None)
    return c


def _short(b, n=160):
    if b is None:
        return "<absent>"
    if isinstance(b, tuple):
        return repr(b)
    r = repr(b)
    return r if len(r) <= n else r[:n // 2] + "...(%d bytes)..." % len(b) + r[-n // 2:]


class Target:
    def __init__(self, label, path, load, absent_value=None):
        self.label = label
        self.path = path
        self.load = load
        self.absent_value = absent_value     # value a missing file stands for (None: nothing)

    def value(self):
        """-> ("absent", v) | ("ok", v) | ("error", text)"""
        if not os.path.lexists(self.path):
            return ("absent", self.absent_value)
        try:
            return ("ok", self.load(self.path))
        except Exception as e:      # noqa: loaders may raise anything on a torn file
            return ("error", "%s: %s" % (type(e).__name__, str(e)[:200]))


def _role(path, targets):
    if not isinstance(path, str):
        return "fd"
    rp = os.path.realpath(path)
    for t in targets:
        if os.path.realpath(t.path) == rp:
            return os.path.basename(t.path)
    return "temporary file"


def _classify_torn(label, target_path, count_ops, fault_ops, fault):
    """Root-cause class of a torn target file, from the recorded operations."""
    rp = os.path.realpath
    tp = rp(target_path)
    for o in count_ops:
        if o["op"] == "open" and rp(o["path"]) == tp:
            return label + "-written-in-place"
    open_paths = set()
    for o in count_ops:
        if o["op"] == "open":
            open_paths.add(o["path"])
        elif o["op"] == "close":
            open_paths.discard(o["path"])
        elif o["op"] in ("rename", "replace") and rp(o["dst"]) == tp and o["path"] in open_paths:
            return label + "-renamed-before-close"
    i, kind = fault
    if kind in ("err", "err-partial") and fault_ops is not None and i < len(fault_ops):
        failed = fault_ops[i]
        if failed["op"] in ("open", "write", "flush", "close"):
            for o in fault_ops[i + 1:]:
                if o["op"] in ("rename", "replace") and o["path"] == failed["path"] and rp(o["dst"]) == tp:
                    return label + "-replaced-after-failed-write"
    return label + "-torn"


def enumerate_faults(ctx: Ctx, case, sub, step, root, scratch, modules, do_update, targets, content_key):
    """Counting pass + one forked run per (boundary, kind). Leaves the disk in the state it found it.
    `root` is the (real) directory holding the target files; it is snapshotted as a whole."""
    subdirs = None
    scratch = os.path.join(scratch, "_vf_child")
    os.makedirs(scratch, exist_ok=True)
    res = os.path.join(scratch, "result.json")
    prev = fsnap.snapshot(root, subdirs)
    prev_vals = {t.label: t.value() for t in targets}
    r = inject.run_child(do_update, modules, None, res)
    if r["status"] != "ok":
        raise RuntimeError("harness: fault-free update failed in the child: %s" % r.get("exc"))
    ops = r["ops"]
    new = fsnap.snapshot(root, subdirs)
    new_vals = {t.label: t.value() for t in targets}
    fsnap.restore(root, prev, subdirs)
    rel = {t.label: os.path.relpath(t.path, root) for t in targets}
    if not any(rel[t.label] in new for t in targets):
        raise RuntimeError("harness: the update wrote none of %s below %s" % (sorted(rel.values()), root))

    only = case.get("only")
    hint = _shrink_hint(ctx)
    if only:
        selected = [(int(only["op"]), only["kind"])]
    elif hint is not None:
        # shrinking: a violation was already found in this search; only re-check the fault that exposed it
        selected = [(int(hint["only"]["op"]), hint["only"]["kind"])] if hint["only"] else []
        ctx.rec.count("shrink_reruns")
    else:
        max_writes = ctx.pick(12, 32) if sub == "dowhile" else ctx.pick(24, 64)
        selected = []
        n_open = 0
        opened_before = []
        for o in ops:
            opened_before.append(n_open)
            if o["op"] == "open":
                n_open += 1
            elif o["op"] == "close":
                n_open -= 1
        for i in inject.select_boundaries(ops, max_writes, int(case.get("phase", 0))):
            for kind in inject.kinds_for(ops[i]["op"], pending_possible=opened_before[i] > 0):
                if kind == "die-flushed" and opened_before[i] == 0:
                    continue
                selected.append((i, kind))
        ctx.rec.count("boundaries_recorded", len(ops))
        ctx.rec.count("boundaries_exercised", len({i for i, _ in selected}))
    first_open = next((i for i, o in enumerate(ops) if o["op"] == "open"), 0)

    for i, kind in selected:
        if i >= len(ops):
            continue
        rr = inject.run_child(do_update, modules, (i, kind), res)
        ctx.rec.count("fault_runs")
        if not rr.get("delivered"):
            raise RuntimeError("harness: fault %r was not delivered (ops differ between runs)" % ((i, kind),))
        after = fsnap.snapshot(root, subdirs)
        opdesc = "%s#%d(%s)" % (ops[i]["op"], i, _role(ops[i]["path"], targets))
        ctx.rec.label("%s:fault:%s@%s" % (sub, kind, ops[i]["op"]), "%s:child:%s" % (sub, rr["status"]))
        for t in targets:
            a, p, n = after.get(rel[t.label]), prev.get(rel[t.label]), new.get(rel[t.label])
            if a == p:
                ctx.rec.label("%s:after-fault:previous" % sub)
                continue
            if a == n:
                ctx.rec.label("%s:after-fault:new" % sub)
                continue
            val = t.value()
            good = [v[1] for v in (prev_vals[t.label], new_vals[t.label]) if v[0] != "error" and v[1] is not None]
            if val[0] != "error" and val[1] is not None and val[1] in good:
                ctx.rec.label("%s:after-fault:same-value-different-bytes" % sub)
                continue
            sig = _classify_torn(t.label, t.path, ops, rr.get("ops"), (i, kind))
            vc = copy.deepcopy(case)
            vc["fault_step"] = step
            vc["only"] = {"op": i, "kind": kind}
            _report(ctx, sig,
                    "%s after fault '%s' at boundary %s of update %d (%d boundaries: %s): file is neither the previous "
                    "nor the new version. previous=%s new=%s after=%s loader=%s" % (
                        rel[t.label], kind, opdesc, step + 1, len(ops),
                        " ".join("%s" % o["op"][0] for o in ops)[:120],
                        _short(p), _short(n), _short(a),
                        (val[0] if val[0] != "error" else val[1]).replace(root, "<dir>")), vc)
        if first_open < i:
            ctx.rec.nt([sub, content_key, step, i, kind],
                       {"writer": sub, "update": step + 1, "boundary": opdesc, "kind": kind,
                        "boundaries": len(ops), "child": rr["status"]}, group=sub)
        fsnap.restore(root, prev, subdirs)
    return ops, new


def _advance(do_update, root, expected_new):
    """Perform the update for real (parent process). With a frozen clock it must reproduce the child's result."""
    do_update()
    if expected_new is not None:
        now = fsnap.snapshot(root)
        bad = [k for k in set(now) | set(expected_new) if now.get(k) != expected_new.get(k) and not _is_temp(k)]
        if bad:
            raise RuntimeError("harness: update is not deterministic between child and parent: %s" % bad)


def _dispose(exp):
    """Experiment instances keep their output directory in a shadow directory under /tmp: remove it."""
    import sys
    try:
        shadow = exp.instanceDirectory.shadowDir
        if shadow is not None:
            shutil.rmtree(shadow.instancePath, ignore_errors=True)
        while exp.instanceDirectory.location in sys.path:       # Experiment.__init__ appends it (hooks)
            sys.path.remove(exp.instanceDirectory.location)
    except Exception:      # noqa
        pass


def _is_temp(rel):
    base = os.path.basename(rel)
    return len(base) == 36 and base.count("-") == 4


# ------------------------------------------------------------------------------------------------------------
# virtual clock for experiment.model.data
class _FrozenMeta(type):
    def __instancecheck__(cls, obj):
        return isinstance(obj, _real_datetime.datetime)


class FrozenDatetime(_real_datetime.datetime, metaclass=_FrozenMeta):
    current = _real_datetime.datetime(2021, 3, 4, 5, 6, 7, 891011)

    @classmethod
    def now(cls, tz=None):
        return FrozenDatetime.current


class _DatetimeProxy:
    datetime = FrozenDatetime

    def __getattr__(self, name):
        return getattr(_real_datetime, name)


BASE_TIME = _real_datetime.datetime(2021, 3, 4, 5, 6, 7, 891011)


class frozen_clock:
    def __enter__(self):
        import experiment.model.data as D
        self.D = D
        self.saved = D.datetime
        D.datetime = _DatetimeProxy()
        FrozenDatetime.current = BASE_TIME
        return self

    def set(self, seconds):
        FrozenDatetime.current = BASE_TIME + _real_datetime.timedelta(seconds=seconds)
        return FrozenDatetime.current

    def __exit__(self, *exc):
        self.D.datetime = self.saved
        return False


# ------------------------------------------------------------------------------------------------------------
# status.txt
STATES = ["initialising", "component_shutdown", "finished", "suspended", "running", "waiting_on_resource", "failed",
          "checking", "waiting_on_output_data_transfer", "Running", "FINISHED"]
EXITS = ["Success", "Failed", "Stopped", "N/A"]
PROGRESS = [0.0, 1.0, 0.5, 0.25, 1 / 3, 0.999, 0.1 + 0.2, 1e-07, 2]
ERR_TEMPLATES = ["", "Unexpected exception reached top level\n.", "Killed by user signal", "StageFailedError ",
                 "[Errno 2] No such file or directory: '", "  ", "\n"]


@st.composite
def status_case(draw, faults: bool):
    n_stages = draw(st.integers(1, 3))
    custom = draw(st.booleans())
    stages = []
    for i in range(n_stages):
        if custom and draw(st.booleans()):
            stages.append(draw(st.sampled_from(["Setup", "Pre process", "Main's", "post=process", "étape", "a\"b"]))
                          + str(i))
        else:
            stages.append("stage%d" % i)
    n = draw(st.integers(1, 6))
    steps = []
    for k in range(n):
        s = {}
        what = draw(st.sampled_from(["keep", "keep", "set", "set", "set", "remove"]))
        if what == "set":
            s["err"] = draw(st.sampled_from(ERR_TEMPLATES)) + draw(text(6)) + draw(st.sampled_from(["", "", " ", "\n"]))
        elif what == "remove":
            s["err"] = None
        if draw(st.booleans()):
            s["stage"] = draw(st.integers(0, n_stages - 1))
            s["sprog"] = draw(st.sampled_from(PROGRESS))
            s["tprog"] = draw(st.sampled_from(PROGRESS))
            s["sstate"] = draw(st.sampled_from(STATES))
            s["estate"] = draw(st.sampled_from(STATES))
        if draw(st.integers(0, 3)) == 0:
            s["exit"] = draw(st.sampled_from(EXITS))
            s["cost"] = draw(st.sampled_from([0, 1, 12.5]))
            s["completed"] = draw(st.booleans())
        if k > 0 and draw(st.integers(0, 4)) == 0:
            s["reload"] = True
        steps.append(s)
    return {"stages": stages, "initial_file": draw(st.booleans()), "steps": steps,
            "fault_step": draw(st.integers(0, n - 1)) if faults else None, "phase": draw(st.integers(0, 63))}


def _escape(s):
    return s.encode("unicode_escape").decode("utf-8")


def _same(written, loaded):
    if isinstance(written, str):
        return loaded == written
    if loaded is None:
        return False
    if written is None:
        return loaded == "None"
    if isinstance(written, list):
        return loaded == written
    if isinstance(written, _real_datetime.datetime):
        try:
            return _real_datetime.datetime.fromisoformat(loaded) == written
        except (ValueError, TypeError):
            return False
    if isinstance(written, bool):
        return loaded == str(written)
    if isinstance(written, (int, float)):
        try:
            return float(loaded) == float(written)
        except (ValueError, TypeError):
            return False
    return loaded == written


def _load_status(path):
    import experiment.model.data as D
    s = D.Status.statusFromFile(path)
    return {k: (v if isinstance(v, (str, list)) else repr(v)) for k, v in s.data.items()}


def _compare_status(ctx, case, model, path, step, n_since_load):
    import experiment.model.data as D
    try:
        loaded = D.Status.statusFromFile(path).data
    except Exception as e:      # noqa
        _report(ctx, "status-unloadable", "status.txt written by update %d cannot be loaded: %r; content %s" % (
            step + 1, e, _short(open(path, "rb").read(), 400)), _rt_case(case))
        return None
    for key in sorted(set(model) | set(loaded)):
        if key not in loaded or key not in model:
            _report(ctx, "status-readback-differs", "after update %d key %r: written %r, read back %r" % (
                step + 1, key, model.get(key, "<not set>"), loaded.get(key, "<missing>")), _rt_case(case))
            continue
        w, l = model[key], loaded[key]
        if _same(w, l):
            continue
        sig = "status-readback-differs"
        if isinstance(w, str) and isinstance(l, str):
            e = w
            for k in range(0, 8):
                if l == e or l == e.strip():
                    sig = "status-error-description-escaped-again" if k > 0 else "status-value-whitespace-stripped"
                    break
                e = _escape(e)
        _report(ctx, sig, "after update %d (%d update(s) by this Status object) %s: written %r, read back %r" % (
            step + 1, n_since_load, key, w, l), _rt_case(case))
    return loaded


def check_status(case, ctx: Ctx):
    import experiment.model.data as D
    d = ctx.mkdtemp()
    try:
        root = os.path.join(d, "inst", "output")
        os.makedirs(root)
        path = os.path.join(root, "status.txt")
        only = case.get("only")
        with frozen_clock() as clock:
            stages = list(case["stages"])
            status = D.Status(path, {}, stages)
            model = dict(D.Status.defaults)
            model["stages"] = stages
            status.setCreated(BASE_TIME)
            model["created-on"] = BASE_TIME
            since_load = 0
            if case["initial_file"]:
                clock.set(0)
                status.update()
                since_load += 1
            target = Target("status", path, _load_status)
            labels = set()
            for k, s in enumerate(case["steps"]):
                if s.get("reload") and os.path.exists(path):
                    status = D.Status.statusFromFile(path)
                    model = {key: v for key, v in status.data.items()}
                    since_load = 0
                    labels.add("status:reload")
                if "err" in s:
                    if s["err"] is None:
                        status.removeErrorDescription()
                        model.pop("error-description", None)
                        labels.add("status:err-removed")
                    else:
                        status.setErrorDescription(s["err"])
                        model["error-description"] = s["err"]
                        e = s["err"]
                        labels.update(x for x, c in (("status:err-newline", "\n" in e), ("status:err-backslash", "\\" in e),
                                                     ("status:err-nonascii", any(ord(ch) > 127 for ch in e)),
                                                     ("status:err-edge-blank", e != e.strip()),
                                                     ("status:err-equals", "=" in e)) if c)
                if "stage" in s:
                    status.setCurrentStage(stages[s["stage"]])
                    status.setStageProgress(s["sprog"])
                    status.setTotalProgress(s["tprog"])
                    status.setStageState(s["sstate"])
                    status.setExperimentState(s["estate"])
                    model.update({"current-stage": stages[s["stage"]], "stage-progress": s["sprog"],
                                  "total-progress": s["tprog"], "stage-state": s["sstate"].lower(),
                                  "experiment-state": s["estate"].lower()})
                if "exit" in s:
                    status.setExitStatus(s["exit"])
                    status.setCost(s["cost"])
                    model.update({"exit-status": s["exit"], "cost": s["cost"]})
                    if s["completed"]:
                        status.setCompleted(BASE_TIME + _real_datetime.timedelta(hours=k + 1))
                        model["completed-on"] = BASE_TIME + _real_datetime.timedelta(hours=k + 1)
                now = clock.set(k + 1)
                model["updated"] = now
                model["updated-on"] = now
                expected_new = None
                if case.get("fault_step") == k:
                    _, expected_new = enumerate_faults(
                        ctx, case, "status", k, root, d, [D], status.update, [target],
                        [case["stages"], case["initial_file"], case["steps"][:k + 1]])
                _advance(status.update, root, expected_new)
                since_load += 1
                if not only:
                    _compare_status(ctx, case, model, path, k, since_load)
                    if k >= 1:
                        ctx.rec.nt(["status-rt", case["stages"], case["initial_file"], case["steps"][:k + 1]],
                                   {"writer": "status", "updates": k + 1, "last": s}, group="status-rt")
            ctx.rec.label("status:updates=%d" % len(case["steps"]), *sorted(labels))
    finally:
        shutil.rmtree(d, ignore_errors=True)


# ------------------------------------------------------------------------------------------------------------
# output.txt / output.json
NAME_FRAGS = ["a", "B", "Results", "0", "_", "-", ".", " x", "é", "雪", "%", ";", "#", "=", ":", "[", "]", "'", '"', "\\",
              "/", "(", ")", "😀", ",", "default"]
FILE_NAMES = ["out.txt", "results.csv", "a-b_c.0", "d/e.txt", "x", "outdir"]        # "outdir" is a directory


@st.composite
def output_case(draw, faults: bool):
    n_keys = draw(st.integers(1, 3))
    names, keys = [], []
    for i in range(n_keys):
        name = draw(st.lists(st.sampled_from(NAME_FRAGS), min_size=1, max_size=4).map("".join)).strip()
        if not name or name in names or name == "DEFAULT":
            name = "key%d" % i + name
        names.append(name)
        multi = draw(st.booleans())
        keys.append({"name": name, "file": draw(st.sampled_from(FILE_NAMES)), "dir": False,
                     "stages": [0, 1] if multi else [draw(st.integers(0, 1))],
                     "method": draw(st.sampled_from(["copy", "ref"]))})
    for k in keys:
        k["dir"] = k["file"] == "outdir"
    n = draw(st.integers(1, 6))
    steps = [{"stage": draw(st.integers(0, 1)), "mtime": draw(st.integers(0, 10 ** 6))} for _ in range(n)]
    return {"keys": keys, "steps": steps, "fault_step": draw(st.integers(0, n - 1)) if faults else None,
            "phase": draw(st.integers(0, 63))}


def _output_flowir(keys):
    comps = [{"name": "w", "stage": s, "command": {"executable": "echo", "arguments": "hi"}} for s in (0, 1)]
    output = {}
    for k in keys:
        if len(k["stages"]) == 2:
            output[k["name"]] = {"data-in": "w/%s:%s" % (k["file"], k["method"]), "stages": [0, 1]}
        else:
            output[k["name"]] = {"data-in": "stage%d.w/%s:%s" % (k["stages"][0], k["file"], k["method"])}
    return {"components": comps, "output": output}


def _load_ini(path):
    cfg = configparser.ConfigParser()
    with open(path) as f:
        cfg.read_file(f)
    return {s: dict(cfg.items(s)) for s in cfg.sections()}


def _load_output_json(path):
    import experiment.model.data as D
    with open(path) as f:
        doc = json.load(f)
    D.Experiment._parse_outputs_file(path)          # the repository's own consumer of output.json must accept it
    return doc


def check_output(case, ctx: Ctx):
    import experiment.runtime.output as O
    from ..gen import pkg
    d = ctx.mkdtemp()
    exp = None
    try:
        exp = pkg.experiment_from_flowir(_output_flowir(case["keys"]), d)
        root = exp.instanceDirectory.location
        for k in case["keys"]:
            for s in k["stages"]:
                p = os.path.join(root, "stages", "stage%d" % s, "w", k["file"])
                if k["dir"]:
                    os.makedirs(p, exist_ok=True)
                else:
                    os.makedirs(os.path.dirname(p), exist_ok=True)
                    with open(p, "w") as f:
                        f.write("x")
        agent = O.OutputAgent(exp)
        out = os.path.realpath(agent.outputDir.path)
        targets = [Target("output-txt", os.path.join(out, "output.txt"), _load_ini),
                   Target("output-json", os.path.join(out, "output.json"), _load_output_json, absent_value={})]
        model = {}
        only = case.get("only")
        for i, s in enumerate(case["steps"]):
            stage = s["stage"]
            mtime = 1600000000.0 + s["mtime"] / 8.0
            for k in case["keys"]:
                if stage in k["stages"]:
                    p = os.path.join(root, "stages", "stage%d" % stage, "w", k["file"])
                    os.utime(p, (mtime, mtime))
                    mtime = os.path.getmtime(p)          # whatever granularity the scratch file system keeps
                    m = model.setdefault(k["name"], {"version": 0})
                    m.update({"version": m["version"] + 1, "filepath": "stages/stage%d/w/%s" % (stage, k["file"]),
                              "filename": os.path.basename(k["file"]), "creationtime": mtime,
                              "final": "yes" if stage == max(k["stages"]) else "no", "production": "yes"})
            expected_new = None
            update = (lambda st_=stage: agent.process_stage(st_))
            if case.get("fault_step") == i:
                _, expected_new = enumerate_faults(ctx, case, "output", i, out, d, [O], update, targets,
                                                   [case["keys"], case["steps"][:i + 1]])
            _advance(update, out, expected_new)
            if only:
                continue
            # round trip
            for t in targets:
                val = t.value()
                if val[0] == "error":
                    _report(ctx, t.label + "-unloadable", "%s written by update %d cannot be loaded: %s; content %s" % (
                        os.path.basename(t.path), i + 1, val[1], _short(open(t.path, "rb").read(), 400)), _rt_case(case))
                    continue
                doc = val[1] or {}
                diffs = []
                if sorted(doc) != sorted(model):
                    diffs.append("key-outputs written %r, read back %r" % (sorted(model), sorted(doc)))
                for name in model:
                    got = doc.get(name)
                    if got is None:
                        continue
                    want = dict(model[name])
                    st_ = agent.dataReferences[name]["status"]
                    want["description"], want["type"] = st_["description"], st_["type"]
                    for field, w in want.items():
                        g = got.get(field.lower())
                        try:
                            ok = (float(g) == float(w)) if field in ("version", "creationtime") else (g == str(w))
                        except (TypeError, ValueError):
                            ok = False
                        if not ok:
                            diffs.append("%s.%s written %r, read back %r" % (name, field, w, g))
                if diffs:
                    _report(ctx, t.label + "-readback-differs", "after update %d %s: %s" % (
                        i + 1, os.path.basename(t.path), "; ".join(diffs[:4])), _rt_case(case))
            if i >= 1:
                ctx.rec.nt(["output-rt", case["keys"], case["steps"][:i + 1]],
                           {"writer": "output", "updates": i + 1, "names": [k["name"] for k in case["keys"]]},
                           group="output-rt")
        names = "".join(k["name"] for k in case["keys"])
        ctx.rec.label("output:updates=%d" % len(case["steps"]), "output:keys=%d" % len(case["keys"]),
                      *(["output:name-nonascii"] if any(ord(c) > 127 for c in names) else []),
                      *(["output:name-ini-special"] if any(c in names for c in "%;#=:[]") else []),
                      *(["output:nothing-produced"] if not model else []))
    finally:
        _dispose(exp)
        shutil.rmtree(d, ignore_errors=True)


# ------------------------------------------------------------------------------------------------------------
# status_details.json
CSV_FRAGS = ["; ", "\n", "stage0.c", "finished", "1.5", "None", "é", "雪", "\"", "'", "\\", ",", " ", "😀", "\t", "=", "%"]


@st.composite
def details_case(draw, faults: bool):
    n = draw(st.integers(1, 6 if not faults else 4))
    steps = []
    for _ in range(n):
        doc = {}
        for stage in draw(st.lists(st.integers(0, 3), min_size=1, max_size=2, unique=True)):
            doc[str(stage)] = {}
            for engine in draw(st.lists(st.sampled_from(["engine", "repeatingEngine"]), min_size=1, max_size=2,
                                        unique=True)):
                doc[str(stage)][engine] = {"componentStates": "reference; state\n" + draw(text(6, CSV_FRAGS)),
                                           "engineStates": draw(text(6, CSV_FRAGS))}
        steps.append(doc)
    return {"steps": steps, "fault_step": draw(st.integers(0, n - 1)) if faults else None,
            "phase": draw(st.integers(0, 63))}


class _StubStatusDB:
    """The slice of experiment.runtime.status.StatusDB that StatusMonitor uses: integer stage indices as keys."""

    def __init__(self):
        self.doc = None

    def getWorkflowStatus(self, json_friendly=False):
        return {int(k): copy.deepcopy(v) for k, v in self.doc.items()}


def _load_json(path):
    with open(path) as f:
        return json.load(f)


SIMPLE_FLOWIR = {"components": [{"name": "c0", "stage": 0, "command": {"executable": "echo", "arguments": "hi"}}]}


def check_details(case, ctx: Ctx):
    import experiment.runtime.output as O
    from ..gen import pkg
    d = ctx.mkdtemp()
    exp = None
    try:
        exp = pkg.experiment_from_flowir(SIMPLE_FLOWIR, d)
        root = exp.instanceDirectory.location
        mon = O.StatusMonitor(exp, report_components=False)
        db = _StubStatusDB()
        mon.set_status_database(db)
        out = os.path.realpath(exp.instanceDirectory.outputDir)
        target = Target("status-details", os.path.join(out, "status_details.json"), _load_json)
        only = case.get("only")
        for i, doc in enumerate(case["steps"]):
            db.doc = doc
            expected_new = None
            if case.get("fault_step") == i:
                _, expected_new = enumerate_faults(ctx, case, "details", i, out, d, [O],
                                                   mon.try_generate_status_details, [target], case["steps"][:i + 1])
            _advance(mon.try_generate_status_details, out, expected_new)
            if only:
                continue
            val = target.value()
            if val[0] != "ok":
                _report(ctx, "status-details-unloadable", "status_details.json after update %d: %r" % (i + 1, val),
                        _rt_case(case))
            elif val[1] != doc:
                _report(ctx, "status-details-readback-differs", "after update %d written %r, read back %r" % (
                    i + 1, doc, val[1]), _rt_case(case))
            if i >= 1:
                ctx.rec.nt(["details-rt", case["steps"][:i + 1]], {"writer": "details", "updates": i + 1, "last": doc},
                           group="details-rt")
        ctx.rec.label("details:updates=%d" % len(case["steps"]))
    finally:
        _dispose(exp)
        shutil.rmtree(d, ignore_errors=True)


# ------------------------------------------------------------------------------------------------------------
# conf/flowir_instance.yaml, conf/manifest.yaml
YAML_FRAGS = [f for f in FRAGMENTS if f not in ("None",)] + ["true", "null", "007", "1e3", "~", "<<", "---", "...", "- a",
                                                             "key: value", "%%", "$(x)", "${y}"]
MANIFEST_TARGETS = ["data", "bin", "extra", "é", "my dir", "hooks", "a/b", "雪"]
MANIFEST_SOURCES = ["/abs/path", "rel/dir", "../up", "/with space/é", "x y", "/雪/q", "dir#1", "~home", "'q'"]


def _safe_component_text(s):
    """Keep generated text outside FlowIR's own syntax (variable references, data references)."""
    out = []
    for i, ch in enumerate(s):
        prev = s[i - 1] if i else ""
        if ch == "(" and prev == "%":
            ch = "["
        if prev == ":" and (ch.isalpha() or ch == "%"):
            out.append(" ")
        out.append(ch)
    return "".join(out)


@st.composite
def conf_case(draw, faults: bool):
    n = draw(st.integers(1, 6 if not faults else 4))
    steps = []
    for k in range(n):
        s = {"args": _safe_component_text(draw(text(6, YAML_FRAGS))),
             "vars": {"v%d" % j: draw(st.one_of(text(4, YAML_FRAGS).map(_safe_component_text), st.integers(-5, 5),
                                                st.sampled_from([1.5, True, False, "0.10", ""])))
                      for j in range(draw(st.integers(0, 2)))},
             "how": draw(st.sampled_from(["store", "generate"]))}
        if s["how"] == "generate" and draw(st.booleans()):
            m = {}
            for t in draw(st.lists(st.sampled_from(MANIFEST_TARGETS), min_size=0, max_size=3, unique=True)):
                m[t] = draw(st.sampled_from(MANIFEST_SOURCES)) + draw(st.sampled_from(["", ":copy", ":link"]))
            s["manifest"] = m
        steps.append(s)
    return {"steps": steps, "fault_step": draw(st.integers(0, n - 1)) if faults else None,
            "phase": draw(st.integers(0, 63)),
            # half of the fault cases hit the very first write of the files (previous version = no file at all)
            "fresh": bool(faults and draw(st.booleans()))}


def _load_instance(path):
    import experiment.model.frontends.flowir as F
    root, _docs = F.package_document_load(path, True)
    return json.loads(json.dumps(root, sort_keys=True, default=repr))


def _load_manifest(path):
    import experiment.model.frontends.flowir as F
    return F.Manifest.fromFile(path).manifestData


def _plain(x):
    return json.loads(json.dumps(x, sort_keys=True, default=repr))


def _conf_roundtrip(ctx, case, conf, targets, step):
    exp_instance = _plain(conf._unreplicated.instance(ignore_errors=True, inject_missing_fields=False,
                                                       fill_in_all=False, is_primitive=True))
    exp_manifest = dict(conf.manifestData)
    for t, want in zip(targets, (exp_instance, exp_manifest)):
        val = t.value()
        if val[0] != "ok":
            _report(ctx, t.label + "-unloadable", "%s after update %d: %r" % (os.path.basename(t.path), step + 1, val),
                    _rt_case(case))
        elif val[1] != want:
            diff = [k for k in set(want) | set(val[1]) if want.get(k) != val[1].get(k)]
            _report(ctx, t.label + "-readback-differs", "%s after update %d differs in %s: written %r, read back %r" % (
                os.path.basename(t.path), step + 1, diff, {k: want.get(k) for k in diff},
                {k: val[1].get(k) for k in diff}), _rt_case(case))


def check_conf(case, ctx: Ctx):
    import experiment.model.conf as C
    import experiment.model.frontends.flowir as F
    from ..gen import pkg
    d = ctx.mkdtemp()
    exp = None
    try:
        exp = pkg.experiment_from_flowir(SIMPLE_FLOWIR, d)
        root = exp.instanceDirectory.location
        conf = exp.experimentGraph.configuration
        confdir = os.path.realpath(conf.configurationDirectory)
        targets = [Target("flowir-instance", os.path.join(confdir, "flowir_instance.yaml"), _load_instance),
                   Target("manifest", os.path.join(confdir, "manifest.yaml"), _load_manifest)]
        only = case.get("only")
        labels = set()
        for i, s in enumerate(case["steps"]):
            comp = {"name": "%d#x" % (i + 1), "stage": 0, "references": [],
                    "command": {"executable": "echo", "arguments": s["args"]}, "variables": dict(s["vars"])}
            F.FlowIR.convert_component_types(comp, True, is_primitive=True)
            conf._unreplicated.add_component(comp)
            if "manifest" in s:
                conf._manifest = F.Manifest(s["manifest"])
                labels.add("conf:manifest-changed")
            errs = []
            if s["how"] == "store":
                update = conf.store_unreplicated_flowir_to_disk
            else:
                update = (lambda: conf._generate_instance_files(True, True, errs))
            expected_new = None
            if case.get("fault_step") == i:
                if case.get("fresh"):
                    # only the files this update (re)creates: store_unreplicated_flowir_to_disk writes the instance
                    # description only, _generate_instance_files both files
                    for t in (targets if s["how"] == "generate" else targets[:1]):
                        if os.path.exists(t.path):
                            os.remove(t.path)
                    labels.add("conf:first-write")
                _, expected_new = enumerate_faults(ctx, case, "conf", i, confdir, d, [C], update, targets,
                                                   case["steps"][:i + 1])
            _advance(update, confdir, expected_new)
            if errs:
                raise RuntimeError("harness: _generate_instance_files reported %r" % errs)
            labels.add("conf:how=" + s["how"])
            if only:
                continue
            _conf_roundtrip(ctx, case, conf, targets, i)
            if i >= 1:
                ctx.rec.nt(["conf-rt", case["steps"][:i + 1]], {"writer": "conf", "updates": i + 1, "last": s},
                           group="conf-rt")
        ctx.rec.label("conf:updates=%d" % len(case["steps"]), *sorted(labels))
    finally:
        _dispose(exp)
        shutil.rmtree(d, ignore_errors=True)


# ------------------------------------------------------------------------------------------------------------
# DoWhile: the instance file is rewritten after every loop iteration
DOWHILE_DOC = """
type: DoWhile
inputBindings:
  number:
    type: output
loopBindings:
  number: fake_add:output
condition: 'stop/iteration.next:output'
components:
- name: add
  command:
    executable: "echo"
    arguments: "$((1+number:output))"
  references:
  - "number:output"
  workflowAttributes:
    replicate: 1
- name: fake_add
  command:
    executable: "echo"
    arguments: "add:output"
  references: ["add:output"]
  workflowAttributes:
    aggregate: True
- name: stop
  command:
    executable: echo
    arguments: "fake_add:output %(targetLoops)s"
  references:
  - fake_add:output
"""
DOWHILE_MAIN = """
variables:
  default:
    global:
      targetLoops: 5
components:
- stage: 0
  name: GenerateInput
  command:
    executable: "echo"
    arguments: "0"
- stage: 1
  $import: dowhile.yaml
  name: simple-do-while
  bindings:
    number: stage0.GenerateInput:output
- stage: 2
  name: report
  command:
    executable: "echo"
    arguments: "stage1.add:output"
  references: ["stage1.add:output"]
"""


@st.composite
def dowhile_case(draw):
    # the simplest draw is the richest history: three iterations, fault in the last one
    n = 3 - draw(st.integers(0, 2))
    return {"iterations": n, "fault_step": n - 1 - draw(st.integers(0, n - 1)), "phase": draw(st.integers(0, 255))}


def check_dowhile(case, ctx: Ctx):
    import experiment.model.conf as C
    import experiment.model.frontends.flowir as F
    from ..gen import pkg
    d = ctx.mkdtemp()
    exp = None
    try:
        package = pkg.write_package(DOWHILE_MAIN, d, extra_files={"conf/dowhile.yaml": DOWHILE_DOC})
        exp = pkg.experiment_from_package_path(package, d)
        root = exp.instanceDirectory.location
        graph = exp.experimentGraph
        conf = graph.configuration
        confdir = os.path.realpath(conf.configurationDirectory)
        do_while = list(graph._documents[F.FlowIR.LabelDoWhile].values())[0]["document"]
        target = Target("flowir-instance", os.path.join(confdir, "flowir_instance.yaml"), _load_instance)
        only = case.get("only")
        for i in range(case["iterations"]):
            update = (lambda it=i + 1: graph.instantiate_dowhile_next_iteration(do_while, it, True))
            expected_new = None
            if case.get("fault_step") == i:
                _, expected_new = enumerate_faults(ctx, case, "dowhile", i, confdir, d, [C], update, [target],
                                                   [case["iterations"], case["phase"]])
            _advance(update, confdir, expected_new)
            if only:
                continue
            want = _plain(conf._unreplicated.instance(ignore_errors=True, inject_missing_fields=False,
                                                      fill_in_all=False, is_primitive=True))
            val = target.value()
            if val[0] != "ok":
                _report(ctx, "flowir-instance-unloadable", "flowir_instance.yaml after iteration %d: %r" % (i + 1, val),
                        _rt_case(case))
            elif val[1] != want:
                _report(ctx, "flowir-instance-readback-differs", "flowir_instance.yaml after iteration %d differs from "
                        "the unreplicated FlowIR" % (i + 1), _rt_case(case))
            names = [c["name"] for c in val[1].get("components", [])] if val[0] == "ok" else []
            if "%d#add" % (i + 1) not in names:
                _report(ctx, "flowir-instance-readback-differs", "iteration %d components missing from the instance "
                        "file: %r" % (i + 1, names), _rt_case(case))
            ctx.rec.nt(["dowhile-rt", i + 1], {"writer": "dowhile", "iteration": i + 1, "components": len(names)},
                       group="dowhile-rt")
        ctx.rec.label("dowhile:iterations=%d" % case["iterations"])
    finally:
        _dispose(exp)
        shutil.rmtree(d, ignore_errors=True)


# ------------------------------------------------------------------------------------------------------------
# ------------------------------------------------------------------------------------------------------------
# "no matter how many updates preceded it": long runs of updates by one process. The child lowers its open-file limit so
# that a few hundred updates stand for the tens of thousands of a long experiment (a writer that leaks a descriptor, a
# temporary file or a lock per update stops updating long before the experiment ends).
@st.composite
def long_case(draw):
    return {"writer": draw(st.sampled_from(["status", "status", "conf"])),
            "updates": draw(st.sampled_from([150, 300, 600])), "limit": draw(st.sampled_from([40, 64, 96])),
            "every": draw(st.sampled_from([1, 7, 25]))}


def _long_child(case, d):
    """Runs in a forked child; returns None or (signature, message)."""
    import resource
    import experiment.model.data as D
    import experiment.model.frontends.flowir as F
    import experiment.model.conf
    writer = case["writer"]
    root = os.path.join(d, "inst", "output" if writer != "conf" else "conf")
    os.makedirs(root)
    if writer == "status":
        path = os.path.join(root, "status.txt")
        status = D.Status(path, {}, ["stage0", "stage1"])

        def update(i):
            status.setStageProgress((i % 100) / 100.0)
            status.setErrorDescription("update %d" % i)
            return status.update()

        def read():
            return D.Status.statusFromFile(path).data.get("error-description")
        expect = lambda i: "update %d" % i
    else:
        path = os.path.join(root, "flowir_instance.yaml")

        def update(i):
            return experiment.model.conf.yaml_dump_atomically({"version": i, "components": []}, path)

        def read():
            import yaml as _yaml
            with open(path) as f:
                return _yaml.safe_load(f)["version"]
        expect = lambda i: i
    soft, hard = resource.getrlimit(resource.RLIMIT_NOFILE)
    in_use = len(os.listdir("/proc/self/fd"))
    resource.setrlimit(resource.RLIMIT_NOFILE, (in_use + case["limit"], hard))
    for i in range(case["updates"]):
        try:
            update(i)
        except Exception as e:          # noqa - an update that raises is a failed update
            return ("update-fails-after-many-updates", "%s update %d of %d raised %r (open-file limit: %d above the "
                    "descriptors in use before the first update)" % (writer, i + 1, case["updates"], e, case["limit"]))
        if i % case["every"] == 0 or i == case["updates"] - 1:
            try:
                got = read()
            except Exception as e:      # noqa
                return ("unreadable-after-many-updates", "%s after update %d: %r" % (writer, i + 1, e))
            if got != expect(i):
                return ("readback-stale-after-many-updates", "%s after update %d of %d: read back %r, last written %r "
                        "(open-file limit: %d above the descriptors in use before the first update)" % (
                            writer, i + 1, case["updates"], got, expect(i), case["limit"]))
    return None


def check_long(case, ctx: Ctx):
    import pickle
    d = ctx.mkdtemp()
    r, w = os.pipe()
    pid = os.fork()
    if pid == 0:
        code = 0
        try:
            os.close(r)
            res = _long_child(case, d)
            os.write(w, pickle.dumps(res))
        except BaseException as e:       # noqa
            try:
                os.write(w, pickle.dumps(("harness", repr(e))))
            except Exception:
                pass
            code = 3
        finally:
            os._exit(code)
    os.close(w)
    buf = b""
    while True:
        chunk = os.read(r, 65536)
        if not chunk:
            break
        buf += chunk
    os.close(r)
    os.waitpid(pid, 0)
    shutil.rmtree(d, ignore_errors=True)
    res = pickle.loads(buf) if buf else ("harness", "child wrote nothing")
    if res is None:
        ctx.rec.label("long:%s:updates=%d" % (case["writer"], case["updates"]))
        ctx.rec.nt(["long", case], {"writer": case["writer"], "updates": case["updates"],
                                    "open_file_headroom": case["limit"]}, group="long")
        return
    if res[0] == "harness":
        raise RuntimeError("long-history child failed: %s" % res[1])
    raise Violation(res[0], res[1])


SUBS = {
    "long": check_long,
    "status": check_status, "status_rt": check_status,
    "output": check_output, "output_rt": check_output,
    "details": check_details, "details_rt": check_details,
    "conf": check_conf, "conf_rt": check_conf,
    "dowhile": check_dowhile,
}


def shard(ctx: Ctx):
    plan = [
        ("status_rt", status_case(False), ctx.n(2400, 120000), 600),
        ("details_rt", details_case(False), ctx.n(160, 8000), 40),
        ("output_rt", output_case(False), ctx.n(160, 8000), 40),
        ("conf_rt", conf_case(False), ctx.n(160, 8000), 40),
        ("status", status_case(True), ctx.n(48, 3200), 16),
        ("details", details_case(True), ctx.n(16, 1600), 8),
        ("output", output_case(True), ctx.n(16, 1600), 8),
        ("conf", conf_case(True), ctx.n(16, 1600), 8),
        ("dowhile", dowhile_case(), ctx.n(8, 160), 4),
    ]
    # every shard runs every sub-check; the order is rotated per shard (seeds do not depend on the order) so that
    # the shards do not all sit in the same fork-heavy phase at the same time
    k = ctx.shard % len(plan)
    for sub, strategy, count, batch in plan[k:] + plan[:k]:
        explore(ctx, sub, strategy, SUBS[sub], count, batch=batch)
    # long histories: a small finite domain, swept deterministically (every shard takes the combinations of its residue
    # class, starting at an offset that depends on the seed; quick: 2 per shard, thorough: all 54)
    combos = [{"writer": w, "updates": u, "limit": l, "every": e} for w in ("status", "conf") for u in (150, 300, 600)
              for l in (40, 64, 96) for e in (1, 7, 25)]
    mine = [c for i, c in enumerate(combos) if (i + ctx.seed) % ctx.nshards == ctx.shard]
    for case in ([mine[0], mine[-1]] if ctx.tier == "quick" and len(mine) > 1 else mine):
        if ctx.stop:
            break
        ctx.rec.evaluations += 1
        try:
            check_long(case, ctx)
        except Violation as v:
            v.case, v.sub = case, "long"
            ctx.rec.violations.append(v.to_dict())
            ctx.stop = True


def replay(sub, case, ctx: Ctx):
    SUBS[sub or "status"](case, ctx)
