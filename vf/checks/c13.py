"""C13 — a repeating observer sees its producers' final output and then stops.

Discrete-event simulation (vf/rt/repsim.py) of one real RepeatingEngine driven by the real monitor.CreateMonitor
loop on a virtual clock.  A case is a history: when producer output appears, when engine.run() is called, when the
producers-finished notification arrives (before start, during a sleep, during a task), an optional external kill,
the duration/outcome of every task and the engine options.
"""
from __future__ import annotations

import shutil

from hypothesis import strategies as st

from ..core import Ctx, Violation, explore

ID = "C13"
LEVEL = "exploration"
RULE = ("case = output appearance times (one or two producers, same/earlier stage, either order) x run() time x notification time x optional external kill x per-task "
        "(duration, exit reason) x repeatRetries {0,1,3} x repeat-interval x kill-after-producers-done-delay x "
        "check-producer-output x repeating/non-repeating producer. Non-trivial = the notification lands inside a task "
        "or within one poll (5 s) of new output, or a task fails after the notification; distinct = distinct cases.")
ASSUMPTIONS = [
    "sub `wired`: real ComponentState objects (stageIn subscription, RepeatingEngine) on the deterministic kernel without "
    "a Controller; 2-3 plain subjects are finished by the harness at generated virtual moments (any order, any final "
    "state, optionally one already dead at stage-in); all observer executions succeed; non-trivial = >= 2 subscribed "
    "subjects whose finish times are further apart than one repeat interval",
    "the job is a duck-typed model object (answers about producer output come from the generated output times, using "
    "the same rule as Job.producersHaveOutputSinceDate); RepeatingEngine and monitor.CreateMonitor are the real code",
    "the monitor thread runs inline on a virtual clock; time.sleep / Task.wait advance it and fire external events and "
    "rx timers in time order; rx emissions are delivered FIFO",
    "producers emit no output after the producers-finished notification",
    "with a kill-after-producers-done-delay shorter than interval+30 s the engine may legitimately die before a final "
    "execution could start: the 'final output observed' clause is then waived (counted as label)",
    "'bounded number of further attempts' is checked as <= repeatRetries+4 kernel invocations after the notification "
    "and a virtual-time horizon",
]
TIERS = {"quick": {"shards": 16, "budget": 120}, "thorough": {"shards": 16, "budget": 2400}}

FAIL = ["KnownIssue", "ResourceExhausted", "SystemIssue", "UnknownIssue"]


@st.composite
def cases(draw):
    has_producer = draw(st.integers(0, 9)) != 0
    n_out = draw(st.integers(0, 5)) if has_producer else 0
    grid = st.integers(0, 240).map(lambda k: k / 2.0)           # half-second grid up to 120 s
    outputs = sorted(draw(st.lists(grid, min_size=n_out, max_size=n_out)))
    run_at = draw(st.integers(0, 60).map(lambda k: k / 2.0))
    last = outputs[-1] if outputs else 0.0
    p2 = None
    if has_producer and draw(st.integers(0, 2)) == 0:
        n2 = draw(st.integers(0, 3))
        p2 = {"outputs": sorted(draw(st.lists(grid, min_size=n2, max_size=n2))),
              "stage": draw(st.sampled_from([0, 0, 0, -1])), "first": draw(st.booleans()),
              "repeats": draw(st.booleans())}
        last = max([last] + p2["outputs"])
    mode = draw(st.sampled_from(["notify", "notify", "notify", "notify+kill", "kill"]))
    notify_at = None
    kill_at = None
    if mode != "kill":
        notify_at = last + draw(st.sampled_from([0.0, 0.5, 1.0, 2.5, 4.5, 5.0, 7.0, 12.0, 30.0, 61.5]))
        if draw(st.integers(0, 4)) == 0:
            notify_at = max(0.0, run_at - draw(st.sampled_from([0.0, 1.0, 10.0])))      # before/at start
            notify_at = max(notify_at, last)
    if mode != "notify":
        kill_at = draw(st.integers(0, 300).map(lambda k: k / 2.0))
    tasks = []
    for _ in range(draw(st.integers(0, 8))):
        dur = draw(st.sampled_from([0.5, 1.0, 3.0, 6.0, 12.0, 31.0]))
        reason = draw(st.sampled_from(["Success"] * 5 + FAIL + ["LaunchError"]))
        tasks.append([dur, reason])
    interval = draw(st.sampled_from([5, 10, 30]))
    return {
        "has_producer": has_producer, "p2": p2,
        "producer_repeats": draw(st.booleans()),
        "outputs": outputs, "run_at": run_at, "notify_at": notify_at, "kill_at": kill_at, "tasks": tasks,
        "retries": draw(st.sampled_from([0, 1, 3, None])),
        "interval": interval,
        "kill_after": draw(st.sampled_from([None, None, None, 2, 5, 45, 90])),
        # how long the submission call itself takes, per execution (the notification may arrive inside it)
        "submit_delays": [draw(st.sampled_from([0, 0, 0, 1.5, 4.0])) for _ in range(draw(st.integers(0, 4)))],
        "check_output": draw(st.sampled_from([None, True, False])),
        # a quarter of the cases: some of the first looks at a producer's working directory fail (transient
        # FilesystemInconsistencyError, which the engine is written to ride out)
        "listing_faults": sorted(draw(st.sets(st.integers(0, 7), min_size=1, max_size=3)))
        if draw(st.integers(0, 3)) == 0 else [],
    }


def check(case, ctx: Ctx):
    from ..rt import repsim
    wd = ctx.mkdtemp()
    try:
        sim = repsim.RepSim(case, wd).run()
    finally:
        shutil.rmtree(wd, ignore_errors=True)
    eng = sim.engine
    O = sorted(sim.outputs + sim.outputs2)
    L = O[-1] if O else None
    p2 = case.get("p2")
    Tn = sim.notified_at
    Kx = sim.killed_ext_at
    retries = case["retries"] if case["retries"] is not None else 3
    launches = sim.launches
    ends = {n: (t, r) for n, t, r in sim.task_ends}
    desc = "case=%s launches=%s ends=%s kernel_calls=%s notified=%s ext_kill=%s" % (
        case, launches, sim.task_ends, sim.kernel_log[-12:], Tn, Kx)

    # (a) never executes before there is producer output it can consume
    gates = []
    if case["has_producer"]:
        # every producer of the observer's own stage must have produced something (Engine.canConsume's contract)
        gates = [("Producer", sim.outputs)] + ([("Producer2", sim.outputs2)] if p2 and p2["stage"] == 0 else [])
        for n, s in launches:
            for who, outs in gates:
                if not any(o <= s for o in outs):
                    raise Violation("executed-before-any-producer-output" if len(gates) == 1 else
                                    "executed-before-output-of-every-same-stage-producer",
                                    "launch %d at %.1f, %s has no output yet; %s" % (n, s, who, desc))
    if sim.aborted:
        if Tn is not None or Kx is not None:
            raise Violation("does-not-stop-after-producers-finished",
                            "still alive at the %.0f s horizon; %s" % (sim.HORIZON, desc))
        ctx.rec.label("inconclusive:" + sim.aborted)
        return
    # (d) it is dead at the end, with one of the two documented exit reasons
    if eng.isAlive():
        raise Violation("alive-after-monitor-exit", desc)
    if eng.exitReason() not in ("Success", "ResourceExhausted"):
        raise Violation("unexpected-exit-reason", "%s; %s" % (eng.exitReason(), desc))
    died_at = sim.kernel_log[-1][0] if sim.kernel_log else sim.now_s()
    ext_killed = Kx is not None and Kx <= died_at
    short_delay = case["kill_after"] is not None and case["kill_after"] < case["interval"] + 30
    # (b) the final output is observed
    # ("unless ... it was never able to consume": some same-stage producer never produced anything)
    able = case["has_producer"] and all(outs for _, outs in gates)
    if sim.listing_faults_raised:
        # the statement quantifies over outcomes, notification times and output availability, not over file system
        # faults: when a look at a producer's folder failed, the engine could not tell whether it was able to consume;
        # only (a), (c) and (d) are checked for these runs
        able = False
        ctx.rec.label("final-observation-not-checked:listing-fault")
    if (able and O and Tn is not None and not ext_killed and L <= died_at):
        if not any(s >= L for n, s in launches):
            if short_delay:
                ctx.rec.label("final-observation-waived:short-kill-delay")
            else:
                raise Violation("stopped-without-observing-final-output",
                                "died at %.1f without starting an execution after the last output (%.1f); %s" % (
                                    died_at, L, desc))
    # (c) bounded stop after the notification
    if Tn is not None and not ext_killed:
        after = [t for t, last in sim.kernel_log if t > Tn]
        if len(after) > retries + 4:
            raise Violation("too-many-attempts-after-producers-finished",
                            "%d kernel invocations after the notification (retries=%d); %s" % (len(after), retries, desc))
        # stops after the first execution that started after the notification and succeeded
        ok = [n for n, s in launches if s >= Tn and n in ends and ends[n][1] == "Success"]
        if ok:
            first = ok[0]
            later = [n for n, s in launches if n > first]
            if later:
                raise Violation("executes-again-after-successful-final-execution",
                                "launch %s after successful post-notification launch %d; %s" % (later, first, desc))
        elif case["kill_after"] is None:
            # no successful post-notification execution: it may only give up once the retries are used up
            attempts = [t for t, last in sim.kernel_log if t >= Tn and not last]
            if len(attempts) < retries + 1:
                raise Violation("gave-up-before-retries-were-used-up",
                                "%d attempt(s) after the notification, repeatRetries=%d; %s" % (
                                    len(attempts), retries, desc))
    labels = []
    in_task = Tn is not None and any(s < Tn < ends.get(n, (s, None))[0] for n, s in launches if n in ends)
    near_output = Tn is not None and L is not None and 0 <= Tn - L <= 5.0
    failed_after = Tn is not None and any(ends[n][1] != "Success" for n, s in launches if n in ends and s >= Tn)
    labels.append("notify-in-task" if in_task else "notify-outside-task")
    if near_output:
        labels.append("notify-near-output")
    if failed_after:
        labels.append("task-fails-after-notify")
    labels.append("ext-kill" if ext_killed else "self-stop")
    if p2:
        labels.append("two-producers:%s" % ("same-stage" if p2["stage"] == 0 else "other-stage"))
    labels.append("launches=%s" % ("0" if not launches else "1" if len(launches) == 1 else "2+"))
    if case.get("listing_faults"):
        labels.append("listing-faults:raised" if sim.listing_faults_raised else "listing-faults:never-reached")
    ctx.rec.label(*labels)
    if in_task or near_output or failed_after:
        ctx.rec.nt(["c13", case], {"case": case, "launches": launches, "task_ends": sim.task_ends,
                                   "kernel_invocations": sim.kernel_log[-8:], "died_at": died_at,
                                   "exit": eng.exitReason()})


# ----------------------------------------------------------------------------------------------------------
# sub `wired`: the real ComponentState wiring (stageIn subscription to the producers' notifyFinished) on the
# deterministic kernel: 2-3 plain subjects that finish at different (virtual) moments, in any order and with any final
# state, observed by one repeating component whose executions all succeed.
@st.composite
def wired_cases(draw):
    k = draw(st.sampled_from([2, 2, 3]))
    gaps = st.sampled_from([0, 0, 1, 4, 6, 11, 23, 47])
    subjects = []
    for i in range(k):
        subjects.append({"finish_at": 0, "state": draw(st.sampled_from(["finished", "finished", "finished", "failed",
                                                                        "shutdown"])),
                         "final_output": draw(st.integers(0, 3)) != 0})
    order = list(draw(st.permutations(list(range(k)))))
    t = draw(st.sampled_from([0, 3, 8, 16]))
    for n, i in enumerate(order):
        t += draw(gaps) if n else 0
        subjects[i]["finish_at"] = t
    return {"subjects": subjects, "interval": draw(st.sampled_from([1, 5, 10])),
            "retries": draw(st.sampled_from([0, 1, 3])),
            "dead_before_stagein": draw(st.integers(0, 5)) == 0,
            "sched": draw(st.sampled_from(["fifo", "fifo", "lifo", "rand:2:%d" % draw(st.integers(0, 99))]))}


def check_wired(case, ctx: Ctx):
    import datetime as _dt
    import os
    import networkx
    import experiment.model.codes as codes
    import experiment.runtime.backends as backends
    import experiment.runtime.engine as engine
    import experiment.runtime.workflow as workflow
    from ..gen import pkg
    from ..rt import driver as rtdriver, kernel as K
    from .c02 import PatternChooser
    KERNEL = K.KERNEL
    subs = case["subjects"]
    names = ["Sub%d" % i for i in range(len(subs))]
    loc = ctx.mkdtemp()
    K.new_case()
    launches = []
    saved = dict(backends.backendGeneratorMap)
    comps = {}
    try:
        fl = {"components": [{"name": n, "stage": 0, "command": {"executable": "echo", "arguments": "s"}}
                             for n in names] + [
            {"name": "Obs", "stage": 0,
             "command": {"executable": "echo", "arguments": " ".join("%s:ref" % n for n in names)},
             "references": ["%s:ref" % n for n in names],
             "workflowAttributes": {"repeatInterval": case["interval"], "repeatRetries": case["retries"]}}]}
        exp = pkg.experiment_from_flowir(fl, loc)
        now = lambda: (KERNEL.clock - K.EPOCH).total_seconds()
        backend = rtdriver.ScriptedBackend({}, lambda ref, job, n, reason: launches.append((ref, now())))
        for k_ in list(backends.backendGeneratorMap):
            backends.backendGeneratorMap[k_] = backend
        for job_name in networkx.topological_sort(exp.graph):
            data = exp.graph.nodes[job_name]
            spec = data["componentSpecification"]
            job = exp._stages[data["stageIndex"]].jobWithName(spec.identification.componentName)
            comps[job_name] = workflow.ComponentState(job, exp.experimentGraph, create_engine=True)
        obs = comps["stage0.Obs"]
        chooser = PatternChooser(case["sched"])
        STATES = {"finished": codes.FINISHED_STATE, "failed": codes.FAILED_STATE, "shutdown": codes.SHUTDOWN_STATE}

        def pump(until_s):
            end = K.EPOCH + _dt.timedelta(seconds=until_s)
            for _ in range(400):
                if KERNEL.clock >= end:
                    break
                KERNEL.drain(max_items=4000, horizon_s=max((end - KERNEL.clock).total_seconds(), 0.0), chooser=chooser)
                nd = KERNEL.next_due()
                if nd is None or nd > end:
                    KERNEL.advance_to(end)
            KERNEL.drain(max_items=4000, horizon_s=0.0, chooser=chooser)

        def write(i, text):
            with open(os.path.join(comps["stage0." + names[i]].specification.workingDirectory.path, "out.txt"), "a") as f:
                f.write(text)

        for n in names:
            comps["stage0." + n].stageIn()
        early = []
        if case["dead_before_stagein"]:
            # one subject is already finished when the observer stages in: it is not subscribed to at all
            first = min(range(len(subs)), key=lambda i: subs[i]["finish_at"])
            write(first, "only\n")
            comps["stage0." + names[first]].finish(STATES[subs[first]["state"]])
            pump(now() + 2.0)
            early = [first]
        obs.stageIn()
        for i in range(len(subs)):
            if i not in early:
                write(i, "partial\n")
        obs.run()
        t0 = now()
        alive_before_last = None
        finished_at = {}
        todo = sorted((i for i in range(len(subs)) if i not in early), key=lambda i: (subs[i]["finish_at"], i))
        for n, i in enumerate(todo):
            pump(t0 + subs[i]["finish_at"])
            if n == len(todo) - 1:
                alive_before_last = obs.engine.isAlive()
            if subs[i]["final_output"]:
                write(i, "final\n")
            finished_at[i] = now()
            comps["stage0." + names[i]].finish(STATES[subs[i]["state"]])
        last = max(finished_at.values())
        pump(last + 3 * (case["interval"] + 5) + 60.0)
        obs_launches = [t for ref, t in launches if ref == "stage0.Obs"]
        desc = "case=%s finished_at=%s observer launches=%s engine alive=%s state=%s errors=%s" % (
            case, finished_at, obs_launches, obs.engine.isAlive(), obs.state, KERNEL.errors[:3])
        if len(todo) > 1 and not alive_before_last:
            raise Violation("observer-stopped-while-a-producer-was-still-running",
                            "the observer's engine was dead just before its last producer finished; " + desc)
        if not any(t >= last for t in obs_launches):
            raise Violation("stopped-without-observing-final-output:wired",
                            "no execution started after the last producer finished (%.1f); %s" % (last, desc))
        if obs.engine.isAlive():
            raise Violation("does-not-stop-after-producers-finished:wired", desc)
        after = [t for t in obs_launches if t >= last]
        if len(after) > 2:
            raise Violation("executes-again-after-successful-final-execution:wired",
                            "%d executions started after the last producer finished; %s" % (len(after), desc))
        spread = last - min(finished_at.values())
        ctx.rec.label("wired:subjects=%d" % len(subs), "wired:spread>interval" if spread > case["interval"] else
                      "wired:spread<=interval", "wired:early-dead" if early else "wired:all-subscribed")
        if len(todo) > 1 and spread > case["interval"]:
            ctx.rec.nt(["c13w", case], {"case": case, "finished_at": finished_at, "observer_launches": obs_launches,
                                        "observer_state": obs.state}, group="wired")
    finally:
        backends.backendGeneratorMap.clear()
        backends.backendGeneratorMap.update(saved)
        for c in comps.values():
            try:
                if c.repeatingDisposable is not None:
                    c.repeatingDisposable.dispose()
            except Exception:
                pass
        shutil.rmtree(loc, ignore_errors=True)


def shard(ctx: Ctx):
    explore(ctx, "history", cases(), check, ctx.n(8000, 600000), batch=500)
    explore(ctx, "wired", wired_cases(), check_wired, ctx.n(240, 12000), batch=20)


def replay(sub, case, ctx: Ctx):
    {"history": check, "wired": check_wired}[sub or "history"](case, ctx)
