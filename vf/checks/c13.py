"""C13 — a repeating observer sees its producers' final output and then stops.

Discrete-event simulation (vf/rt/repsim.py) of one real RepeatingEngine driven by the real monitor.CreateMonitor
loop on a virtual clock.  A case is a history: when producer output appears, when engine.run() is called, when the
producers-finished notification arrives (before start, during a sleep, during a task), an optional external kill,
the duration/outcome of every task and the engine options.
"""
from __future__ import annotations

import shutil

from hypothesis import strategies as st

from ..core import Ctx, Violation, explore

ID = "C13"
LEVEL = "exploration"
RULE = ("case = output appearance times x run() time x notification time x optional external kill x per-task "
        "(duration, exit reason) x repeatRetries {0,1,3} x repeat-interval x kill-after-producers-done-delay x "
        "check-producer-output x repeating/non-repeating producer. Non-trivial = the notification lands inside a task "
        "or within one poll (5 s) of new output, or a task fails after the notification; distinct = distinct cases.")
ASSUMPTIONS = [
    "the job is a duck-typed model object (answers about producer output come from the generated output times, using "
    "the same rule as Job.producersHaveOutputSinceDate); RepeatingEngine and monitor.CreateMonitor are the real code",
    "the monitor thread runs inline on a virtual clock; time.sleep / Task.wait advance it and fire external events and "
    "rx timers in time order; rx emissions are delivered FIFO",
    "producers emit no output after the producers-finished notification",
    "with a kill-after-producers-done-delay shorter than interval+30 s the engine may legitimately die before a final "
    "execution could start: the 'final output observed' clause is then waived (counted as label)",
    "'bounded number of further attempts' is checked as <= repeatRetries+4 kernel invocations after the notification "
    "and a virtual-time horizon",
]
TIERS = {"quick": {"shards": 16, "budget": 120}, "thorough": {"shards": 16, "budget": 2400}}

FAIL = ["KnownIssue", "ResourceExhausted", "SystemIssue", "UnknownIssue"]


@st.composite
def cases(draw):
    has_producer = draw(st.integers(0, 9)) != 0
    n_out = draw(st.integers(0, 5)) if has_producer else 0
    grid = st.integers(0, 240).map(lambda k: k / 2.0)           # half-second grid up to 120 s
    outputs = sorted(draw(st.lists(grid, min_size=n_out, max_size=n_out)))
    run_at = draw(st.integers(0, 60).map(lambda k: k / 2.0))
    last = outputs[-1] if outputs else 0.0
    mode = draw(st.sampled_from(["notify", "notify", "notify", "notify+kill", "kill"]))
    notify_at = None
    kill_at = None
    if mode != "kill":
        notify_at = last + draw(st.sampled_from([0.0, 0.5, 1.0, 2.5, 4.5, 5.0, 7.0, 12.0, 30.0, 61.5]))
        if draw(st.integers(0, 4)) == 0:
            notify_at = max(0.0, run_at - draw(st.sampled_from([0.0, 1.0, 10.0])))      # before/at start
            notify_at = max(notify_at, last)
    if mode != "notify":
        kill_at = draw(st.integers(0, 300).map(lambda k: k / 2.0))
    tasks = []
    for _ in range(draw(st.integers(0, 8))):
        dur = draw(st.sampled_from([0.5, 1.0, 3.0, 6.0, 12.0, 31.0]))
        reason = draw(st.sampled_from(["Success"] * 5 + FAIL + ["LaunchError"]))
        tasks.append([dur, reason])
    interval = draw(st.sampled_from([5, 10, 30]))
    return {
        "has_producer": has_producer,
        "producer_repeats": draw(st.booleans()),
        "outputs": outputs, "run_at": run_at, "notify_at": notify_at, "kill_at": kill_at, "tasks": tasks,
        "retries": draw(st.sampled_from([0, 1, 3, None])),
        "interval": interval,
        "kill_after": draw(st.sampled_from([None, None, None, 2, 5, 45, 90])),
        "check_output": draw(st.sampled_from([None, True, False])),
    }


def check(case, ctx: Ctx):
    from ..rt import repsim
    wd = ctx.mkdtemp()
    try:
        sim = repsim.RepSim(case, wd).run()
    finally:
        shutil.rmtree(wd, ignore_errors=True)
    eng = sim.engine
    O = sim.outputs
    L = O[-1] if O else None
    Tn = sim.notified_at
    Kx = sim.killed_ext_at
    retries = case["retries"] if case["retries"] is not None else 3
    launches = sim.launches
    ends = {n: (t, r) for n, t, r in sim.task_ends}
    desc = "case=%s launches=%s ends=%s kernel_calls=%s notified=%s ext_kill=%s" % (
        case, launches, sim.task_ends, sim.kernel_log[-12:], Tn, Kx)

    # (a) never executes before there is producer output it can consume
    if case["has_producer"]:
        for n, s in launches:
            if not any(o <= s for o in O):
                raise Violation("executed-before-any-producer-output", "launch %d at %.1f; %s" % (n, s, desc))
    if sim.aborted:
        if Tn is not None or Kx is not None:
            raise Violation("does-not-stop-after-producers-finished",
                            "still alive at the %.0f s horizon; %s" % (sim.HORIZON, desc))
        ctx.rec.label("inconclusive:" + sim.aborted)
        return
    # (d) it is dead at the end, with one of the two documented exit reasons
    if eng.isAlive():
        raise Violation("alive-after-monitor-exit", desc)
    if eng.exitReason() not in ("Success", "ResourceExhausted"):
        raise Violation("unexpected-exit-reason", "%s; %s" % (eng.exitReason(), desc))
    died_at = sim.kernel_log[-1][0] if sim.kernel_log else sim.now_s()
    ext_killed = Kx is not None and Kx <= died_at
    short_delay = case["kill_after"] is not None and case["kill_after"] < case["interval"] + 30
    # (b) the final output is observed
    if (case["has_producer"] and O and Tn is not None and not ext_killed and L <= died_at):
        if not any(s >= L for n, s in launches):
            if short_delay:
                ctx.rec.label("final-observation-waived:short-kill-delay")
            else:
                raise Violation("stopped-without-observing-final-output",
                                "died at %.1f without starting an execution after the last output (%.1f); %s" % (
                                    died_at, L, desc))
    # (c) bounded stop after the notification
    if Tn is not None and not ext_killed:
        after = [t for t, last in sim.kernel_log if t > Tn]
        if len(after) > retries + 4:
            raise Violation("too-many-attempts-after-producers-finished",
                            "%d kernel invocations after the notification (retries=%d); %s" % (len(after), retries, desc))
        # stops after the first execution that started after the notification and succeeded
        ok = [n for n, s in launches if s >= Tn and n in ends and ends[n][1] == "Success"]
        if ok:
            first = ok[0]
            later = [n for n, s in launches if n > first]
            if later:
                raise Violation("executes-again-after-successful-final-execution",
                                "launch %s after successful post-notification launch %d; %s" % (later, first, desc))
        elif case["kill_after"] is None:
            # no successful post-notification execution: it may only give up once the retries are used up
            attempts = [t for t, last in sim.kernel_log if t >= Tn and not last]
            if len(attempts) < retries + 1:
                raise Violation("gave-up-before-retries-were-used-up",
                                "%d attempt(s) after the notification, repeatRetries=%d; %s" % (
                                    len(attempts), retries, desc))
    labels = []
    in_task = Tn is not None and any(s < Tn < ends.get(n, (s, None))[0] for n, s in launches if n in ends)
    near_output = Tn is not None and L is not None and 0 <= Tn - L <= 5.0
    failed_after = Tn is not None and any(ends[n][1] != "Success" for n, s in launches if n in ends and s >= Tn)
    labels.append("notify-in-task" if in_task else "notify-outside-task")
    if near_output:
        labels.append("notify-near-output")
    if failed_after:
        labels.append("task-fails-after-notify")
    labels.append("ext-kill" if ext_killed else "self-stop")
    labels.append("launches=%s" % ("0" if not launches else "1" if len(launches) == 1 else "2+"))
    ctx.rec.label(*labels)
    if in_task or near_output or failed_after:
        ctx.rec.nt(["c13", case], {"case": case, "launches": launches, "task_ends": sim.task_ends,
                                   "kernel_invocations": sim.kernel_log[-8:], "died_at": died_at,
                                   "exit": eng.exitReason()})


def shard(ctx: Ctx):
    explore(ctx, "history", cases(), check, ctx.n(8000, 600000), batch=500)


def replay(sub, case, ctx: Ctx):
    check(case, ctx)
