"""C03 — replication expands a workflow without changing its dataflow.

Generated abstract workflows (confusable names, both reference spellings, paths, all graph-level methods, replica
counts literal or via global/stage/component variables, aggregators) are rendered to FlowIR and expanded by
WorkflowGraph.graphFromFlowIR(primitive=False); the result is compared with an independent expander that works on
the abstract workflow (vf/gen/workflow.expand), never on rendered text.
"""
from __future__ import annotations

import re

from hypothesis import strategies as st

from ..core import Ctx, Violation, explore
from ..gen import workflow as wfgen

ID = "C03"
LEVEL = "exploration"
RULE = ("abstract acyclic workflows by construction: <=7 components over <=3 stages, names from a confusable-name "
        "strategy (prefix/suffix/substring/extension of each other, trailing digits, dots, dashes), references in "
        "relative or absolute spelling with optional file paths and methods ref/copy/link/output/copyout/extract, one "
        "replica count N in {2,3,11,12} requested literally or through a global/stage/component variable, aggregating "
        "consumers. Non-trivial = >=1 replicated region with >=1 consumer and (an aggregator or a pair of names where one "
        "contains the other); distinct = distinct abstract workflows.")
ASSUMPTIONS = [
    "names stay unique per stage after replication suffixes are appended (otherwise the package is ambiguous)",
    "all replicating sources of one workflow use the same N (the repository rejects merging regions of different sizes)",
    "references appear in command.arguments separated by blanks, each declared in `references`",
    "names are drawn from [A-Za-z0-9_.-]+, do not start with a digit/dash/dot and are not reserved folder names",
]
TIERS = {"quick": {"shards": 8, "budget": 120}, "thorough": {"shards": 16, "budget": 2400}}


def cases():
    return wfgen.workflows(max_components=7, max_stages=3, names="confusable", methods=tuple(wfgen.METHODS_GRAPH),
                           allow_paths=True, allow_repeat=False, allow_shutdown=False, replicate_via_vars=True,
                           max_n=12, allow_multi_ref=True, allow_ref_in_var=True)


_STAGE_PREFIX = re.compile(r"^stage\d+\.")
_REF_TOKEN = re.compile(r":(ref|copy|copyout|link|output|extract)$")


def _is_ref_token(tok):
    return bool(_REF_TOKEN.search(tok))


def _absolute(ref, stage):
    return ref if _STAGE_PREFIX.match(ref) else "stage%d.%s" % (stage, ref)


def expected(W):
    """node -> {refs: [...absolute reference strings...], args: str, replica: k|None}"""
    comps = W["components"]
    rep = wfgen.replication(W)
    N = W["n"]

    def inst(i, k):
        c = comps[i]
        nm = "%s%d" % (c["name"], k) if (rep[i] and not c["aggregate"]) else c["name"]
        return c["stage"], nm

    out = {}
    for i, c in enumerate(comps):
        copies = range(N) if (rep[i] and not c["aggregate"]) else [None]
        for k in copies:
            st_i, nm = inst(i, k if k is not None else 0)
            refs = []
            arg_parts = list(c["lits"])
            for r in c["refs"]:
                p = r["p"]
                p_rep = rep[p] and not comps[p]["aggregate"]
                if p_rep and c["aggregate"]:
                    targets = [inst(p, j) for j in range(N)]
                elif p_rep:
                    targets = [inst(p, k)]
                else:
                    targets = [inst(p, 0)]
                strs = ["stage%d.%s%s:%s" % (s, n, ("/" + r["path"]) if r.get("path") else "", r["method"])
                        for s, n in targets]
                refs.extend(strs)
                arg_parts.append(" ".join(strs))
            out["stage%d.%s" % (st_i, nm)] = {"refs": refs, "args": " ".join(arg_parts), "replica": k,
                                               "replicated": k is not None, "idx": i}
    return out


def check(W, ctx: Ctx):
    import experiment.model.errors
    import experiment.model.graph as G
    fl = wfgen.render(W)
    exp = expected(W)
    nodes, preds = wfgen.expand(W)
    names = [c["name"] for c in W["components"]]
    overlap = any(a != b and a in b for a in names for b in names)
    rep = wfgen.replication(W)
    region_with_consumer = any(rep[r["p"]] and not W["components"][r["p"]]["aggregate"]
                               for c in W["components"] for r in c["refs"])
    has_agg = any(c["aggregate"] and any(rep[r["p"]] and not W["components"][r["p"]]["aggregate"] for r in c["refs"])
                  for c in W["components"])
    ctx.rec.label("overlap" if overlap else "no-overlap", "region+consumer" if region_with_consumer else "no-region",
                  "aggregator" if has_agg else "no-aggregator",
                  "via-var" if any(c["replicate"] in ("global", "stage", "comp") for c in W["components"]) else "literal")
    try:
        g = G.WorkflowGraph.graphFromFlowIR(fl, {}, primitive=False)
    except Exception as e:
        raise Violation("valid-workflow-rejected", "%s: %s | flowir=%s" % (type(e).__name__, str(e)[:400], fl))
    actual_nodes = set(g.graph.nodes)
    if actual_nodes != set(exp):
        raise Violation("wrong-node-set", "expected %s got %s | flowir=%s" % (sorted(exp), sorted(actual_nodes), fl))
    for n in sorted(exp):
        e = exp[n]
        spec = g.graph.nodes[n]["componentSpecification"]
        a_refs = [_absolute(r, nodes[n]["stage"]) for r in spec.rawDataReferences]
        if a_refs != e["refs"]:
            sig = "aggregate-reference-order" if sorted(a_refs) == sorted(e["refs"]) else "wrong-references"
            raise Violation(sig, "%s: expected references %s got %s | flowir=%s" % (n, e["refs"], a_refs, fl))
        # arguments may keep the spelling the author used: compare token-wise modulo the stage prefix
        raw_args = spec.commandDetails.get("arguments") or ""
        if "%(rv)s" in raw_args:
            # the reference text lives in a component variable: compare the interpolated command line
            raw_args = (g.configurationForNode(n).get("command") or {}).get("arguments") or ""
        a_args = " ".join(_absolute(t, nodes[n]["stage"]) if _is_ref_token(t) else t
                          for t in raw_args.split(" "))
        if a_args != e["args"]:
            raise Violation("wrong-arguments", "%s: expected %r got %r | flowir=%s" % (n, e["args"], a_args, fl))
        a_pred = sorted(set(g.graph.predecessors(n)))
        if a_pred != sorted(set(preds[n])):
            raise Violation("wrong-edges", "%s: expected producers %s got %s" % (n, sorted(set(preds[n])), a_pred))
        conf = g.configurationForNode(n)
        a_replica = conf.get("variables", {}).get("replica")
        if e["replicated"]:
            if a_replica is None or int(a_replica) != e["replica"]:
                raise Violation("replica-index-wrong", "%s: replica variable %r expected %r" % (n, a_replica, e["replica"]))
            if conf["workflowAttributes"].get("replicate") != W["n"]:
                raise Violation("replicate-count-wrong", "%s: replicate %r expected %r" % (
                    n, conf["workflowAttributes"].get("replicate"), W["n"]))
        else:
            if a_replica is not None:
                raise Violation("unreplicated-component-has-replica-index", "%s: replica %r" % (n, a_replica))
        if conf["command"].get("executable") != "echo":
            raise Violation("component-changed-outside-references", "%s: executable %r" % (n, conf["command"]))
    if region_with_consumer and (has_agg or overlap):
        ctx.rec.nt(["c03", W], {"components": [(c["name"], c["stage"], [wfgen.ref_string(W, i, r) for r in c["refs"]],
                                                c["replicate"] or "", "agg" if c["aggregate"] else "")
                                               for i, c in enumerate(W["components"])], "n": W["n"]})


def _comp(name, stage=0, refs=(), **kw):
    c = {"name": name, "stage": stage, "refs": [dict({"abs": False, "method": "ref", "path": None}, **r) for r in refs],
         "replicate": None, "aggregate": False, "repeat": None, "shutdownOn": [], "restartHookOn": None,
         "maxRestarts": None, "lits": []}
    c.update(kw)
    return c


def boundary_catalogue():
    """Deterministic family, run on every run: a replicated producer X next to a producer whose name ends/starts with
    X behind every character that may separate name parts, both consumed by one replica and by one aggregator, in
    either spelling and with / without a path - the text of one reference must never be rewritten inside the other."""
    out = []
    for other in ("A-X", "A_X", "A.X", "AX", "X-A", "X.A", "X_A", "XA", "0X"):
        for path in (None, "out.txt"):
            for abs_ in (False, True):
                for order in ((0, 1), (1, 0)):
                    comps = [_comp("X", replicate="lit"), _comp(other)]
                    refs = [{"p": p, "abs": abs_, "path": path} for p in order]
                    comps.append(_comp("Use", refs=refs))                       # replicated consumer (one per replica)
                    comps.append(_comp("Agg", stage=1, refs=[dict(r, abs=True) for r in refs], aggregate=True))
                    W = {"n": 2, "components": comps}
                    if wfgen.unique_after_expansion(W) and wfgen.name_ok(other):
                        out.append(W)
    # the same component name in two stages, consumed through textually identical RELATIVE references by a replicated
    # component of each stage (the text means a different producer in each stage)
    for path in (None, "conf.txt"):
        for rep_stage in (0, 1):
            comps = [_comp("Prepare", 0), _comp("Sim", 0, refs=[{"p": 0, "path": path}],
                                                replicate="lit" if rep_stage == 0 else None),
                     _comp("Prepare", 1), _comp("Sim", 1, refs=[{"p": 2, "path": path}],
                                                replicate="lit" if rep_stage == 1 else None)]
            out.append({"n": 2, "components": comps})
    return out


def shard(ctx: Ctx):
    for idx, W in enumerate(boundary_catalogue()):
        if idx % ctx.nshards != ctx.shard or ctx.stop:
            continue
        ctx.rec.evaluations += 1
        try:
            check(W, ctx)
        except Violation as v:
            v.case, v.sub = W, "expand"
            ctx.rec.violations.append(v.to_dict())
            ctx.stop = True
            return
    explore(ctx, "expand", cases(), check, ctx.n(4000, 200000), batch=500)


def replay(sub, case, ctx: Ctx):
    check(case, ctx)
