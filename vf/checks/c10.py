"""C10 — command-line reference substitution is exact (ComponentSpecification.resolveArguments).

sub `resolve` : a generated package (2-5 producers with confusable names over 1-3 stages, files behind `:output`
                references, references to input/, data/ and absolute paths) is loaded as a real Experiment instance.
                It holds 1-3 generated argument strings (token list of literal text and `ref` / `output` references
                in relative or absolute spelling, realistic separators); each string is given to 2-3 consumer
                components that differ only in the declaration order (a permutation, its reverse, optionally a third)
                of their `references`.  For every consumer
                `componentSpecification.resolveArguments()` must equal the concatenation of the literals and each
                reference's own value (model: vf/model/c10_expected.py, storage layout + file contents written by the
                harness), and `checkDataReferences()` must not report unused / undeclared references.
"""
from __future__ import annotations

import os
import shutil

from ..core import Ctx, Violation, explore
from ..gen import c10_args as G
from ..model import c10_expected as M

ID = "C10"
LEVEL = "exploration"
RULE = ("one evaluation = one instantiated package with 1-3 argument strings, each resolved under 2-3 declaration "
        "orders of its references. Non-trivial (counted per argument string) = the argument string uses >=2 declared "
        "references whose texts overlap (a "
        "spelling of one reference is a proper substring of the spelling another one is written with: producer names "
        "that are suffixes of each other, `stage<i>.X:ref` vs the relative `X:ref` of a same-named component of the "
        "consumer's stage, `A/input/f.txt:ref` vs `input/f.txt:ref`, ...), or one reference written in both "
        "spellings, or an `output` file whose text contains the spelling of a declared reference; distinct = distinct "
        "(argument string, declaration lists) values.")
ASSUMPTIONS = [
    "only `ref` and `output` references occur in argument strings (resolveArguments documents every other `:method` "
    "in a command line as unsupported); copy/link/copyout/extract references are declared only. DoWhile "
    "`loopref`/`loopoutput` references are not generated",
    "references in arguments are delimited as the repository's own tokeniser (FlowIR.discover_reference_strings) "
    "requires: the preceding character is outside [.a-zA-Z0-9_/-]; the following one is one of space , \" ' ) ; : / "
    "or the end of the string; literal text contains no ':' (hence no ':<method>'), '%' or '['",
    "the value of an `output` reference is the text of the file with trailing newlines removed (utf-8)",
    "every file behind an `output` reference exists when the arguments are resolved; `ref` targets need not exist",
    "every declared `ref`/`output` reference is used at least once; each reference is declared once",
    "the expected path of a component reference is <instance>/stages/stage<i>/<name>[/<file>], of `input/..` and "
    "`data/..` references <instance>/<path>, of an absolute path the path itself; stdout of a producer is "
    "<working dir>/out.stdout",
    "packages are loaded without the experiment-level validation step (it calls the code under test and would hide "
    "the result); the FlowIR validation performed while loading is kept and must accept every generated package",
]
TIERS = {"quick": {"shards": 8, "budget": 150}, "thorough": {"shards": 16, "budget": 1500}}


def _sig_for(case, group, feats, got, exp, inst):
    prods, cstage = case["producers"], case["cstage"]
    for i in feats["mixed"]:
        for s in G.spellings(prods, cstage, group["refs"][i]):
            if s in got and s not in exp:
                return "both-spellings-used-one-left-unresolved"
    for loc, s2 in feats["rescans"]:
        # the inserted file text shows up with the reference-like text inside it substituted as well
        text = case["contents"][loc].rstrip("\n")
        for r in group["refs"]:
            if r["method"] in G.SUBST_METHODS and s2 in G.spellings(prods, cstage, r):
                again = text.replace(s2, M.value_of(case, r, inst))
                if again != text and again in got and again not in exp:
                    return "substituted-file-contents-rescanned"
    if feats["overlaps"]:
        return "reference-text-inside-longer-reference-replaced"
    return "resolved-arguments-differ"


def _overlap_kind(a: str, b: str) -> str:
    """`a` (a spelling of one reference) is a proper substring of `b` (the spelling another one is written with)."""
    if b.startswith("stage") and b.endswith("." + a) and b.count(".") == a.count(".") + 1:
        return "stage-prefix"              # stage0.X:ref  vs the relative X:ref of the consumer's stage
    if a.split("/")[0] in ("input", "data"):
        return "direct-in-path"            # A/input/f.txt:ref  vs  input/f.txt:ref
    if "/" + a in b:
        return "name-in-path"              # A/B:ref  vs  B:ref
    return "name-suffix"                   # BA:ref  vs  A:ref


def check_resolve(case, ctx: Ctx):
    import experiment.model.errors as E
    from ..gen import pkg

    prods, cstage = case["producers"], case["cstage"]
    doc = G.flowir(case)
    loc = ctx.mkdtemp()
    try:
        extra = {p: t for p, t in case["contents"].items() if p.startswith("data/")}
        try:
            exp_obj = pkg.experiment_from_flowir(doc, loc, extra_files=extra, validate=False)
        except E.ExperimentInvalidConfigurationError as e:
            # generator domain problem, not a verdict: visible in the evidence and must stay at zero
            ctx.rec.label("rejected-at-load")
            ctx.rec.cover("load_rejections", str(e)[-240:].replace(loc, "$LOC"))
            return
        inst = exp_obj.instanceDirectory.location
        for rel, text in case["contents"].items():
            full = os.path.join(inst, rel)
            os.makedirs(os.path.dirname(full), exist_ok=True)
            with open(full, "wb") as f:
                f.write(text.encode("utf-8"))
        graph = exp_obj.experimentGraph.graph
        ctx.rec.label("cstage:%d" % cstage, "groups:%d" % len(case["groups"]))
        if len({p["name"] for p in prods}) < len(prods):
            ctx.rec.label("same-name-across-stages")
        for g, group in enumerate(case["groups"]):
            _check_group(case, g, group, graph, inst, ctx)
        # "the contents of the referenced file": the files behind :output references are rewritten (a repeating or
        # restarted producer) and the same component objects resolve their arguments again
        if any(r["method"] == "output" for group in case["groups"] for r in group["refs"]):
            case2 = dict(case, contents={rel: "second " + text for rel, text in case["contents"].items()})
            for rel, text in case2["contents"].items():
                with open(os.path.join(inst, rel), "wb") as f:
                    f.write(text.encode("utf-8"))
            for g, group in enumerate(case["groups"]):
                want = M.expected(case2, group, inst)
                for k, order in enumerate(group["orders"]):
                    spec = graph.nodes["stage%d.%s" % (cstage, G.consumer_name(g, k))]["componentSpecification"]
                    try:
                        got = spec.resolveArguments()
                    except Exception as e:
                        raise Violation("resolve-arguments-raises-" + type(e).__name__,
                                        "second resolution of %r: %s: %s" % (G.arguments(case, group), type(e).__name__,
                                                                             str(e)[:300].replace(inst, "$I")))
                    if got != want:
                        first = M.expected(case, group, inst)
                        raise Violation("stale-value-after-referenced-file-changed" if got == first else
                                        "second-resolution-differs-from-expected",
                                        "arguments %r: after the referenced files were rewritten the arguments resolve "
                                        "to %r, expected %r" % (G.arguments(case, group), got.replace(inst, "$I"),
                                                                want.replace(inst, "$I")))
            ctx.rec.label("resolved-again-after-rewrite")
    finally:
        shutil.rmtree(loc, ignore_errors=True)


def _check_group(case, g, group, graph, inst, ctx: Ctx):
    import experiment.model.errors as E
    cstage, refs = case["cstage"], group["refs"]
    args = G.arguments(case, group)
    feats = M.features(case, group)
    want = M.expected(case, group, inst)
    results = []
    for k, order in enumerate(group["orders"]):
        spec = graph.nodes["stage%d.%s" % (cstage, G.consumer_name(g, k))]["componentSpecification"]
        decl = G.declared(case, group, order)
        try:
            got = spec.resolveArguments()
        except Exception as e:
            raise Violation("resolve-arguments-raises-" + type(e).__name__,
                            "arguments %r references %r: %s: %s" % (args, decl, type(e).__name__,
                                                                    str(e)[:300].replace(inst, "$I")))
        results.append((decl, got, spec))
    for decl, got, _ in results:
        if got != want:
            others = [d for d, x, _ in results if x == want]
            note = " [declared as %r the result IS the expected one: order dependent]" % others[0] if others else ""
            raise Violation(_sig_for(case, group, feats, got, want, inst),
                            "arguments %r with references declared %r resolve to %r, expected %r%s "
                            "(overlapping texts %r, mixed spellings %r, contents %r)" % (
                                args, decl, got.replace(inst, "$I"), want.replace(inst, "$I"), note,
                                feats["overlaps"][:3], [refs[i] for i in feats["mixed"]],
                                {l: case["contents"][l] for l, _ in feats["rescans"]}))
    # the validation built on top of the substitution must accept these well-formed components
    # (it scans the RESOLVED string for ':<method>', so file contents that contain such text are left out)
    texts = [case["contents"][G.target_relpath(case["producers"], r)] for r in refs if r["method"] == "output"]
    if not any(":%s" % m in t for t in texts for m in ("ref", "output", "copy", "link", "extract")):
        for decl, got, spec in results:
            try:
                spec.checkDataReferences()
            except (E.UnusedDataReferenceError, E.UndeclaredDataReferenceError) as e:
                raise Violation("wellformed-references-reported-" + type(e).__name__,
                                "arguments %r references %r: %s" % (args, decl, str(e)[:300].replace(inst, "$I")))
    # coverage
    methods = sorted({refs[t[1]]["method"] for t in group["tokens"] if t[0] == "ref"})
    ctx.rec.label("overlap" if feats["overlaps"] else "no-overlap",
                  "mixed-spellings" if feats["mixed"] else "one-spelling-per-ref",
                  "orders:%d" % len(group["orders"]), "methods:" + "+".join(methods))
    if feats["rescans"]:
        ctx.rec.label("content-mentions-reference")
    if any(r["kind"] == "direct" for r in refs):
        ctx.rec.label("has-direct-reference")
    if any(r["method"] in G.DISTRACTOR_METHODS for r in refs):
        ctx.rec.label("has-declared-only-reference")
    for kind in sorted({_overlap_kind(a, b) for a, b in feats["overlaps"]}):
        ctx.rec.label("overlap:" + kind)
    if feats["overlaps"] or feats["mixed"] or feats["rescans"]:
        decls = [d for d, _, _ in results]
        ctx.rec.nt([args, decls], {"arguments": args, "declared": decls, "overlaps": feats["overlaps"][:4],
                                   "mixed": bool(feats["mixed"]), "content_mentions": feats["rescans"][:2], "expected": want.replace(inst, "$I")},
                   group="resolve")


def check_repeating_output(case, ctx: Ctx):
    """A bare :output reference to a repeating producer is the contents of its most recent stdout stream
    (streams/<n>.stdout with the numerically highest n): "that reference's own value" after n+1 executions."""
    from ..gen import pkg
    doc = {"components": [
        {"name": "Monitor", "stage": 0, "command": {"executable": "echo", "arguments": "hello"},
         "workflowAttributes": {"repeatInterval": 5}},
        {"name": "Other", "stage": 0, "command": {"executable": "echo", "arguments": "world"}},
        {"name": "Consumer", "stage": 1 if case["abs"] else 0,
         "command": {"executable": "echo", "arguments": "--last %s --dir stage0.Other:ref lit:text" % case["ref"]},
         "references": ["stage0.Other:ref", case["ref"]]}]}
    loc = ctx.mkdtemp()
    try:
        exp_obj = pkg.experiment_from_flowir(doc, loc, validate=False)
        inst = exp_obj.instanceDirectory.location
        streams = os.path.join(inst, "stages", "stage0", "Monitor", "streams")
        os.makedirs(streams, exist_ok=True)
        spec = exp_obj.experimentGraph.graph.nodes["stage%d.Consumer" % (1 if case["abs"] else 0)]["componentSpecification"]
        for count in case["counts"]:
            for i in range(count):
                path = os.path.join(streams, "%d.stdout" % i)
                if not os.path.exists(path):
                    with open(path, "w") as f:
                        f.write("run-%d\n" % i)
            got = spec.resolveArguments()
            want = "--last run-%d --dir %s lit:text" % (count - 1, os.path.join(inst, "stages", "stage0", "Other"))
            if got != want:
                raise Violation("repeating-producer-output-not-latest-stream",
                                "with %d stdout streams %r resolves to %r, expected %r" % (
                                    count, case["ref"], got.replace(inst, "$I"), want.replace(inst, "$I")))
        ctx.rec.label("repeating-output:%s" % ("abs" if case["abs"] else "rel"))
    finally:
        shutil.rmtree(loc, ignore_errors=True)


def repeating_output_anchors():
    return [{"ref": "stage0.Monitor:output", "abs": True, "counts": [1, 3, 10, 11, 12, 101]},
            {"ref": "Monitor:output", "abs": False, "counts": [2, 10, 11, 100, 101]}]


def shard(ctx: Ctx):
    for idx, case in enumerate(repeating_output_anchors()):
        if idx % ctx.nshards != ctx.shard or ctx.stop:
            continue
        ctx.rec.evaluations += 1
        try:
            check_repeating_output(case, ctx)
        except Violation as v:
            v.case, v.sub = case, "repeating-output"
            ctx.rec.violations.append(v.to_dict())
            ctx.stop = True
            return
    explore(ctx, "resolve", G.cases(), check_resolve, ctx.n(2000, 60000), batch=125)


def replay(sub, case, ctx: Ctx):
    (check_repeating_output if sub == "repeating-output" else check_resolve)(case, ctx)
