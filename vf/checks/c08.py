"""C08 — configuration queries always reflect the latest updates (cache coherence of FlowIRConcrete).

A case is a *history*: an initial FlowIR description (platforms default/P[/Q], 2 stages, 1-4 components whose fields
reference variables at all scopes) and a JSON list of operations interpreted against one live FlowIRConcrete:

  setvar/delvar      set_component_variable / delete_component_variable
  setopt/delopt      set_component_option('#a.b.c' | 'var') / remove_component_option
  setglobal/setstage set_global_variable / set_stage_variable
  setpglobal/setpstage  set_platform_global_variable / set_platform_stage_variable (platform explicit or None=active)
  add/update/delete  add_component / update_component (same id) / delete_component
  refglobal/refstage/refcomp  get_platform_global_variables / get_platform_stage_variables / get_component with
                     return_copy=False, the returned mapping changed at once (set or delete one variable)
  setactive          configure_platform(P): queries that name no platform follow the active platform
  query              get_component_configuration(comp, platform, flavour) [+ scribble all over the returned dict]

Oracle (differential relation named in the property's `observe_at`): after every step, for every component that exists
or ever existed in the history and every platform, `live.get_component_configuration(raw=False, include_default=True)`
must give the same value (type-exact canonical JSON) or the same exception class as a FlowIRConcrete rebuilt from
scratch from `live.raw()`. Every configuration returned to the harness (by a verification read or by a `query` op with
the scribble flag, on the cache-miss and on the cache-hit path) is then changed in place, recursively; this must
change neither `raw()` nor the answer of the same query repeated immediately, nor any later answer.
Other query flavours (raw=True, include_default=False, is_primitive=True) are not "the resolved configuration": they
are interleaved reads / scribble targets, compared only with themselves before/after the scribble.

Failure signatures name the root cause: `stale-after:<op>` (the pre-update answer survived update <op>),
`wrong-cache-entry` (an entry that was filled after the last update is wrong, e.g. served for another platform),
`returned-config-not-private`, `returned-config-aliases-description`, `uncached-answer-differs-from-rebuilt:<op>`
(not a cache problem: the live description resolves differently from its own raw() reloaded).

sub `direct`: mutators called on the FlowIRConcrete.
sub `conf`  : the same histories through an in-memory FlowIRExperimentConfiguration: component options go through
              setOptionForNode / removeOptionForNode and active-platform queries through configurationForNode.
"""
from __future__ import annotations

import copy
import json
import re

from hypothesis import strategies as st

from ..core import Ctx, Violation, explore

ID = "C08"
LEVEL = "exploration"
RULE = ("histories of 1..24 (thorough ..60) public mutator/query calls on one FlowIRConcrete; after every step every "
        "(component, platform) is queried and compared with a FlowIRConcrete rebuilt from raw() (30% of the histories "
        "query only where the history says so, plus once at the end, so that partially filled caches are explored "
        "too). Non-trivial = the history contains at least one *effective write on a cached entry*: a mutator that "
        "succeeded, changed the from-scratch answer of some (component, platform) and that pair was held by the cache "
        "when the mutator was called (sparse-probing histories: a mutator that succeeded while the cache was "
        "not empty). distinct = distinct (initial description, operation list) values.")
ASSUMPTIONS = [
    "only the public mutators named in the statement are used; live references obtained with return_copy=False are "
    "never retained by the harness, and every description handed to add_component/update_component is a fresh object",
    "update_component is only called with a description that has the id of the component it replaces",
    "variables are only set for platforms declared in the initial description (add_platform / undeclared platforms "
    "are outside the statement: FlowIRConcrete.add_platform creates a platform without 'global'/'stages' sections and "
    "queries for it fail with FlowIRInconsistency until the description is reloaded)",
    "queries use the flag combinations that callers in the repository use: (raw=False, include_default=True) [the "
    "cached flavour], raw=True, include_default=False and (is_primitive=True, ignore_convert_errors=True); the "
    "combination (is_primitive=False, ignore_convert_errors=True), which no caller uses, would be served from / stored "
    "in the same cache entry as the strict flavour and is not generated",
    "a mutator that raises (unknown component/variable, missing intermediate option section, set_stage_variable for a "
    "stage without a default stage-variable section) counts as a rejected update, not as a violation; the oracle is "
    "still evaluated after it",
    "'equals' = same canonical JSON (1, 1.0, True and '1' are different) or same exception class",
    "component names are drawn from [A-Za-z0-9_.-]+ (DESIGN.md 2.1: what the repository's reference tokeniser "
    "accepts). FlowIRConcrete.validate() also accepts names such as 'a[0]' or 'a(b'; for those the invalidation "
    "pattern, which is built without re.escape, does not match (stale entry) or does not compile (re.error from the "
    "setter). They are not generated (SPECIAL_POOL documents how to)",
]
TIERS = {"quick": {"shards": 8, "budget": 240}, "thorough": {"shards": 16, "budget": 2400}}

SCRIBBLE = "__C08_SCRIBBLE__"
UNATTRIBUTED = "cache-incoherent-only-with-sparse-queries"

# ------------------------------------------------------------------------------------------------------------
# domain
POOL = [[0, "a"], [0, "ab"], [1, "a"], [1, "b"], [0, "a.b"], [0, "aXb"], [1, "b0"]]   # confusable names
# Not generated (see ASSUMPTIONS): names that FlowIRConcrete.validate() accepts but that are outside the name domain of
# DESIGN.md 2.1. `history(pool=POOL + SPECIAL_POOL)` explores them; their failures get the suffix "@regex-special-name".
SPECIAL_POOL = [[0, "a[0]"], [0, "a(b"], [1, "b+"]]
VARS = ["g", "n", "w", "v", "s", "t"]
# g, n, w hold literals only; v, s, t may reference g/n/w: no reference cycles by construction
VALUES = {
    "g": ["G", "H", "g g"],
    "w": ["W", "w2"],
    "n": ["1", "2", "3", 4, "2", "1", "3", 5, "10", "2", "1", "x"],
    "v": ["x", "%(g)s", "%(w)s/%(n)s", "5", 6],
    "s": ["S", "%(g)s-s", "7"],
    "t": ["T", "%(n)s", "%(w)s"],
}
ARG_TOKENS = ["%(g)s", "%(s)s", "%(v)s", "%(n)s", "%(w)s", "%(t)s", "lit", "-x", "%(v)s:%(s)s"]
EXES = ["echo", "/bin/true", "%(w)s"]
OPTIONS = {
    "#command.arguments": None,      # value = argument string
    "#command.executable": EXES,
    "#command.expandArguments": ["none", "double-quote"],
    "#resourceRequest.numberThreads": ["%(n)s", 2, "3"],
    "#workflowAttributes.maxRestarts": ["%(n)s", 1, None],
    "#resourceManager.config.walltime": ["%(n)s", 30.0, "15"],
    "#variables.v": VALUES["v"],
    "#override.P.command.arguments": None,
    "#override.P.variables.v": VALUES["v"],
}
FLAVOURS = {
    "full": dict(raw=False, include_default=True),
    "raw": dict(raw=True, include_default=True),
    "nodefault": dict(raw=False, include_default=False),
    "primitive": dict(raw=False, include_default=True, is_primitive=True, ignore_convert_errors=True),
}
MUTATORS = ["fork", "refglobal", "refstage", "refcomp", "setactive", "setvar", "delvar", "setopt", "delopt", "setglobal", "setstage", "setpglobal", "setpstage", "add",
            "update", "delete"]


def _args():
    return st.lists(st.sampled_from(ARG_TOKENS), min_size=0, max_size=4).map(" ".join)


def _value(name):
    return st.sampled_from(VALUES[name])


def _vardict(max_size=3):
    return st.lists(st.sampled_from(VARS), max_size=max_size, unique=True).flatmap(
        lambda names: st.fixed_dictionaries({n: _value(n) for n in names}))


@st.composite
def comp_desc(draw, cid, platforms):
    c = {"stage": cid[0], "name": cid[1],
         "command": {"executable": draw(st.sampled_from(EXES)), "arguments": draw(_args())}}
    if draw(st.integers(0, 7)) == 0:
        # an interpreter component: its script is the first word of the (non-empty) arguments
        c["command"] = {"interpreter": "bash", "arguments": ("run.sh " + c["command"]["arguments"]).strip()}
    if draw(st.integers(0, 9)) < 9:
        c["variables"] = draw(_vardict())
    if draw(st.booleans()):
        c["resourceRequest"] = draw(st.sampled_from([{}, {"numberThreads": "%(n)s"}, {"numberThreads": 2}]))
    if draw(st.booleans()):
        c["workflowAttributes"] = draw(st.sampled_from([{}, {"maxRestarts": "%(n)s"}, {"aggregate": True},
                                                        {"repeatInterval": "%(n)s"}]))
    if draw(st.booleans()):
        c["resourceManager"] = {"config": draw(st.sampled_from([{}, {"walltime": "%(n)s"}, {"backend": "local"}]))}
    if draw(st.integers(0, 5)) == 0:
        c.setdefault("resourceManager", {})["kubernetes"] = {"podSpec": draw(st.sampled_from([
            {"tolerations": [{"key": "k-%s" % cid[1]}]}, {"nodeSelector": {"pool": "own-%(g)s"}}]))}
    if draw(st.integers(0, 3)) == 0:
        c["references"] = ["data/f%(n)s.txt:ref"]
    others = [p for p in platforms if p != "default"]
    if draw(st.integers(0, 2)) == 0:
        ov = {}
        for p in others:
            if draw(st.booleans()):
                o = {}
                if draw(st.booleans()):
                    o["command"] = {"arguments": draw(_args())}
                if draw(st.booleans()):
                    o["variables"] = draw(_vardict(2))
                ov[p] = o
        c["override"] = ov
    return c


@st.composite
def blueprint_layer(draw):
    return draw(st.sampled_from([
        {}, {}, {"resourceRequest": {"numberThreads": "%(n)s"}}, {"command": {"expandArguments": "none"}},
        {"workflowAttributes": {"maxRestarts": 2}}, {"resourceManager": {"config": {"walltime": "%(n)s"}}},
        {"command": {"arguments": "bp %(g)s"}},
        # a free-form dictionary option that the built-in defaults leave at None
        {"resourceManager": {"kubernetes": {"podSpec": {"schedulerName": "sched-%(g)s", "nodeSelector": {"pool": "bp"}}}}},
        {"resourceManager": {"kubernetes": {"podSpec": {"nodeSelector": {"pool": "%(n)s"}}}}}]))


@st.composite
def history(draw, max_ops=24, pool=POOL):
    platforms = ["default", "P"] + (["Q"] if draw(st.booleans()) else [])
    active = draw(st.sampled_from(platforms))
    nstages = 2
    # variables: default global defines most names so that most queries resolve
    gvars = {p: {} for p in platforms}
    for n in VARS:
        if draw(st.integers(0, 39)) < 39:
            gvars["default"][n] = draw(_value(n))
    svars = {p: {} for p in platforms}
    for p in platforms:
        if p != "default":
            gvars[p] = draw(_vardict(2))
        for s in range(nstages):
            if draw(st.integers(0, 3)) < (3 if p == "default" else 1):
                svars[p][str(s)] = draw(_vardict(2))
    blueprint = {}
    if draw(st.booleans()):
        for p in platforms:
            if draw(st.booleans()):
                blueprint[p] = {"global": draw(blueprint_layer()),
                                "stages": {str(s): draw(blueprint_layer()) for s in range(nstages)
                                           if draw(st.booleans())}}
    ids = draw(st.lists(st.sampled_from(pool), min_size=1, max_size=4, unique_by=lambda x: tuple(x)))
    comps = [draw(comp_desc(cid, platforms)) for cid in ids]
    spec = {"platforms": platforms, "active": active, "gvars": gvars, "svars": svars, "blueprint": blueprint,
            "comps": comps}

    # operations; a light model of "which components / component variables exist" biases targets towards hits
    exists = {(c["stage"], c["name"]): set(c.get("variables", {})) for c in comps}
    nops = draw(st.one_of(st.integers(1, 8), st.integers(1, max_ops)))
    ops = []
    kinds = (["setvar"] * 3 + ["delvar"] * 2 + ["setopt"] * 3 + ["delopt"] + ["setglobal"] * 2 + ["setstage"] * 2 +
             ["setpglobal"] * 2 + ["setpstage"] * 2 + ["add"] + ["update"] * 2 + ["delete"] + ["query"] * 4 +
             ["setactive"] + ["refglobal", "refstage", "refcomp"] + ["fork"])

    def target():
        if exists and draw(st.integers(0, 9)) < 9:
            return list(draw(st.sampled_from(sorted(exists))))
        return list(draw(st.sampled_from(pool)))

    for _ in range(nops):
        k = draw(st.sampled_from(kinds))
        if k == "setvar":
            cid = target()
            n = draw(st.sampled_from(VARS))
            ops.append([k, cid, n, draw(_value(n))])
            if tuple(cid) in exists:
                exists[tuple(cid)].add(n)
        elif k == "delvar":
            cid = target()
            have = sorted(exists.get(tuple(cid), ()))
            n = draw(st.sampled_from(have)) if have and draw(st.integers(0, 9)) < 9 else draw(st.sampled_from(VARS))
            ops.append([k, cid, n])
            exists.get(tuple(cid), set()).discard(n)
        elif k == "setopt":
            cid = target()
            if draw(st.integers(0, 3)) == 0:
                n = draw(st.sampled_from(VARS))
                ops.append([k, cid, n, draw(_value(n))])
                if tuple(cid) in exists:
                    exists[tuple(cid)].add(n)
            else:
                route = draw(st.sampled_from(sorted(OPTIONS)))
                vals = OPTIONS[route]
                ops.append([k, cid, route, draw(_args()) if vals is None else draw(st.sampled_from(vals))])
        elif k == "delopt":
            cid = target()
            if draw(st.integers(0, 3)) == 0:
                have = sorted(exists.get(tuple(cid), ()))
                n = draw(st.sampled_from(have)) if have else draw(st.sampled_from(VARS))
                ops.append([k, cid, n])
                exists.get(tuple(cid), set()).discard(n)
            else:
                ops.append([k, cid, draw(st.sampled_from(sorted(OPTIONS)))])
        elif k == "setglobal":
            n = draw(st.sampled_from(VARS))
            ops.append([k, n, draw(_value(n))])
        elif k == "setstage":
            n = draw(st.sampled_from(VARS))
            ops.append([k, draw(st.integers(0, nstages - 1)), n, draw(_value(n))])
        elif k == "setpglobal":
            n = draw(st.sampled_from(VARS))
            # "N" is a platform that no section declares: set_platform_stage_variable creates it (a platform first created
            # through the *global* setter is unusable until the description is reloaded - lateral defect, not generated)
            have_n = any(o[0] == "setpstage" and o[4] == "N" for o in ops)
            ops.append([k, n, draw(_value(n)), draw(st.sampled_from(platforms + [None] + (["N"] if have_n else [])))])
        elif k == "setpstage":
            n = draw(st.sampled_from(VARS))
            ops.append([k, draw(st.integers(0, nstages - 1)), n, draw(_value(n)),
                        draw(st.sampled_from(platforms + [None] + platforms + [None, "N"]))])
        elif k == "refglobal":
            # the by-reference getters: get_platform_*_variables(return_copy=False) / get_component(return_copy=False)
            # hand out the stored mapping (and invalidate at that moment); the caller changes it at once
            n = draw(st.sampled_from(VARS))
            ops.append([k, draw(st.sampled_from(platforms)), n, draw(st.one_of(st.none(), _value(n)))])
        elif k == "refstage":
            n = draw(st.sampled_from(VARS))
            ops.append([k, draw(st.integers(0, nstages - 1)), draw(st.sampled_from(platforms)), n,
                        draw(st.one_of(st.none(), _value(n)))])
        elif k == "refcomp":
            cid = target()
            n = draw(st.sampled_from(VARS))
            ops.append([k, cid, n, draw(st.one_of(st.none(), _value(n)))])
            if tuple(cid) in exists:
                exists[tuple(cid)].add(n)
        elif k == "setactive":
            # configure_platform(): queries that name no platform now mean another platform
            ops.append([k, draw(st.sampled_from(platforms))])
        elif k == "fork":
            # a copy of the description object is taken (get_flowir_concrete(return_copy=True) / copy()), updated and
            # queried by its owner; the original was not updated at all
            n = draw(st.sampled_from(VARS))
            ops.append([k, n, draw(_value(n))])
        elif k == "add":
            absent = [c for c in pool if tuple(c) not in exists]
            cid = draw(st.sampled_from(absent)) if absent and draw(st.integers(0, 9)) < 9 else \
                draw(st.sampled_from(pool))
            d = draw(comp_desc(cid, platforms))
            ops.append([k, d])
            exists.setdefault(tuple(cid), set(d.get("variables", {})))
        elif k == "update":
            cid = target()
            d = draw(comp_desc(cid, platforms))
            ops.append([k, cid, d])
            if tuple(cid) in exists:
                exists[tuple(cid)] = set(d.get("variables", {}))
        elif k == "delete":
            cid = target()
            ops.append([k, cid])
            exists.pop(tuple(cid), None)
        else:
            cid = target()
            flavour = draw(st.sampled_from(["full"] * 5 + ["raw", "nodefault", "primitive"]))
            ops.append(["query", cid, draw(st.sampled_from(platforms + [None] + platforms + ["N"])), flavour,
                        draw(st.integers(0, 9)) < 4])
    return {"spec": spec, "probe": "all" if draw(st.integers(0, 9)) < 7 else "sparse", "ops": ops}


# ------------------------------------------------------------------------------------------------------------
# interpreter
def render(spec):
    """The FlowIR dictionary of a case (stage keys become ints again after a JSON round trip)."""
    variables = {}
    for p in spec["platforms"]:
        variables[p] = {"global": copy.deepcopy(spec["gvars"].get(p, {})),
                        "stages": {int(s): copy.deepcopy(v) for s, v in sorted(spec["svars"].get(p, {}).items())}}
    blueprint = {}
    for p, b in sorted(spec["blueprint"].items()):
        blueprint[p] = {"global": copy.deepcopy(b.get("global", {})),
                        "stages": {int(s): copy.deepcopy(v) for s, v in sorted(b.get("stages", {}).items())}}
    doc = {"platforms": list(spec["platforms"]), "variables": variables,
           "components": copy.deepcopy(spec["comps"])}
    if blueprint:
        doc["blueprint"] = blueprint
    return doc


def _canon(o):
    if isinstance(o, dict):
        return {"%s:%s" % (type(k).__name__, k): _canon(v) for k, v in o.items()}
    if isinstance(o, (list, tuple)):
        return [_canon(x) for x in o]
    return o


def canon(o) -> str:
    return json.dumps(_canon(o), sort_keys=True, default=repr)


def _without_empty(o):
    """Copy of a JSON-like value without mappings/lists that are (recursively) empty."""
    if isinstance(o, dict):
        out = {}
        for k, v in o.items():
            w = _without_empty(v)
            if isinstance(w, (dict, list)) and not w:
                continue
            out[k] = w
        return out
    if isinstance(o, list):
        return [_without_empty(x) for x in o]
    return o


def _first_difference(a, b, path=""):
    if isinstance(a, dict) and isinstance(b, dict):
        for k in sorted(set(a) | set(b), key=str):
            if a.get(k) != b.get(k):
                return _first_difference(a.get(k), b.get(k), path + "/" + str(k))
    return "%s: %s -> %s" % (path or "/", json.dumps(a)[:200], json.dumps(b)[:200])


def scribble(o):
    """Change every container reachable from `o` in place."""
    if isinstance(o, dict):
        for k in list(o):
            if isinstance(o[k], (dict, list)):
                scribble(o[k])
            else:
                o[k] = SCRIBBLE
        o[SCRIBBLE] = SCRIBBLE
    elif isinstance(o, list):
        for i, x in enumerate(o):
            if isinstance(x, (dict, list)):
                scribble(x)
            else:
                o[i] = SCRIBBLE
        o.append(SCRIBBLE)


def node_name(cid):
    return "stage%d.%s" % (cid[0], cid[1])


class History:
    def __init__(self, case, ctx: Ctx, via: str, probe: str):
        import experiment.model.frontends.flowir as F
        self.F = F
        self.case = case
        self.ctx = ctx
        self.via = via
        self.probe = probe
        spec = case["spec"]
        self.platforms = list(spec["platforms"])
        self.active = spec["active"]
        live = F.FlowIRConcrete(render(spec), self.active, None)
        self.conf = None
        if via == "conf":
            import experiment.model.conf as C
            self.conf = C.FlowIRExperimentConfiguration(
                None, self.active, None, None, False, False, True, concrete=live, updateInstanceFiles=False,
                validate=False)
            live = self.conf.get_flowir_concrete(return_copy=False)
            if live.active_platform != self.active:
                raise RuntimeError("harness: configuration did not keep the active platform")
        self.live = live
        self.ever = sorted({(d["stage"], d["name"]) for d in spec["comps"]})
        self._fresh_key = None
        self._stripped_key = None
        self._fresh = None
        self._fresh_answers = {}
        self.prev_full = None          # answers of the from-scratch object after the previous step
        self.effective = []            # op kinds of effective writes on cached entries

    # -- observations -------------------------------------------------------------------------------------
    def ask(self, concrete, cid, platform, flavour, want_obj=False):
        try:
            if self.conf is not None and concrete is self.live and flavour == "full" and platform in (None, self.active):
                r = self.conf.configurationForNode(node_name(cid), raw=False, omitDefault=False)
            else:
                r = concrete.get_component_configuration(tuple(cid), platform=platform, **FLAVOURS[flavour])
        except Exception as e:     # the code under test decides; compared by class with the from-scratch object
            return ("exc", type(e).__name__), None
        return ("ok", canon(r)), (r if want_obj else None)

    def refresh(self):
        """(Re)build the from-scratch object if the description changed. Called at load and after every mutator."""
        raw = self.live.raw()
        key = canon(raw)
        if key != self._fresh_key:
            self._fresh_key = key
            self._stripped_key = canon(_without_empty(raw))
            self._fresh = self.F.FlowIRConcrete(raw, self.active, None)
            self._fresh_answers = {}

    def spoil(self, step, op, obj):
        """Change a returned configuration in place; raw() must be the same immediately before and after. (A query may
        itself normalise the description, e.g. add an empty `global` scope to a platform that a stage-level setter
        created; that is not a change made through the returned object, so the snapshot is taken after the query.)"""
        pre = canon(self.live.raw())
        scribble(obj)
        if canon(self.live.raw()) != pre:
            raise Violation("returned-config-aliases-description",
                            "step %d (%s): changing a returned configuration in place changed raw()" % (
                                step, json.dumps(op)))

    def description_untouched(self, step, op):
        """Queries only. A query may normalise the description by adding empty scopes (e.g. an empty `global` for a
        platform that a stage-level setter created); anything else it changes in raw() is a corruption of the
        description (e.g. a stored blueprint that received the values of the component just resolved)."""
        now = canon(_without_empty(self.live.raw()))
        if self._fresh_key is not None and now != self._stripped_key:
            raise Violation("query-changed-description",
                            "step %d (%s): raw() differs after queries only (empty containers ignored): %s" % (
                                step, json.dumps(op), _first_difference(json.loads(self._stripped_key), json.loads(now))))
        self.refresh()

    def fresh_ask(self, cid, platform, flavour):
        k = (tuple(cid), platform, flavour)
        if k not in self._fresh_answers:
            self._fresh_answers[k] = self.ask(self._fresh, cid, platform, flavour)[0]
        return self._fresh_answers[k]

    def fail(self, step, op, cid, platform, flavour, got, want):
        """Classify the root cause, then raise."""
        kind = op[0] if op is not None else "load"
        self.live._cache.clear()
        again = self.ask(self.live, cid, platform, flavour)[0]
        where = "step %d (%s) query %s platform=%s flavour=%s" % (step, json.dumps(op), node_name(cid), platform,
                                                                 flavour)
        detail = "%s: live %s / rebuilt from raw() %s" % (where, _short(got), _short(want))
        if again != want:
            raise Violation("uncached-answer-differs-from-rebuilt:" + kind, detail)
        # the cache is the culprit
        if got[0] == "ok" and SCRIBBLE in got[1]:
            raise Violation("returned-config-not-private", detail)
        if self.probe != "all":
            raise Violation(UNATTRIBUTED, detail)       # run_history() finds the culprit step
        special = "@regex-special-name" if any(re.escape(n).replace("\\.", ".").replace("\\-", "-") != n
                                               for _, n in self.ever) else ""
        before = (self.prev_full or {}).get((tuple(cid), platform or self.active))
        if kind not in ("query", "load") and before == got:
            raise Violation("stale-after:" + kind + special, detail)    # the pre-update answer survived the update
        raise Violation("wrong-cache-entry" + special, detail)

    def compare(self, step, op, cid, platform, flavour, spoil=False):
        """live == rebuilt; with `spoil` the returned object is then changed in place and the query repeated."""
        got, obj = self.ask(self.live, cid, platform, flavour, want_obj=spoil)
        want = self.fresh_ask(cid, platform, flavour)
        if got != want:
            self.fail(step, op, cid, platform, flavour, got, want)
        if obj is not None:
            self.spoil(step, op, obj)
            again = self.ask(self.live, cid, platform, flavour)[0]
            if again != got:
                self.fail(step, op, cid, platform, flavour, again, want)
        return got

    def check_all(self, step, op):
        full = {}
        for cid in self.ever:
            for p in self.platforms:
                full[(cid, p)] = self.compare(step, op, cid, p, "full", spoil=True)
            # "no platform named" = the active platform (through the configuration object that is its own route)
            full[(cid, None)] = self.compare(step, op, cid, None, "full", spoil=True)
        self.description_untouched(step, op)
        return full

    # -- operations ---------------------------------------------------------------------------------------
    def mutate(self, op):
        L = self.live
        k = op[0]
        cid = tuple(op[1]) if k in ("setvar", "delvar", "setopt", "delopt", "update", "delete") else None
        if k == "add":
            cid = (op[1]["stage"], op[1]["name"])
        if cid is not None and cid not in self.ever:
            self.ever.append(cid)
        if k not in MUTATORS:
            raise RuntimeError("harness: unknown op %r" % (op,))
        try:
            if k in ("refglobal", "refstage", "refcomp"):
                if k == "refglobal":
                    scope, name, value = L.get_platform_global_variables(op[1], return_copy=False), op[2], op[3]
                elif k == "refstage":
                    scope, name, value = L.get_platform_stage_variables(op[1], op[2], return_copy=False), op[3], op[4]
                else:
                    cid = tuple(op[1])
                    if cid not in self.ever:
                        self.ever.append(cid)
                    scope = L.get_component(cid, return_copy=False).setdefault("variables", {})
                    name, value = op[2], op[3]
                if value is None:
                    scope.pop(name, None)
                else:
                    scope[name] = value
            elif k == "fork":
                clone = self.conf.get_flowir_concrete(return_copy=True) if self.conf is not None else L.copy()
                clone.set_global_variable(op[1], op[2])
                rebuilt = self.F.FlowIRConcrete(clone.raw(), self.active, None)
                for c in list(self.ever):
                    for p in self.platforms:
                        got, want = self.ask(clone, c, p, "full")[0], self.ask(rebuilt, c, p, "full")[0]
                        if got != want:
                            raise Violation("copy-answer-differs-from-rebuilt",
                                            "%s: a copy that was updated (%s=%r) answers %s for %s on %s, rebuilt from "
                                            "its raw() %s" % (json.dumps(op), op[1], op[2], _short(got), node_name(c), p,
                                                              _short(want)))
            elif k == "setactive":
                if self.conf is not None:
                    return "rejected:not-offered-by-the-configuration-object"
                L.configure_platform(op[1])
                self.active = op[1]
                self._fresh_key = None             # the from-scratch object is rebuilt for the new active platform
            elif k == "setvar":
                L.set_component_variable(cid, op[2], op[3])
            elif k == "delvar":
                L.delete_component_variable(cid, op[2])
            elif k == "setopt":
                if self.conf is not None:
                    self.conf.setOptionForNode(node_name(cid), op[2], copy.deepcopy(op[3]))
                else:
                    L.set_component_option(cid, op[2], copy.deepcopy(op[3]))
            elif k == "delopt":
                if self.conf is not None:
                    self.conf.removeOptionForNode(node_name(cid), op[2])
                else:
                    L.remove_component_option(cid, op[2])
            elif k == "setglobal":
                L.set_global_variable(op[1], op[2])
            elif k == "setstage":
                L.set_stage_variable(op[1], op[2], op[3])
            elif k == "setpglobal":
                L.set_platform_global_variable(op[1], op[2], op[3])
                if op[3] == "N" and "N" not in self.platforms:
                    self.platforms.append("N")         # from now on every probe also asks for the new platform
            elif k == "setpstage":
                L.set_platform_stage_variable(op[1], op[2], op[3], op[4])
                if op[4] == "N" and "N" not in self.platforms:
                    self.platforms.append("N")
            elif k == "add":
                L.add_component(copy.deepcopy(op[1]))
            elif k == "update":
                L.update_component(cid, copy.deepcopy(op[2]))
            elif k == "delete":
                L.delete_component(cid)
        except Violation:
            raise
        except Exception as e:     # a rejected update; the description must still be served coherently afterwards
            return "rejected:" + type(e).__name__
        return "ok"

    def query(self, step, op):
        _, cid, platform, flavour, mut = op
        cid = tuple(cid)
        if cid not in self.ever:
            self.ever.append(cid)
        if flavour == "full":
            got = self.compare(step, op, cid, platform, flavour, spoil=mut)
            self.description_untouched(step, op)
            return got
        # unresolved / partially resolved flavours are not "the resolved configuration" of the statement: they are
        # interleaved reads and targets for in-place changes only
        got, obj = self.ask(self.live, cid, platform, flavour, want_obj=mut)
        if obj is not None:
            self.spoil(step, op, obj)
            again = self.ask(self.live, cid, platform, flavour)[0]
            if again != got:
                raise Violation("returned-config-not-private",
                                "step %d (%s): after changing the returned configuration in place the same query "
                                "gives %s instead of %s" % (step, json.dumps(op), _short(again), _short(got)))
            self.description_untouched(step, op)
            self.compare(step, op, cid, platform, "full")
        return got

    def run(self):
        rec = self.ctx.rec
        ops = self.case["ops"]
        self.refresh()
        self.prev_full = self.check_all(-1, None) if self.probe == "all" else None
        for i, op in enumerate(ops):
            if op[0] == "query":
                got = self.query(i, op)
                rec.label("query:" + op[3] + (":exc" if got[0] == "exc" else ""))
                if self.probe == "all":
                    self.prev_full = self.check_all(i, op)
                continue
            cached_before = set(self.live._cache.keys())        # bookkeeping for the non-trivial rule only
            outcome = self.mutate(op)
            self.refresh()
            rec.label("%s:%s" % (op[0], outcome if outcome == "ok" else "rejected"))
            if outcome != "ok":
                rec.label(op[0] + ":" + outcome)
            if self.probe == "all":
                full = self.check_all(i, op)
                if outcome == "ok":
                    hit = [1 for (cid, p), ans in full.items()
                           if self.prev_full.get((cid, p)) not in (None, ans)
                           and "component:%s:stage%s:%s" % (p, cid[0], cid[1]) in cached_before]
                    if hit:
                        self.effective.append(op[0])
                        rec.label("effective-write-on-cached:" + op[0])
                self.prev_full = full
            elif outcome == "ok" and cached_before:
                self.effective.append(op[0])       # sparse probing: a write while something was cached
        if self.probe != "all":
            self.check_all(len(ops), ["final"])


def _short(ans):
    if ans[0] == "exc":
        return "raises " + ans[1]
    s = ans[1]
    return s if len(s) < 700 else s[:700] + "..."


def run_history(case, ctx: Ctx, via: str):
    probe = case.get("probe", "all")
    h = History(case, ctx, via, probe)
    try:
        h.run()
    except Violation as v:
        if v.sig != UNATTRIBUTED:
            raise
        # sparse probing cannot tell which step left the wrong entry behind: the same history with a full probe
        # after every step gives the precise signature
        try:
            History(case, Ctx(ctx.prop, ctx.tier, 0, 0, 1, 3600, replaying=True), via, "all").run()
        except Violation as v2:
            raise Violation(v2.sig, v2.message + " [first seen with sparse probing: %s]" % v.message[:300])
        raise
    ctx.rec.label("probe:" + probe, "via:" + via)
    n_ex = sum(1 for a in (h.prev_full or {}).values() if a[0] == "exc")
    if h.prev_full:
        ctx.rec.label("final-answers:exc" if n_ex == len(h.prev_full) else
                      "final-answers:some-exc" if n_ex else "final-answers:all-ok")
    if h.effective:
        ctx.rec.nt([via, case], {"via": via, "probe": probe, "platforms": h.platforms, "active": h.active,
                                 "components": [node_name(c) for c in h.ever], "ops": case["ops"],
                                 "effective_writes": h.effective}, group=via)
    else:
        ctx.rec.label("trivial-history")


def check_direct(case, ctx: Ctx):
    run_history(case, ctx, "direct")


def check_conf(case, ctx: Ctx):
    run_history(case, ctx, "conf")


def shard(ctx: Ctx):
    max_ops = ctx.pick(24, 60)
    explore(ctx, "direct", history(max_ops), check_direct, ctx.n(2400, 40000), batch=100)
    explore(ctx, "conf", history(max_ops), check_conf, ctx.n(600, 10000), batch=75)


def replay(sub, case, ctx: Ctx):
    run_history(case, ctx, sub or "direct")
