"""C19 — the legacy (DOSINI) configuration format round-trips an instance description.

One abstract, legacy-expressible workflow (vf/gen/c19_dosini.py) is turned into an *instance description*
(`FlowIRConcrete.instance(...)`, the thing the runtime writes), written with `Dosini.dump` and loaded again with
`Dosini.load_from_directory`; the loaded description must resolve, per component, to the same configuration
(`get_component_configuration(raw=False, include_default=True)`: options of all blocks, references, variables) and
carry the same environments, status and output sections as the description that was written.

modes (how the instance description is produced and written):
  full     generated FlowIR -> instance(ignore_errors, fill_in_all=False)            -> dump(is_instance=True)
           (+ `_dump_status`/`_dump_output`, exactly like tests/test_dosini.py::test_dump_instance)
  sparse   generated FlowIR -> instance(inject_missing_fields=False, is_primitive=True) (the call made by
           DOSINIExperimentConfiguration)                                            -> dump(is_instance=True) (+ same)
  pkgdump  generated FlowIR (default platform) -> instance(full)                     -> dump(is_instance=False)
           i.e. the public entry point that also writes status.conf / output.conf / variables.conf itself
  legacy   a hand-written legacy package (own INI writer) -> load(is_instance=False) -> instance(sparse)
           -> dump(is_instance=True) into the same conf directory -> load(is_instance=True)   (production path)

sub `sweep`     : deterministic, one minimal case per key of the option table and mode (whole table, every run)
sub `roundtrip` : Hypothesis-generated workflows (1-3 stages, layered variables, blueprints, environments, platforms)
"""
from __future__ import annotations

import copy
import os
import shutil

from hypothesis import strategies as st

from ..core import Ctx, Violation, explore, known_open_sigs
from ..gen import c19_dosini as G

ID = "C19"
LEVEL = "exploration"
RULE = ("a case is non-trivial when the written instance description states >= 3 distinct legacy options with "
        "non-None values over its components/blueprints (or it is a sweep case: exactly one key of the table); "
        "distinct = distinct abstract cases. Per-key coverage of the 49-key option table is in extra.keys "
        "(must list all extra.table_keys keys: the sweep touches every key in every mode; extra.keys@<mode> per mode).")
ASSUMPTIONS = [
    "domain = options that have a key in both directions of the legacy mapping (49 keys); qos, podSpec, gpus, "
    "isMigrated, the docker backend block, component `override` blocks and DoWhile/Workflow documents are not generated",
    "values are single-line strings without leading/trailing white space (the INI reader strips it), except "
    "memoization-embedding-function which may have several non-indented, non-empty lines; no non-ASCII text; an "
    "interpreter component's arguments have single blanks and an unquoted first word (FlowIR's own splitting would "
    "otherwise create leading white space); a few % of the cases carry a percent sign that is not doubled (legal in "
    "FlowIR, read raw by the legacy loader)",
    "numeric options are numbers or a whole %(variable)s reference (the legacy loader itself rejects '1%(x)s'); "
    "references to variables always resolve (base variables live in the default global scope)",
    "variable names match [A-Za-z0-9_-]+ (a dot is a scope route in FlowIR), environment-variable names "
    "[A-Za-z0-9_.-]+; neither is a legacy keyword nor within difflib ratio 0.75 of one (the loader reports such names "
    "as typos); component names are not DEFAULT/META in any letter case; environment names are unique up to letter "
    "case (the legacy format upper-cases them)",
    "variable values and environment values are compared as strings (the legacy format is untyped: 3 == '3'); typed "
    "component options are compared after FlowIR's own type conversion (get_component_configuration(raw=False))",
    "status: a missing `arguments`/`references` equals ''/[] and they are only compared when an executable is "
    "given; output: missing description/type equal None and missing stages equal []; output.stages are integers",
    "status.conf/output.conf are not written by dump(is_instance=True); modes full/sparse call Dosini._dump_status/"
    "_dump_output like the repository's own test does, mode pkgdump uses the public dump(is_instance=False), mode "
    "legacy leaves the package's own files in place (as DOSINIExperimentConfiguration does)",
    "errors only *collected* by the loader (out_errors: missing-required-option, typo warnings) are not violations",
    "mode legacy: blueprint sections of the hand-written package state no executor options and every status section "
    "states its stage-weight (the *package* loader fails otherwise, which is not this property)",
    "application-dependencies / virtual-environments ([SANDBOX]) are generated but not compared (not in the statement)",
]
TIERS = {"quick": {"shards": 8, "budget": 100}, "thorough": {"shards": 16, "budget": 1500}}

MODES = ("full", "sparse", "pkgdump", "legacy")


# ------------------------------------------------------------------------------------------------------------
# comparison helpers
def _diff(a, b, path=""):
    """List of (path, a, b) for leaves that differ."""
    if isinstance(a, dict) and isinstance(b, dict):
        out = []
        for k in sorted(set(a) | set(b), key=str):
            p = "%s.%s" % (path, k) if path else str(k)
            if k not in a:
                out.append((p, "<absent>", b[k]))
            elif k not in b:
                out.append((p, a[k], "<absent>"))
            else:
                out.extend(_diff(a[k], b[k], p))
        return out
    if isinstance(a, list) and isinstance(b, list) and len(a) == len(b):
        out = []
        for i, (x, y) in enumerate(zip(a, b)):
            out.extend(_diff(x, y, "%s[%d]" % (path, i)))
        return out
    if type(a) is type(b) and a == b:
        return []
    if isinstance(a, (int, float)) and isinstance(b, (int, float)) and not isinstance(a, bool) \
            and not isinstance(b, bool) and a == b:
        return []
    return [(path, a, b)]


def _strmap(d):
    return {str(k): ("" if v is None else str(v)) for k, v in (d or {}).items()}


def _norm_config(conf):
    conf = dict(conf)
    conf["variables"] = _strmap(conf.get("variables"))
    return conf


def _norm_envs(envs):
    return {str(name).lower(): _strmap(content) for name, content in (envs or {}).items()}


def _norm_status(status):
    out = {}
    for idx, e in (status or {}).items():
        e = e or {}
        n = {"stage-weight": e.get("stage-weight")}
        if e.get("executable"):
            n["executable"] = e["executable"]
            n["arguments"] = e.get("arguments") or ""
            n["references"] = list(e.get("references") or [])
        out[int(idx)] = n
    return out


def _norm_output(output):
    out = {}
    for name, e in (output or {}).items():
        e = e or {}
        out[name] = {"data-in": e.get("data-in"), "description": e.get("description"), "type": e.get("type"),
                     "stages": list(e.get("stages") or [])}
    return out


def _strip_index(path):
    import re
    return re.sub(r"\[\d+\]", "[]", path)


def _exc_sig(prefix, e):
    if prefix == "dump-raises" and isinstance(e, ValueError) and "invalid interpolation syntax" in str(e):
        return "dump-rejects-lone-percent-sign"
    return "%s:%s" % (prefix, type(e).__name__)


def _report(ctx: Ctx, sig: str, message: str, case=None, sub="roundtrip"):
    """Raise the violation unless its signature is an open known finding: the first occurrence of a known finding is
    recorded (run.py prints KNOWN-FINDING for it), later ones are counted, and the check goes on so that whatever
    lies behind the known defect is still compared."""
    if sig in ctx.excluded:
        ctx.rec.excluded[sig] += 1
        return
    if not ctx.replaying and sig in known_open_sigs(ctx.prop):
        ctx.rec.known[sig] = Violation(sig, message, case=case, sub=sub).to_dict()
        ctx.excluded.add(sig)
        return
    raise Violation(sig, message)


# ------------------------------------------------------------------------------------------------------------
def _stated_keys(case):
    """legacy option keys that the written description states with a non-None value (components + blueprints of the
    active platform chain)"""
    keys = set()
    for c in case["components"]:
        keys.update(k for k, v in c["opts"].items() if v is not None)
    for scope in ("dg", "pg"):
        keys.update(case["blue"][scope])
    for scope in ("ds", "ps"):
        for s in case["blue"][scope].values():
            keys.update(s)
    return keys


def _without_last_stage(case):
    """The same workflow without the components (and stage-scoped sections) of its last stage."""
    last = max(c["stage"] for c in case["components"])
    out = copy.deepcopy(case)
    out["components"] = [c for c in out["components"] if c["stage"] < last]
    for sect in ("vars", "blue"):
        for scope in ("ds", "ps"):
            out[sect][scope] = {s: v for s, v in out[sect][scope].items() if int(s) < last}
    out["status"] = {s: v for s, v in out["status"].items() if int(s) < last}
    for e in out["output"].values():
        if "stages" in e:
            e["stages"] = [x for x in e["stages"] if x < last]
    out.pop("redump", None)
    return out


def check_case(case, ctx: Ctx, sub="roundtrip"):
    loc = ctx.mkdtemp()
    try:
        nstages = 1 + max(c["stage"] for c in case["components"])
        inst = _round(case, ctx, sub, loc, case)
        if inst is not None and case.get("redump") and nstages >= 2 and case["mode"] in ("full", "sparse"):
            # successive updates of the instance files in ONE directory: the second description has fewer stages
            if _round(_without_last_stage(case), ctx, sub + "", loc, case, again=True) is not None:
                ctx.rec.label("updated-in-place-with-fewer-stages")
    finally:
        shutil.rmtree(loc, ignore_errors=True)
    if inst is None:
        return
    _coverage(case, ctx, sub, inst)


def _round(case, ctx: Ctx, sub, loc, report_case, again=False):
    """write -> load -> compare in <loc>/conf (which may hold the files of an earlier round). Returns the written
    instance description, or None when the round ended early."""
    def _rep(sig, message):
        _report(ctx, (sig + "@second-update") if again else sig, message, report_case, sub)

    import experiment.model.frontends.dosini as D
    import experiment.model.frontends.flowir as F
    from ..gen import pkg

    mode = case["mode"]
    platform = case["platform"]
    conf = os.path.join(loc, "conf")
    if True:
        # 1. the description that will be written -------------------------------------------------------------
        if mode == "legacy":
            os.makedirs(conf)
            pkg.populate_files(conf, G.to_legacy_package(case))
            package_flowir = D.Dosini.load_from_directory(conf, [], {}, is_instance=False, out_errors=[])
        else:
            package_flowir = G.to_flowir(case)
        concrete0 = F.FlowIRConcrete(package_flowir, platform, {})
        if mode in ("full", "pkgdump"):
            inst = concrete0.instance(ignore_errors=True, fill_in_all=False)
        else:
            inst = concrete0.instance(ignore_errors=True, inject_missing_fields=False, fill_in_all=False,
                                      is_primitive=True)
        written = F.FlowIRConcrete(inst, F.FlowIR.LabelDefault, {})

        # 2. write --------------------------------------------------------------------------------------------
        is_instance = mode != "pkgdump"
        try:
            D.Dosini.dump(inst, conf, update_existing=True, is_instance=is_instance)
            if mode in ("full", "sparse"):
                D.Dosini._dump_status(inst, conf)
                D.Dosini._dump_output(inst, conf)
        except Exception as e:
            _rep(_exc_sig("dump-raises", e), "mode=%s: Dosini.dump raised %r" % (mode, e))
            return None

        # 3. load ---------------------------------------------------------------------------------------------
        load_errors = []
        try:
            loaded_flowir = D.Dosini.load_from_directory(conf, [], {}, is_instance=is_instance, out_errors=load_errors)
            loaded = F.FlowIRConcrete(loaded_flowir, F.FlowIR.LabelDefault, {})
        except Exception as e:
            _rep(_exc_sig("load-raises", e),
                    "mode=%s: loading the files written by Dosini.dump raised %r" % (mode, e))
            return None
        if load_errors:
            ctx.rec.label("load-collected-errors")

        # 4. compare (every difference is classified; differences that belong to an open known finding are counted
        #    and skipped so that whatever lies behind them is still checked) ------------------------------------
        ids_w = sorted(written.get_component_identifiers(recompute=True))
        ids_l = sorted(loaded.get_component_identifiers(recompute=True))
        if ids_w != ids_l:
            _rep("component-set-differs", "written %s, loaded %s" % (ids_w, ids_l))
            return None
        for cid in ids_w:
            try:
                a = written.get_component_configuration(cid, raw=False, include_default=True)
            except Exception:
                ctx.rec.label("written-description-unresolvable")
                continue
            try:
                b = loaded.get_component_configuration(cid, raw=False, include_default=True)
            except Exception as e:
                sig = _exc_sig("loaded-unresolvable", e)
                unknown = getattr(e, "variable_route", None)
                known_names = {str(n).lower(): n for n in a.get("variables", {})}
                if isinstance(unknown, str) and unknown not in a.get("variables", {}) and unknown.lower() in known_names:
                    sig = "variable-reference-letter-case-changed"
                _rep(sig, "mode=%s component stage%s.%s resolves in the written description but not after "
                                  "the round trip: %r" % (mode, cid[0], cid[1], e))
                continue
            for path, x, y in _diff(_norm_config(a), _norm_config(b)):
                if x == [] and isinstance(y, list):
                    # one root cause whatever the option: the loader drops empty containers
                    _rep("empty-list-option-lost",
                            "mode=%s component stage%s.%s: %s: written [] (explicitly empty), loaded %r" % (
                                mode, cid[0], cid[1], path, y))
                    continue
                _rep("config-differs:" + _strip_index(path),
                        "mode=%s component stage%s.%s: %s: written %r, loaded %r" % (mode, cid[0], cid[1], path, x, y))
        for path, x, y in _diff(_norm_envs(written.get_environments(F.FlowIR.LabelDefault)),
                                _norm_envs(loaded.get_environments(F.FlowIR.LabelDefault))):
            _rep("environments-differ", "mode=%s: %s: written %r, loaded %r" % (mode, path, x, y))
        for path, x, y in _diff(_norm_status(written.get_status()), _norm_status(loaded.get_status())):
            _rep("status-differs:" + _strip_index(path).rsplit(".", 1)[-1],
                    "mode=%s: %s: written %r, loaded %r" % (mode, path, x, y))
        for path, x, y in _diff(_norm_output(written.get_output()), _norm_output(loaded.get_output())):
            _rep("output-differs:" + _strip_index(path).rsplit(".", 1)[-1],
                    "mode=%s: %s: written %r, loaded %r" % (mode, path, x, y))
    return inst


def _coverage(case, ctx: Ctx, sub, inst):
    mode = case["mode"]
    platform = case["platform"]
    keys = _stated_keys(case)
    for k in keys:
        ctx.rec.cover("keys", k)
        ctx.rec.cover("keys@" + mode, k)
    comp_keys = set()
    for c in case["components"]:
        comp_keys.update(c["opts"])
    blocks = sorted({G.TABLE[k][0] for k in keys})
    ctx.rec.label("mode:" + mode, "platform:" + ("P" if platform == "P" else "default"),
                  "stages:%d" % (1 + max(c["stage"] for c in case["components"])),
                  *["block:" + b for b in blocks])
    if any(case["blue"][s] for s in ("dg", "ds", "pg", "ps")):
        ctx.rec.label("with-blueprint")
    if inst.get("environments", {}).get("default"):
        ctx.rec.label("with-environments")
    if any(e.get("executable") for e in case["status"].values()):
        ctx.rec.label("with-status-executable")
    if case["output"]:
        ctx.rec.label("with-output")
    if any(isinstance(v, str) and "%(" in v for c in case["components"] for v in c["opts"].values()):
        ctx.rec.label("option-with-variable-reference")
    if any(k in comp_keys for k in ("replicate", "aggregate")):
        ctx.rec.label("with-replication")
    if sub == "sweep" or len(keys) >= 3:
        sample = {"mode": mode, "platform": platform, "keys": sorted(keys),
                  "components": [{"name": c["name"], "stage": c["stage"], "opts": c["opts"]}
                                 for c in case["components"][:2]]}
        ctx.rec.nt([sub, case], sample, group=sub + ":" + mode)


# ------------------------------------------------------------------------------------------------------------
def sweep(ctx: Ctx):
    """One minimal case per key of the table and per mode, sharded; collects (does not stop at) known findings."""
    for idx, case in enumerate(G.sweep_cases(MODES)):
        if idx % ctx.nshards != ctx.shard or ctx.stop:
            continue
        ctx.rec.evaluations += 1
        while True:
            try:
                check_case(case, ctx, sub="sweep")
                break
            except Violation as v:
                v.case = case
                v.sub = "sweep"
                if v.sig in known_open_sigs(ctx.prop) and v.sig not in ctx.excluded:
                    ctx.rec.known[v.sig] = v.to_dict()
                    ctx.excluded.add(v.sig)
                    continue            # look at the same case again, behind the known finding
                ctx.rec.violations.append(v.to_dict())
                ctx.stop = True
                return
    if ctx.shard == 0:
        ctx.rec.count("table_keys", len(G.KEYS))


# ------------------------------------------------------------------------------------------------------------
# sub `reconf`: the configuration object that owns the legacy files (DOSINIExperimentConfiguration): a package becomes
# an instance (createInstanceFiles), the instance is loaded again with a user variable file and updateInstanceFiles;
# the instance files must then describe the configuration that was just built.
@st.composite
def reconf_cases(draw):
    """Small valid legacy packages (the generator C15 uses for its legacy kind) + one user variable to layer on top."""
    from ..gen import c15_pkgs
    spec = draw(c15_pkgs.dosini_spec())
    which = draw(st.sampled_from(["word", "word", "count"]))
    return {"files": spec["files"], "user_variable": which,
            "user_value": draw(st.sampled_from(["user-word", "other"])) if which == "word" else str(draw(st.integers(2, 9)))}


def check_reconf(case, ctx: Ctx):
    import experiment.model.conf as C
    import experiment.model.frontends.dosini as D
    import experiment.model.frontends.flowir as F
    from ..gen import pkg
    loc = ctx.mkdtemp()
    try:
        pdir = os.path.join(loc, "legacy.package")
        conf = os.path.join(pdir, "conf")
        pkg.populate_files(pdir, {k: v for k, v in case["files"].items() if ".instance." not in k})
        name = case["user_variable"]
        uv = os.path.join(loc, "uservars.conf")
        with open(uv, "w") as f:
            f.write("[GLOBAL]\n%s = %s\n" % (name, case["user_value"]))
        try:
            C.DOSINIExperimentConfiguration(pdir, None, [], {}, is_instance=False, createInstanceFiles=True)
            written = C.DOSINIExperimentConfiguration(pdir, None, [uv], {}, is_instance=True, createInstanceFiles=True,
                                                      updateInstanceFiles=True)
        except Exception as e:           # packages this route refuses are not this sub-check's subject
            ctx.rec.label("reconf:refused:" + type(e).__name__)
            return
        want = written.get_unreplicated_flowir()
        errors = []
        try:
            loaded = F.FlowIRConcrete(D.Dosini().load_from_directory(conf, [], {}, is_instance=True, out_errors=errors),
                                      F.FlowIR.LabelDefault, {})
        except Exception as e:
            raise Violation(_exc_sig("reconf-load-raises", e), "instance files written by the configuration object do not "
                            "load: %r" % e)

        def resolved(c):
            out = {}
            for cid in sorted(c.get_component_identifiers(False)):
                try:
                    out[cid] = _norm_config(c.get_component_configuration(cid, raw=False, include_default=True,
                                                                          is_primitive=True))
                except Exception as e:
                    out[cid] = {"#raises": type(e).__name__}
            return out
        a, b = resolved(want), resolved(loaded)
        if sorted(a) != sorted(b):
            raise Violation("reconf-component-set-differs", "configuration %s, instance files %s" % (sorted(a), sorted(b)))
        for cid in sorted(a):
            if "#raises" in a[cid] or "#raises" in b[cid]:
                continue
            for path, x, y in _diff(a[cid], b[cid]):
                if x == [] and isinstance(y, list):
                    continue
                raise Violation("reconf-instance-files-do-not-describe-the-configuration:" + _strip_index(path),
                                "after reloading the instance with user variable %s: component stage%s.%s %s: "
                                "configuration %r, instance files %r" % (name, cid[0], cid[1], path, x, y))
        ctx.rec.label("reconf:compared")
        ctx.rec.nt(["reconf", case], {"user_variable": name, "components": len(a)}, group="reconf")
    finally:
        shutil.rmtree(loc, ignore_errors=True)


def shard(ctx: Ctx):
    sweep(ctx)
    explore(ctx, "reconf", reconf_cases(), check_reconf, ctx.n(160, 6000), batch=20)
    explore(ctx, "roundtrip", G.case_strategy(MODES), check_case, ctx.n(2400, 80000), batch=150)


def replay(sub, case, ctx: Ctx):
    if sub == "reconf":
        return check_reconf(case, ctx)
    check_case(case, ctx, sub=sub or "roundtrip")
