"""C15 — loading a package is deterministic; user variable files are layered in the order given.

sub `batch`: one Hypothesis case = a batch of N generated package specifications (FlowIR packages built on the shared
abstract-workflow generator: platforms, package variables, >= 2 environments, top-level folders incl. names that
differ only in case, references into folders; laid out as a package directory or as a single YAML file with an
explicit manifest; DSL 2.0 packages with nested sub-workflows, repeated step names that need generated names and
several distinct / identical environments), each with 0-3 user variable files (YAML and variables.conf flavours)
that define overlapping keys with per-file values, handed over in a drawn order (sometimes with a repeated path),
plus K child descriptions (PYTHONHASHSEED, key-order seed, directory-listing seed).

The parent writes the batch once (a JSON job) and starts K fresh interpreters (`vf/gen/c15_child.py`), one after the
other *on the same paths*: every child renders the documents with its own mapping-key order, patches
os.listdir/os.scandir to its own order, loads every package through three routes (configuration factory, package ->
WorkflowGraph, package -> instantiated Experiment) and dumps canonical JSON (component names, edges, references,
environments, resolved configurations, user variables, memoization hashes).

Oracle
  1. model (vf/gen/c15_pkgs.layered): for every key that >= 2 files define in the same scope, every place where the
     loaders expose its value (get_user_variables, workflow variables, resolved command lines, input/variables.yaml,
     the number of replicas) must show the value of the LAST file of the given order that defines it; a value that
     belongs to another file is `variable-files-not-layered-in-given-order`.
  2. all K dumps of a package are identical, section by section (`load-differs-across-processes:<section>`), and all
     K children agree on whether a route accepts the package (`load-outcome-differs-across-processes`).

A failing package is isolated (same directory names, same relative variable-file paths, so the same string hashes)
and reduced by an own bounded reducer (`minimize`): fewer routes / children / factors (key order, listing order set
back to plain), fewer variable files, components, folders. Hypothesis' shrinker is off (every candidate costs fresh
interpreters). If the code under test changes while the children of a batch run, the shard ends as a harness error.
"""
from __future__ import annotations

import copy
import json
import os
import re
import shutil
import subprocess
import sys

from ..core import Ctx, Violation, explore
from ..gen import c15_pkgs as G

ID = "C15"
LEVEL = "exploration"
RULE = ("one evaluation = one generated package (FlowIR or DSL 2.0) loaded by K=3 (quick) / 4 (thorough) fresh "
        "interpreters with different PYTHONHASHSEED, independently permuted mapping-key order of every YAML/INI "
        "document and permuted os.listdir/os.scandir order, through three load routes each. Non-trivial = the package "
        "has >= 2 user variable files with a common key in the same scope, or repeated DSL step names that need "
        "generated component names, or >= 2 environments; distinct = distinct package specifications.")
ASSUMPTIONS = [
    "equal documents = same YAML mappings / INI sections with a different key order; sequences (components, "
    "references, execute lists) keep their order",
    "a key is set in ONE scope (global section or one stage section) by all user variable files of a package: the "
    "statement does not order a stage-scoped value of an earlier file against a global value of a later file",
    "user variables take precedence over package variables of the same name defined at global / stage / platform "
    "scope (documented layering, property C04); the packages never define the same name at component scope. Only "
    "values that belong to ANOTHER FILE than the expected one are violations; a user variable that does not reach a "
    "place at all is only counted (label user-variable-not-visible)",
    "DSL 2.0: global user variables name parameters of the entry workflow (anything else is rejected by the loader)",
    "the same path given twice ([f1, f2, f1]) is still 'layered in the order given' (f1 wins)",
    "user variable files are passed as paths relative to the working directory, packages as absolute paths; all "
    "children of a case use the same paths (they run one after the other on the same scratch directory)",
    "the launch environment is identical for all children (PYTHONHASHSEED removed before loading); FLOW_RUN_ID (a "
    "fresh uuid per load by design) is removed from dumped environments",
    "lists whose order carries no meaning are compared as sets: component identifiers, graph nodes, edges, top-level "
    "folders; mapping key order is never compared",
    "packages that every child rejects on a route are counted (label rejected:*), not judged; only the exception "
    "type is compared between children, not its message",
]
TIERS = {"quick": {"shards": 8, "budget": 110}, "thorough": {"shards": 16, "budget": 1500}}

SIG_ORDER = "variable-files-not-layered-in-given-order"
CHILD = os.path.join(os.path.dirname(os.path.dirname(os.path.abspath(__file__))), "gen", "c15_child.py")
CHILD_ENVIRON = {"PATH": "/usr/local/bin:/usr/bin:/bin", "HOME": "/nonexistent", "LANG": "C"}
ROUTES = ["conf", "graph", "experiment"]
TOKEN = re.compile(r"(?:^|\s)(%s)=(\S+)" % "|".join(G.KEYS))
DSL_TOKEN = re.compile(r"(?:^|\s)other=(\S+)")
USER_VALUE = re.compile(r"^(%s)-f(\d+)$" % "|".join(G.KEYS))


# ------------------------------------------------------------------------------------------------------------
# running the children
def _code_fingerprint():
    """(number of files, newest mtime, total size) of the python package under test, without importing it: the
    children of one batch must all run the same code (a commit to the tree during a batch is not a verdict)."""
    import importlib.util
    spec = importlib.util.find_spec("experiment")
    roots = list(spec.submodule_search_locations or []) if spec else []
    n = size = 0
    newest = 0.0
    for r in roots:
        for dirpath, dirnames, filenames in os.walk(r):
            dirnames[:] = sorted(d for d in dirnames if d != "__pycache__")
            for fn in filenames:
                if fn.endswith(".py"):
                    st_ = os.stat(os.path.join(dirpath, fn))
                    n += 1
                    size += st_.st_size
                    newest = max(newest, st_.st_mtime)
    return n, newest, size


def run_children(case, ctx: Ctx):
    """-> [dump of child 0, dump of child 1, ...] (each: {"pkgs": [per package dump]}).
    All children of a batch must run the same code: when the tree under test changes meanwhile (a commit during the
    run) the batch is run again; if it keeps changing the shard ends as a harness error, never as a verdict."""
    for attempt in range(3):
        before = _code_fingerprint()
        outs = _run_children_once(case, ctx)
        if _code_fingerprint() == before:
            return outs
        ctx.rec.count("batches_repeated_because_code_under_test_changed")
    raise RuntimeError("harness: the code under test kept changing while the children of one batch were running")


def _run_children_once(case, ctx: Ctx):
    root = ctx.mkdtemp()
    try:
        docs = []
        for spec in case["pkgs"]:
            d = G.documents(spec)
            d["slot"] = spec["slot"]
            d["routes"] = spec.get("routes") or ROUTES
            docs.append(d)
        outs = []
        for c, child in enumerate(case["children"]):
            job = {"work": os.path.join(root, "work"), "environ": CHILD_ENVIRON, "pkgs": docs,
                   "keyperm": child["keyperm"], "listperm": child["listperm"]}
            jpath = os.path.join(root, "job%d.json" % c)
            opath = os.path.join(root, "out%d.json" % c)
            with open(jpath, "w") as f:
                json.dump(job, f)
            env = {k: v for k, v in os.environ.items() if k != "PYTHONHASHSEED"}
            env["PYTHONHASHSEED"] = str(child["hashseed"])
            env["PYTHONWARNINGS"] = "ignore"
            p = subprocess.run([sys.executable, CHILD, jpath, opath], env=env, stdout=subprocess.PIPE,
                               stderr=subprocess.PIPE, timeout=900, cwd=root)
            if p.returncode != 0 or not os.path.exists(opath):
                raise RuntimeError("harness: C15 child %d failed (rc=%s): %s" % (
                    c, p.returncode, p.stderr.decode("utf-8", "replace")[-2000:]))
            with open(opath) as f:
                out = json.load(f)
            if str(out["hashseed"]) != str(child["hashseed"]):
                raise RuntimeError("harness: child ran with PYTHONHASHSEED=%r instead of %r" % (
                    out["hashseed"], child["hashseed"]))
            outs.append(out)
            ctx.rec.cover("hash_probe_values", out["hash_of_probe"])
            if c > 0:
                for probe in ("set_order_probe", "listing_probe", "scandir_probe", "key_order_probe"):
                    if out[probe] != outs[0][probe]:
                        ctx.rec.count("children_whose_%s_differs_from_child0" % probe)
        ctx.rec.count("child_processes", len(outs))
        return outs
    finally:
        shutil.rmtree(root, ignore_errors=True)


# ------------------------------------------------------------------------------------------------------------
# oracle 1: the layering model
def _scope_of(spec):
    out = {}
    for i in sorted(set(spec["varorder"])):
        f = spec["varfiles"][i]
        for k in f["global"]:
            out[k] = "g"
        for s, kv in f["stages"].items():
            for k in kv:
                out[k] = s
    return out


def _observations(spec, dump):
    """Every place of one child's dump where the value of a user variable shows: (where, scope, key, value)."""
    obs = []
    scope_of = _scope_of(spec)
    for route in ROUTES:
        d = dump.get(route)
        if not d or d["outcome"] != "ok":
            continue
        uv = d.get("user_variables") or {}
        for k, v in (uv.get("global") or {}).items():
            obs.append(("%s.get_user_variables()[global]" % route, "g", k, v))
        for s, kv in (uv.get("stages") or {}).items():
            for k, v in kv.items():
                obs.append(("%s.get_user_variables()[stages][%s]" % (route, s), s, k, v))
        ivf = d.get("input_variables_file") or {}
        for k, v in (ivf.get("global") or {}).items():
            obs.append(("%s input/variables.yaml[global]" % route, "g", k, v))
        for s, kv in (ivf.get("stages") or {}).items():
            for k, v in kv.items():
                obs.append(("%s input/variables.yaml[stages][%s]" % (route, s), s, k, v))
        wv = d.get("variables") or {}
        if spec["kind"] == "dsl":
            for k, v in (wv.get("global") or {}).items():
                if scope_of.get(k) == "g":
                    obs.append(("%s workflow variables[global]" % route, "g", k, v))
        for s, kv in (wv.get("stages") or wv.get("stage") or {}).items():
            for k, v in kv.items():
                if scope_of.get(k) in ("g", s):
                    obs.append(("%s workflow variables[stages][%s]" % (route, s), scope_of[k], k, v))
        for node, conf in (d.get("configurations") or {}).items():
            stage = node.split(".", 1)[0][len("stage"):]
            args = str((conf.get("command") or {}).get("arguments", ""))
            if spec["kind"] == "flowir":
                for k, v in TOKEN.findall(args):
                    if scope_of.get(k) in ("g", stage):
                        obs.append(("%s resolved arguments of %s" % (route, node), scope_of[k], k, v))
            else:
                for v in DSL_TOKEN.findall(args):
                    m = USER_VALUE.match(v)
                    if m and scope_of.get(m.group(1)) == "g":
                        obs.append(("%s resolved arguments of %s" % (route, node), "g", m.group(1), v))
    return obs


def check_model(spec, dump, ctx: Ctx, who: str):
    """Raises SIG_ORDER when a contested key shows the value of a file that is not the last one defining it."""
    cont = set(G.contested(spec["varfiles"], spec["varorder"]))
    lay = G.layered(spec["varfiles"], spec["varorder"])
    # every entry of every file is part of the layered user variables the experiment reports (contested or not)
    for route in ROUTES:
        d = dump.get(route)
        if not d or d["outcome"] != "ok" or "user_variables" not in d:
            continue
        uv = d["user_variables"] or {}
        for key, val in lay["global"].items():
            if key not in (uv.get("global") or {}):
                raise Violation("variable-file-entry-lost", "%s: %s.get_user_variables() has no global %r (files %s "
                                "layered to %s, reported %s)" % (who, route, key, [spec["varfiles"][i]["name"] for i in
                                                                 spec["varorder"]], lay, uv))
        for st_, kv in lay["stages"].items():
            got = {str(k): v for k, v in (uv.get("stages") or {}).items()}.get(str(st_)) or {}
            for key in kv:
                if key not in got:
                    raise Violation("variable-file-entry-lost", "%s: %s.get_user_variables() has no %r for stage %s "
                                    "(files %s layered to %s, reported %s)" % (
                                        who, route, key, st_, [spec["varfiles"][i]["name"] for i in spec["varorder"]],
                                        lay, uv))
    if not cont:
        return
    order_names = [spec["varfiles"][i]["name"] for i in spec["varorder"]]
    seen = set()
    for where, scope, key, value in _observations(spec, dump):
        if (scope, key) not in cont:
            continue
        expected = lay["global"][key] if scope == "g" else lay["stages"][scope][key]
        seen.add((scope, key))
        if str(value) == str(expected):
            continue
        cands = G.candidates(spec["varfiles"], spec["varorder"], scope, key)
        if str(value) in cands:
            per_file = {spec["varfiles"][i]["name"]: val for val, idxs in cands.items() for i in idxs}
            raise Violation(SIG_ORDER, "%s: variable files given in the order %s; key %r (%s section) is set by %s, so "
                            "the last file in the order must win and the value must be %r, but %s shows %r" % (
                                who, order_names, key, "global" if scope == "g" else "stage " + scope,
                                json.dumps(per_file, sort_keys=True), expected, where, value))
        ctx.rec.label("user-variable-not-visible")
    if spec["kind"] == "flowir" and ("g", "nrep") in cont:
        # the number of replicas is a user variable: the component names follow the winning file
        exp_nodes = G.flowir_expected_nodes(spec)
        for route in ROUTES:
            d = dump.get(route)
            if not d or d["outcome"] != "ok":
                continue
            nodes = d.get("nodes") or d.get("components")
            if nodes == exp_nodes:
                continue
            for val, idxs in G.candidates(spec["varfiles"], spec["varorder"], "g", "nrep").items():
                alt = copy.deepcopy(spec)
                alt["varorder"] = [idxs[0]]
                if G.flowir_expected_nodes(alt) == nodes:
                    raise Violation(SIG_ORDER, "%s: variable files given as %s; the last one that sets nrep gives %s "
                                    "but route %s built the components %s, i.e. nrep=%s of %s" % (
                                        who, order_names, lay["global"]["nrep"], route, nodes, val,
                                        [spec["varfiles"][i]["name"] for i in idxs]))
            ctx.rec.label("nodes-differ-from-replication-model")
    for sk in cont - seen:
        ctx.rec.label("contested-key-not-observed")


# ------------------------------------------------------------------------------------------------------------
# oracle 2: identical dumps
def _first_diff(a, b, path=""):
    if type(a) != type(b):
        return path, a, b
    if isinstance(a, dict):
        for k in sorted(set(a) | set(b)):
            if k not in a or k not in b:
                return "%s/%s" % (path, k), a.get(k, "<absent>"), b.get(k, "<absent>")
            d = _first_diff(a[k], b[k], "%s/%s" % (path, k))
            if d:
                return d
        return None
    if isinstance(a, list):
        if len(a) != len(b):
            return path + "[len]", a, b
        for i, (x, y) in enumerate(zip(a, b)):
            d = _first_diff(x, y, "%s[%d]" % (path, i))
            if d:
                return d
        return None
    return None if a == b else (path, a, b)


def compare_children(spec, dumps, children, who: str):
    for route in ROUTES:
        ds = [d.get(route) for d in dumps]
        if ds[0] is None:
            continue
        outcomes = [d["outcome"] for d in ds]
        if len(set(outcomes)) > 1:
            raise Violation("load-outcome-differs-across-processes",
                            "%s route %s: outcomes %s for children %s; first error: %s" % (
                                who, route, outcomes, children,
                                [d.get("message") for d in ds if d["outcome"] != "ok"][:1]))
        if outcomes[0] != "ok":
            continue
        for c in range(1, len(ds)):
            for section in sorted(set(ds[0]) | set(ds[c])):
                diff = _first_diff(ds[0].get(section), ds[c].get(section))
                if diff:
                    raise Violation("load-differs-across-processes:%s" % section,
                                    "%s route %s section %s differs at %s: child %s -> %s ; child %s -> %s" % (
                                        who, route, section, diff[0] or "/", json.dumps(children[0]),
                                        json.dumps(diff[1], sort_keys=True)[:400], json.dumps(children[c]),
                                        json.dumps(diff[2], sort_keys=True)[:400]))


# ------------------------------------------------------------------------------------------------------------
def _who(spec):
    return "package p%d (%s)" % (spec["slot"], spec["kind"])


def _judge_package(spec, dumps, children, ctx: Ctx):
    """-> Violation or None for one package; children[c] produced dumps[c]."""
    for c, d in enumerate(dumps):
        try:
            check_model(spec, d, ctx, "%s, child %s" % (_who(spec), json.dumps(children[c])))
        except Violation as v:
            v.case = {"pkgs": [spec], "children": [children[c]]}
            return v
    try:
        compare_children(spec, dumps, children, _who(spec))
    except Violation as v:
        v.case = {"pkgs": [spec], "children": children}
        return v
    return None


def _record(spec, dumps, ctx: Ctx):
    f = G.features(spec)
    labels = ["kind:" + f["kind"], "varfiles:%d" % f["nvarfiles"],
              "contested-keys:%s" % ("0" if not f["contested"] else "1" if f["contested"] == 1 else ">=2"),
              "environments:%s" % (">=2" if f["nenv"] >= 2 else str(f["nenv"]))]
    if f["repeated_path"]:
        labels.append("repeated-variable-path")
    if f["duplicate_steps"]:
        labels.append("dsl-duplicate-step-names")
    if spec["kind"] == "flowir":
        if spec["platform"]:
            labels.append("platform:P")
        if spec["manifest"]:
            labels.append("explicit-manifest")
        if len(spec["dirs"]) >= 2:
            labels.append("top-level-folders>=2")
        if any(c["replicate"] for c in spec["W"]["components"]):
            labels.append("replicating")
        if any(f2["fmt"] == "conf" for f2 in spec["varfiles"]):
            labels.append("conf-variable-file")
    d0 = dumps[0]
    for route in ROUTES:
        if route in d0:
            labels.append("%s:%s" % (route, d0[route]["outcome"] if d0[route]["outcome"] == "ok" else
                                     "rejected:" + d0[route]["outcome"].split(":", 1)[1]))
    memo = (d0.get("experiment") or {}).get("memoization") or {}
    if memo:
        labels.append("memoization:" + ("all-hashes" if all(h[0] for h in memo.values()) else
                                        "some-hashes" if any(h[0] for h in memo.values()) else "no-hash"))
    gen_names = [n for n in ((d0.get("conf") or {}).get("components") or []) if re.search(r"-[IVX]+$", n)]
    if gen_names:
        labels.append("generated-component-names")
    ctx.rec.label(*labels)
    if f["nontrivial"]:
        sample = {"kind": f["kind"], "variable_files": [spec["varfiles"][i]["name"] for i in spec["varorder"]],
                  "contested_keys": f["contested"], "environments": f["nenv"], "duplicate_steps": f["duplicate_steps"],
                  "components": (d0.get("conf") or {}).get("components"),
                  "outcomes": {r: d0[r]["outcome"] for r in ROUTES if r in d0}}
        ctx.rec.nt({k: v for k, v in spec.items() if k not in ("slot", "routes")}, sample, group=f["kind"])


def check_batch(case, ctx: Ctx):
    pkgs = case["pkgs"]
    children = case["children"]
    if len(pkgs) > 1 and len({json.dumps({k: v for k, v in p.items() if k != "slot"}, sort_keys=True) for p in pkgs}) == 1:
        # the all-minimal example with which every Hypothesis run starts: N copies of the same trivial package
        ctx.rec.evaluations -= 1
        ctx.rec.count("degenerate_batches_skipped")
        return
    outs = run_children(case, ctx)
    ctx.rec.evaluations += max(0, len(pkgs) - 1)
    for c in children:
        ctx.rec.cover("hashseeds", c["hashseed"])
    first = None
    for i, spec in enumerate(pkgs):
        dumps = [o["pkgs"][i] for o in outs]
        _record(spec, dumps, ctx)
        v = _judge_package(spec, dumps, children, ctx)
        if v is None:
            continue
        if v.sig in ctx.excluded:
            ctx.rec.excluded[v.sig] += 1          # known: keep judging the other packages of the batch
            continue
        if first is None:
            first = v
    if first is not None:
        raise first


# ------------------------------------------------------------------------------------------------------------
# reduction of a failing single-package case (own reducer: every candidate costs fresh interpreters)
def _candidates(case):
    spec = case["pkgs"][0]
    # one route only
    routes = spec.get("routes") or ROUTES
    if len(routes) > 1:
        for r in routes:
            yield _with(case, routes=[r])
    # fewer children
    if len(case["children"]) > 2:
        for c in range(1, len(case["children"])):
            alt = copy.deepcopy(case)
            alt["children"] = [alt["children"][0], alt["children"][c]]
            yield alt
    # plain key order / listing order in the varying child
    for c, child in enumerate(case["children"]):
        for what in ("keyperm", "listperm"):
            if child[what] is not None:
                alt = copy.deepcopy(case)
                alt["children"][c][what] = None
                yield alt
    # fewer variable files / no repeated path
    order = spec["varorder"]
    if len(order) != len(set(order)):
        dedup = [i for k, i in enumerate(order) if i not in order[k + 1:]]
        yield _with(case, varorder=dedup)
    if len(order) > 2:
        for k in range(len(order)):
            yield _with(case, varorder=order[:k] + order[k + 1:])
    if spec["kind"] == "flowir":
        n = len(spec["W"]["components"])
        if n > 1:
            alt = copy.deepcopy(case)
            s = alt["pkgs"][0]
            s["W"]["components"] = s["W"]["components"][:-1]
            for key in ("uses", "comp_env", "dirrefs"):
                s[key] = s[key][:-1]
            yield alt
        if spec["envs"].get("default") or spec["envs"].get(G.PLATFORM):
            yield _with(case, envs={"default": {}}, comp_env=[None] * n)
        if spec["dirs"] or spec["manifest"]:
            yield _with(case, dirs={}, manifest={}, dirrefs=[[] for _ in range(n)])
        if spec["platform"]:
            yield _with(case, platform=None, pkgvars=dict(spec["pkgvars"], pg={}),
                        envs={"default": spec["envs"].get("default", {})})
    elif spec["kind"] == "dsl":
        if len(spec["main"]) > 1:
            yield _with(case, main=spec["main"][:-1])
        if spec["subs"] and not any(s["t"][0] == "w" for s in spec["main"]):
            yield _with(case, subs=[])


def _with(case, **changes):
    alt = copy.deepcopy(case)
    alt["pkgs"][0].update(copy.deepcopy(changes))
    return alt


def minimize(v: Violation, ctx: Ctx, max_runs=14):
    best = v
    runs = 0
    progress = True
    while progress and runs < max_runs:
        progress = False
        for cand in _candidates(best.case):
            if runs >= max_runs:
                break
            runs += 1
            try:
                check_batch(cand, _Quiet(ctx))
            except Violation as w:
                if w.sig == v.sig:
                    best = w
                    progress = True
                    break
            except Exception:
                continue
    return best


class _Quiet(object):
    """A context whose recorder is thrown away (reduction runs must not count as evaluations)."""

    def __init__(self, ctx: Ctx):
        from ..core import Recorder
        self._ctx = ctx
        self.rec = Recorder()
        self.excluded = set()

    def __getattr__(self, name):
        return getattr(self._ctx, name)


# ------------------------------------------------------------------------------------------------------------
def shard(ctx: Ctx):
    npk = ctx.pick(16, 24)
    k = ctx.pick(3, 4)
    runs = ctx.pick(1, 4)                   # Hypothesis runs per shard (the time budget is checked between runs)
    per_run = (ctx.n(8 * 4, 16 * 40) + runs - 1) // runs + 1     # +1: the first example of a run is degenerate
    explore(ctx, "batch", G.batch(npk, k), check_batch, per_run * runs, batch=per_run, shrink=False,
            minimize=minimize)


def replay(sub, case, ctx: Ctx):
    check_batch(case, ctx)
