"""C02 — the stage outcome does not depend on the ordering of notifications.

Same harness as C01 (real Controller/ComponentState/Engine under the deterministic kernel).  Each generated
(workflow, exit-reason script) is executed under several schedules: the Hypothesis-drawn one plus fixed FIFO / LIFO
variants.  Oracles: bounded termination, exactly-one-final-state, a rule model of the final states written from the
statement (vf/rt/wfcase.rule_states) and agreement between the schedules.
"""
from __future__ import annotations

from hypothesis import strategies as st

from ..core import Chooser, Ctx, Violation, explore
from ..gen import workflow as wfgen
from ..rt import wfcase
from ..rt.wfcase import FAILED, FINAL, FINISHED, SHUTDOWN

ID = "C02"
LEVEL = "exploration"
RULE = ("case = generated workflow (<=5 primitive components, <=3 stages, replicas, aggregators, observers, "
        "shutdownOn / restartHookOn / maxRestarts) + exit reason for every task execution; executed under the drawn "
        "schedule and under FIFO and LIFO delivery. Non-trivial = >=2 distinct delivery orders were exercised and the "
        "script contains a shutdownOn exit, a restart or an unrecoverable exit; distinct = distinct (workflow, script, "
        "launch orders).")
ASSUMPTIONS = [
    "interleavings are explored at callback granularity; termination is checked as bounded quiescence in virtual "
    "time (no progress during 80 consecutive idle 5 s scheduler waits = stuck)",
    "tasks of repeating components always exit successfully here (their failure handling is C13's subject)",
    "restart policy in the rule model: restart when the reason is in restartHookOn (default [ResourceExhausted]) "
    "within maxRestarts (default 3), resubmit up to 5 times after SubmissionFailed, never otherwise; no restart hook "
    "file in the package",
    "known finding excluded by construction is listed in known_findings.json",
]
TIERS = {"quick": {"shards": 16, "budget": 200}, "thorough": {"shards": 16, "budget": 3000}}


class PatternChooser(Chooser):
    """Derived schedules: 'fifo', 'lifo', or 'rand:<k>:<seed>' (a PRNG seeded from the case, so the schedule is a pure
    function of the case and replays exactly)."""

    def __init__(self, kind):
        super().__init__(script=[])
        self.kind = kind
        self.rng = None
        if kind.startswith("rand:"):
            import random
            self.rng = random.Random(int(kind.split(":")[2]))

    def choose(self, n, label=""):
        if n <= 1:
            return 0
        if self.rng is not None:
            v = self.rng.randrange(n)
            self.log.append(v)
            return v
        if self.kind == "lifo":
            v = n - 2 if label == "item" and n >= 2 else n - 1      # newest callback first, never the timeout option
            v = max(v, 0)
        else:
            v = 0
        self.log.append(v)
        return v


def nontrivial_script(W, script):
    nodes, _ = wfgen.expand(W)
    for ref, reasons in script.items():
        if any(r != "Success" for r in reasons):
            return True
    return False


def _is_observer_of_shutdown_subject(ref, nodes, preds, expected):
    nd = nodes[ref]
    return bool(nd["repeat"]) and any(nodes[p]["stage"] == nd["stage"] and expected[p] == SHUTDOWN for p in preds[ref])


def _explained_by_observer_finding(W, script, nodes, preds, expected, actual, in_run_stages, allow_shutdown=False,
                                   memo=()):
    """True when every difference between actual and rule states follows from repeating components that ended
    'finished' although a same-stage producer ended shut down (the open known finding) - including its downstream
    consequences (their consumers then are not shut down either)."""
    forced = {r: FINISHED for r in in_run_stages
              if actual[r] == FINISHED and expected[r] == SHUTDOWN
              and _is_observer_of_shutdown_subject(r, nodes, preds, expected)}
    if not forced:
        return False
    alt = wfcase.rule_states(W, script, force=forced, memo=memo)
    for r in in_run_stages:
        if actual[r] == alt[r] or (allow_shutdown and actual[r] == SHUTDOWN):
            continue
        return False
    return True


def evaluate(case, res, mon, sched_name):
    """Oracles (1)-(4) for one execution."""
    W, script = case["W"], case["script"]
    nodes, preds = wfgen.expand(W)
    expected = wfcase.rule_states(W, script, memo=case.get("memo", ()))
    if res.stuck:
        active = {r: s for r, s in res.states.items() if s not in FINAL}
        raise Violation("stage-loop-does-not-terminate",
                        "[%s] stage loop made no progress for %d idle waits; non-final: %s; stage outcomes %s; "
                        "launch log %s" % (sched_name, 80, active, res.stage_outcomes, res.launch_log))
    if res.aborted:
        return "inconclusive"
    ran = [o["stage"] for o in res.stage_outcomes]
    last = res.stage_outcomes[-1]
    for o in res.stage_outcomes:
        if o["outcome"].startswith("exception:"):
            raise Violation("stage-loop-raised-unexpected-exception",
                            "[%s] stage %d: %s %s" % (sched_name, o["stage"], o["outcome"], o.get("error")))
    in_run_stages = [r for r in nodes if nodes[r]["stage"] in ran]
    for r in in_run_stages:
        if res.states[r] not in FINAL:
            raise Violation("component-not-final-after-stage",
                            "[%s] %s is '%s' after its stage loop returned (%s)" % (
                                sched_name, r, res.states[r], res.stage_outcomes))
    unrecoverable = [r for r in nodes if expected[r] == FAILED]
    # only nodes that can actually be reached (no failed/shutdown ancestor) exit unrecoverably in every ordering
    if not unrecoverable:
        bad = {r: (res.states[r], expected[r]) for r in in_run_stages if res.states[r] != expected[r]}
        if bad and _explained_by_observer_finding(W, script, nodes, preds, expected, res.states, in_run_stages,
                                                  memo=case.get("memo", ())):
            raise Violation("observer-of-shutdown-subject-finishes",
                            "[%s] repeating component(s) %s end 'finished' although a same-stage producer ended "
                            "shut down (rules: consumers of shut-down producers are shut down); script %s" % (
                                sched_name, sorted(bad), script))
        if bad:
            raise Violation("final-state-differs-from-rules",
                            "[%s] (actual, expected) %s; script %s; outcomes %s" % (
                                sched_name, bad, script, res.stage_outcomes))
        if any(o["outcome"] == "UnexpectedJobFailureError" for o in res.stage_outcomes):
            raise Violation("stage-failed-without-unrecoverable-exit",
                            "[%s] %s" % (sched_name, res.stage_outcomes))
        return "recoverable"
    failed = [r for r in nodes if res.states[r] == FAILED]
    if not failed:
        raise Violation("unrecoverable-exit-but-no-failed-component",
                        "[%s] expected one of %s to fail; states %s; outcomes %s" % (
                            sched_name, unrecoverable, res.states, res.stage_outcomes))
    fstage = min(nodes[r]["stage"] for r in failed if nodes[r]["stage"] in ran) if any(
        nodes[r]["stage"] in ran for r in failed) else None
    if last["outcome"] != "UnexpectedJobFailureError" and last.get("stage_state") != "failed":
        raise Violation("failed-component-but-stage-not-failed",
                        "[%s] failed=%s outcomes=%s" % (sched_name, failed, res.stage_outcomes))
    if fstage is not None and fstage == last["stage"] and not str(last.get("stage_state")).startswith("error:") \
            and last.get("stage_state") != "failed":
        # "the stage containing it reported as failed": the exception of run() is one report, the stage state (what
        # Controller.stageState() and the status file show) is the other
        raise Violation("failed-component-but-stage-state-not-failed",
                        "[%s] failed=%s in stage %d whose state reads %r; outcomes=%s" % (
                            sched_name, failed, fstage, last.get("stage_state"), res.stage_outcomes))
    bad = {r: (res.states[r], expected[r]) for r in in_run_stages
           if res.states[r] not in (expected[r], SHUTDOWN)}
    if bad:
        # A repeating component that was already running when a same-stage producer FAILED may complete on its own
        # (its producers are over, its last execution succeeds) before the controller gets to stop the stage: "success
        # gives finished" is then its rule-given state - no rule of the statement shuts down the running consumer of a
        # *failed* producer (C01 only forbids launching it afterwards). Its own consumers follow from that state.
        forced = {r: FINISHED for r in in_run_stages
                  if nodes[r]["repeat"] and res.states[r] == FINISHED and expected[r] == SHUTDOWN
                  and any(nodes[p]["stage"] == nodes[r]["stage"] and res.states[p] == FAILED for p in preds[r])}
        if forced:
            expected = wfcase.rule_states(W, script, force=forced, memo=case.get("memo", ()))
            bad = {r: (res.states[r], expected[r]) for r in in_run_stages
                   if res.states[r] not in (expected[r], SHUTDOWN)}
    if bad and _explained_by_observer_finding(W, script, nodes, preds, expected, res.states, in_run_stages,
                                              allow_shutdown=True, memo=case.get("memo", ())):
        raise Violation("observer-of-shutdown-subject-finishes",
                        "[%s] repeating component(s) %s end 'finished' although a same-stage producer ended shut down; "
                        "script %s" % (sched_name, sorted(bad), script))
    if bad:
        raise Violation("state-outside-rules-after-failure",
                        "[%s] (actual, expected) %s; script %s" % (sched_name, bad, script))
    return "unrecoverable"


def run(case, ctx: Ctx, chooser: Chooser):
    W, script = case["W"], case["script"]
    full = {"W": W, "script": script, "memo": case.get("memo", []), "late": case.get("late") or {}, "lockpass": case.get("lockpass") or [], "pauses": case.get("pauses") or [], "choices": None}
    orders = []
    kinds = []
    variants = case.get("variants")
    if variants is None:
        variants = ["fifo", "lifo"]
        if ctx.tier == "thorough" and not ctx.replaying:
            from ..core import jhash
            variants += ["rand:%d:%d" % (k, jhash([W, script, k]) % (2 ** 31)) for k in range(3)]
    scheds = [("drawn", chooser)] + [(k, PatternChooser(k)) for k in variants]
    finals = {}
    for name, ch in scheds:
        res, mon = wfcase.run_case(case, ctx, ch)
        try:
            kind = evaluate(case, res, mon, name)
        except Violation as v:
            full["choices"] = list(ch.log)
            full["variants"] = []
            v.case = full
            raise
        kinds.append(kind)
        orders.append(tuple(l[0] for l in res.launch_log))
        if kind == "recoverable":
            finals[name] = dict(res.states)
        ctx.rec.label("sched:%s:%s" % (name, kind))
    if len(finals) >= 2:
        vals = list(finals.values())
        nodes, _ = wfgen.expand(W)
        # metamorphic relation: same final states under every schedule (stages that ran in all of them)
        for other in vals[1:]:
            diff = {r: (vals[0][r], other[r]) for r in vals[0] if vals[0][r] != other[r]
                    and vals[0][r] in FINAL and other[r] in FINAL}
            if diff:
                full["choices"] = list(chooser.log)
                raise Violation("final-state-depends-on-order", "%s" % diff, case=full)
    ctx.rec.label("has-observer" if any(c["repeat"] for c in W["components"]) else "no-observer",
                  "has-shutdownOn" if any(c["shutdownOn"] for c in W["components"]) else "no-shutdownOn",
                  "script" if nontrivial_script(W, script) else "all-success")
    if len(set(orders)) >= 2 and nontrivial_script(W, script) and "inconclusive" not in kinds:
        ctx.rec.nt(["c02", W, script, sorted(set(orders))],
                   {"components": [(c["name"], c["stage"], [r["p"] for r in c["refs"]],
                                    "rep" if c["replicate"] else "", "agg" if c["aggregate"] else "",
                                    "obs" if c["repeat"] else "", c["shutdownOn"], c["restartHookOn"],
                                    c["maxRestarts"]) for c in W["components"]],
                    "script": script, "kinds": kinds, "launch_orders": [list(o) for o in sorted(set(orders))][:3]})


def check(data, ctx: Ctx):
    case = data.draw(wfcase.runtime_cases(max_components=ctx.pick(5, 6), fail_rate=5), label="case")
    run(case, ctx, Chooser(data=data))


def _minimize(v, ctx):
    def rerun(c):
        ch = Chooser(script=c.get("choices") or [])
        res, mon = wfcase.run_case(c, ctx, ch)
        try:
            evaluate(c, res, mon, "replay")
        except Violation as w:
            w.case = dict(c, choices=list(ch.log))
            raise
    if v.sig == "final-state-depends-on-order":
        return v
    return wfcase.minimize_schedule(v, ctx, rerun)


def shard(ctx: Ctx):
    explore(ctx, "sched", st.data(), check, ctx.n(320, 12000), batch=20, shrink=False, minimize=_minimize)


def replay(sub, case, ctx: Ctx):
    if case.get("choices") is None:
        run(case, ctx, PatternChooser("fifo"))
    else:
        run(dict(case), ctx, Chooser(script=case["choices"]))
