"""C10 oracle: the expected resolved argument string and the overlap features of a case, computed from the case alone
(token list + storage layout of an instance directory); never calls DataReference / resolveArguments."""
from __future__ import annotations

import os
from typing import Dict, List

from ..gen import c10_args as G


def value_of(case, r: dict, inst: str) -> str:
    """The reference's own value: a path (`ref`) or the contents of the file it points at (`output`)."""
    rel = G.target_relpath(case["producers"], r)
    if r["method"] == "ref":
        return r["path"] if rel is None else os.path.join(inst, rel)
    # the file was written by the harness with exactly this text; trailing newlines are not part of the value
    return case["contents"][rel].rstrip("\n")


def expected(case, group, inst: str) -> str:
    out = []
    for t in group["tokens"]:
        out.append(t[1] if t[0] == "lit" else value_of(case, group["refs"][t[1]], inst))
    return "".join(out)


def features(case, group) -> Dict[str, object]:
    prods, cstage, refs = case["producers"], case["cstage"], group["refs"]
    used: Dict[int, set] = {}
    for t in group["tokens"]:
        if t[0] == "ref":
            used.setdefault(t[1], set()).add(G.spelling(prods, cstage, refs[t[1]], t[2]))
    mixed = sorted(i for i, s in used.items() if len(s) > 1)
    overlaps: List[List[str]] = []
    for i, texts in sorted(used.items()):
        for s1 in sorted(texts):
            for j in sorted(used):
                if j == i:
                    continue
                for s2 in G.spellings(prods, cstage, refs[j]):
                    if s2 != s1 and s2 in s1:
                        overlaps.append([s2, s1])
    rescans = []
    own = {G.target_relpath(prods, refs[i]) for i in used if refs[i]["method"] == "output"}
    for loc, text in sorted(case["contents"].items()):
        if loc not in own:
            continue
        for j in sorted(used):
            for s2 in G.spellings(prods, cstage, refs[j]):
                if s2 in text:
                    rescans.append([loc, s2])
    same_name_stages = len({p["name"] for p in prods}) < len(prods)
    return {"mixed": mixed, "overlaps": overlaps, "rescans": rescans, "same_name_across_stages": same_name_stages}
