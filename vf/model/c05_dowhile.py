"""C05 reference model: what a DoWhile workflow must look like after k further iterations.

Pure functions of the abstract case (see vf/gen/c05_docs.py); never looks at rendered documents nor calls the code
under test. Derived from the property statement and the FlowIR documentation of DoWhile/replicate:

  * looped component `c` of loop-stage `ls`, imported at stage S, iteration i  ->  node `stage<S+ls>.<i>#<c>[<replica>]`
  * inside iteration i a reference to looped component p means `<i>#<p>`; a reference to an inputBinding means the
    binding value given by the importing component, except for i>0 and a loop-carried binding (loopBindings) where it
    means the loopBinding producer of iteration i-1;
  * replicate/aggregate: replica r of a consumer reads replica r of a replicated producer, an aggregating consumer reads
    all replicas, replication propagates through non aggregating consumers (outside consumers included).
"""
from __future__ import annotations

import os


def propagating(loop):
    out = []
    for comp in loop:
        n = comp.get("replicate") or 0
        for u in comp["uses"]:
            if "c" in u and out[u["c"]]:
                n = out[u["c"]]
        out.append(0 if comp.get("aggregate") else n)
    return out


def replicas(loop):
    prop = propagating(loop)
    out = []
    for comp in loop:
        n = comp.get("replicate") or 0
        for u in comp["uses"]:
            if "c" in u and prop[u["c"]]:
                n = prop[u["c"]]
        out.append(0 if comp.get("aggregate") else n)
    return out


def _ref(stage, name, file, method):
    s = "stage%d.%s" % (stage, name)
    if file:
        s = s + "/" + file
    return "%s:%s" % (s, method)


class Model:
    def __init__(self, case):
        self.case = case
        self.S = case["S"]
        self.loop = case["loop"]
        self.binds = case["binds"]
        self.outer = case["outer"]
        self.reps = replicas(self.loop)
        self.prop = propagating(self.loop)
        self.nrep = max(self.prop + self.reps + [0])

    # -- names ---------------------------------------------------------------------------------------------
    def stage_of(self, j):
        return self.S + self.loop[j]["ls"]

    def replica_ids(self, j):
        return list(range(self.reps[j])) if self.reps[j] else [None]

    def comp_name(self, j, i, r):
        """FlowIR component name of iteration i (None: the placeholder/blueprint name) and replica r."""
        base = self.loop[j]["name"] + ("" if r is None else str(r))
        return base if i is None else "%d#%s" % (i, base)

    def node(self, j, i, r):
        return "stage%d.%s" % (self.stage_of(j), self.comp_name(j, i, r))

    def placeholders(self):
        """{placeholder reference: (j, r)}"""
        return {self.node(j, None, r): (j, r) for j in range(len(self.loop)) for r in self.replica_ids(j)}

    def instances(self, k):
        """{node name: (j, i, r)} for all looped instances of iterations 0..k"""
        return {self.node(j, i, r): (j, i, r) for j in range(len(self.loop)) for i in range(k + 1)
                for r in self.replica_ids(j)}

    # -- consumers outside the loop ------------------------------------------------------------------------------
    def consumer_replicas(self, c):
        if c.get("aggregate"):
            return [None]
        n = 0
        for u in c["uses"]:
            if self.prop[u["c"]]:
                n = self.prop[u["c"]]
        return list(range(n)) if n else [None]

    def outer_nodes(self):
        out = {"stage%d.%s" % (o["stage"], o["name"]) for o in self.outer}
        for c in self.case["cons"]:
            for r in self.consumer_replicas(c):
                out.add("stage%d.%s%s" % (c["stage"], c["name"], "" if r is None else r))
        return out

    def consumer_probes(self):
        """[(consumer node, use, target j, target replica r)]: every reference a consumer node holds on a placeholder"""
        out = []
        for c in self.case["cons"]:
            for cr in self.consumer_replicas(c):
                node = "stage%d.%s%s" % (c["stage"], c["name"], "" if cr is None else cr)
                for u in c["uses"]:
                    j = u["c"]
                    if self.prop[j]:
                        rs = [cr] if cr is not None else list(range(self.prop[j]))
                    else:
                        rs = [None]
                    for r in rs:
                        out.append((node, u, j, r))
        return out

    def probe_reference(self, u, j, r):
        return _ref(self.stage_of(j), self.comp_name(j, None, r), u["file"], u["method"])

    # -- wiring of one instance -------------------------------------------------------------------------------
    def _producer_replicas(self, pj, consumer_j, consumer_r):
        if not self.prop[pj]:
            return [None]
        if self.loop[consumer_j].get("aggregate") or consumer_r is None:
            return list(range(self.prop[pj]))
        return [consumer_r]

    def instance_inputs(self, j, i, r):
        """-> (sorted absolute references, set of predecessor node names) of replica r of iteration i of component j"""
        refs, preds = [], set()
        for u in self.loop[j]["uses"]:
            if "c" in u:
                p = u["c"]
                for pr in self._producer_replicas(p, j, r):
                    refs.append(_ref(self.stage_of(p), self.comp_name(p, i, pr), u["file"], u["method"]))
                    preds.add(self.node(p, i, pr))
            else:
                b = self.binds[u["b"]]
                if i > 0 and b["loop"]:
                    p = b["loop"]["to"]
                    file = u["file"] or b["loop"]["file"]
                    for pr in self._producer_replicas(p, j, r):
                        refs.append(_ref(self.stage_of(p), self.comp_name(p, i - 1, pr), file, b["type"]))
                        preds.add(self.node(p, i - 1, pr))
                else:
                    o = self.outer[b["src"]]
                    refs.append(_ref(o["stage"], o["name"], u["file"] or b["sfile"], b["type"]))
                    preds.add("stage%d.%s" % (o["stage"], o["name"]))
        return sorted(set(refs)), preds

    # -- state -------------------------------------------------------------------------------------------------
    def condition(self, k):
        c = self.case["cond"]
        j = c["c"]
        return _ref(self.stage_of(j), self.comp_name(j, k, None), c["file"], "output")

    # -- resolution ----------------------------------------------------------------------------------------------
    def workdir(self, root, j, i, r):
        return os.path.join(root, "stages", "stage%d" % self.stage_of(j), self.comp_name(j, i, r))

    def payload_path(self, root, j, i, r, file):
        return os.path.join(self.workdir(root, j, i, r), file or "out.stdout")

    @staticmethod
    def payload(stage, name, file):
        return "<stage%d.%s|%s>" % (stage, name, file or "stdout")

    @staticmethod
    def lexicographic_order(k):
        return sorted(range(k + 1), key=str)

    @staticmethod
    def lexicographic_latest(k):
        return max(range(k + 1), key=str)

    def expected_resolution(self, root, u, j, r, k, order=None):
        """value of the reference `u` on replica r of looped component j when iterations 0..k exist (`order`: the
        order in which an aggregate reference lists them; default increasing)"""
        m = u["method"]
        order = list(range(k + 1)) if order is None else order
        if m in ("ref", "copy", "link"):
            d = self.workdir(root, j, k, r)
            return os.path.join(d, u["file"]) if u["file"] else d
        if m == "output":
            return self.payload(self.stage_of(j), self.comp_name(j, k, r), u["file"])
        if m == "loopref":
            ds = [self.workdir(root, j, i, r) for i in order]
            return " ".join(os.path.join(d, u["file"]) if u["file"] else d for d in ds)
        if m == "loopoutput":
            return " ".join(self.payload(self.stage_of(j), self.comp_name(j, i, r), u["file"]) for i in order)
        raise ValueError(m)
