"""C04 reference model: plain ordered overlay of configuration layers + substitution of %(name)s to a fixpoint.

Independent of the code under test: nothing here imports `experiment`. The model works on the abstract *case*
(see vf/gen/c04_docs.py for its shape), never on the rendered FlowIR document.

Layer names
  variables : dg ds pg ps ug us c o      (default global/stage, platform P global/stage, user global/stage,
                                          component, component override for P)
              od                          (component override for platform `default`)
              qg qs oq                    (platform Q - defined, never selected)
              dsx psx usx qsx             (same scopes but for the *other* stage)
  options   : the same minus ug us usx (user files only carry variables); the lowest layer is BUILTIN.
"""
from __future__ import annotations

import re

VAR_LAYERS = ["dg", "ds", "pg", "ps", "ug", "us", "c", "o", "od", "qg", "qs", "oq", "dsx", "psx", "usx", "qsx"]
OPT_LAYERS = ["dg", "ds", "pg", "ps", "c", "o", "od", "qg", "qs", "oq", "dsx", "psx", "qsx"]
USER_LAYERS = ("ug", "us", "usx")

REF = re.compile(r"%\(([a-zA-Z0-9_.-]+)\)s")

# option -> declared type ("typed options end up with their declared type"); 'raw' = no declared conversion
OPTION_TYPES = {
    "command.arguments": "str",
    "command.executable": "str",
    "command.resolvePath": "flag",
    "command.expandArguments": "str",
    "workflowAttributes.maxRestarts": "int",
    "workflowAttributes.repeatRetries": "int",
    "workflowAttributes.isMigratable": "bool",
    "workflowAttributes.optimizer.exploitChance": "float",
    "workflowAttributes.optimizer.exploitTarget": "float",
    "resourceRequest.numberProcesses": "int",
    "resourceRequest.numberThreads": "int",
    "resourceRequest.ranksPerNode": "int",
    "resourceRequest.threadsPerCore": "int",
    "resourceRequest.gpus": "int",
    "resourceRequest.memory": "memory",
    "resourceManager.config.walltime": "float",
    "resourceManager.lsf.queue": "str",
    "resourceManager.lsf.resourceString": "str",
    "resourceManager.lsf.statusRequestInterval": "float",
    "resourceManager.kubernetes.namespace": "str",
    "resourceManager.kubernetes.image": "str",
    "resourceManager.kubernetes.gracePeriod": "int",
    "resourceManager.kubernetes.cpuUnitsPerCore": "float",
    "resourceManager.docker.image": "str",
}

# documented built-in defaults (lowest layer), after type conversion
BUILTIN = {
    "command.arguments": "",
    "command.executable": None,
    "command.resolvePath": True,
    "command.expandArguments": "double-quote",
    "workflowAttributes.maxRestarts": None,
    "workflowAttributes.repeatRetries": 3,
    "workflowAttributes.isMigratable": False,
    "workflowAttributes.optimizer.exploitChance": 0.9,
    "workflowAttributes.optimizer.exploitTarget": 0.75,
    "resourceRequest.numberProcesses": 1,
    "resourceRequest.numberThreads": 1,
    "resourceRequest.ranksPerNode": 1,
    "resourceRequest.threadsPerCore": 1,
    "resourceRequest.gpus": None,
    "resourceRequest.memory": None,
    "resourceManager.config.walltime": 60.0,
    "resourceManager.lsf.queue": "normal",
    "resourceManager.lsf.resourceString": None,
    "resourceManager.lsf.statusRequestInterval": 20.0,
    "resourceManager.kubernetes.namespace": "default",
    "resourceManager.kubernetes.image": None,
    "resourceManager.kubernetes.gracePeriod": None,
    "resourceManager.kubernetes.cpuUnitsPerCore": None,
    "resourceManager.docker.image": None,
}


class Undefined(Exception):
    def __init__(self, name, where):
        super().__init__("%s referenced by %s" % (name, where))
        self.name = name
        self.where = where


def active_var_layers(platform, user=True):
    """Lowest to highest priority."""
    out = ["dg", "ds"]
    if platform != "default":
        out += ["pg", "ps"]
    if user:
        out += ["ug", "us"]
    out += ["c"]
    out += ["o"] if platform != "default" else ["od"]
    return out


def active_opt_layers(platform):
    out = ["dg", "ds"]
    if platform != "default":
        out += ["pg", "ps"]
    out += ["c"]
    out += ["o"] if platform != "default" else ["od"]
    return out


def overlay(defs, order):
    """defs: {key: {layer: value}} -> {key: (winning layer, value)} for keys defined in at least one active layer."""
    out = {}
    for key in sorted(defs):
        for layer in order:
            if layer in defs[key]:
                out[key] = (layer, defs[key][layer])
    return out


def text_of(value):
    """How a primitive variable value reads once substituted into a string."""
    if isinstance(value, bool):
        return "True" if value else "False"
    if isinstance(value, (int, float)):
        return repr(value)
    return value


def substitute(text, layered, where, depth=0, trail=None):
    """Replace every %(name)s in text (recursively) with the value of the layered variable `name`."""
    if not isinstance(text, str):
        return text
    if depth > 50:
        raise RuntimeError("model: reference cycle at %s" % where)
    trail = trail if trail is not None else []

    def rep(m):
        name = m.group(1)
        if name not in layered:
            raise Undefined(name, where)
        trail.append((name, layered[name][0]))
        value = layered[name][1]
        if isinstance(value, str):
            return substitute(value, layered, "variable " + name, depth + 1, trail)
        return text_of(value)

    out = REF.sub(rep, text)
    # "until none of a defined variable remains": a reference whose *name* was spelled with a reference
    # (%(queue_%(tier)s)s) only takes shape after the inner one was substituted
    if out != text and REF.search(out):
        return substitute(out, layered, where, depth + 1, trail)
    return out


def convert(option, value):
    """Declared type of a (fully substituted) option value."""
    if value is None:
        return None
    kind = OPTION_TYPES.get(option, "raw")
    if kind == "str":
        return str(value)
    if kind == "int":
        return int(value)
    if kind == "float":
        return float(value)
    if kind == "flag":
        if isinstance(value, bool):
            return value
        return {"true": True, "yes": True, "false": False, "no": False}[str(value).lower()]
    if kind == "bool":
        if isinstance(value, bool):
            return value
        return AnyBool
    if kind == "memory":
        if isinstance(value, int):
            return value
        s = str(value)
        if s.endswith("Mi"):
            return int(s[:-2]) * 1024 * 1024
        if s.endswith("Gi"):
            return int(s[:-2]) * 1024 * 1024 * 1024
        return int(s)
    return value


class _AnyBool:
    """Marker: the statement fixes only the type (bool), not how a substituted string maps to True/False."""

    def __repr__(self):
        return "<any bool>"


AnyBool = _AnyBool()


def resolve(case, user=True):
    """-> dict(error=None|Undefined, vars={name: value}, var_winner={name: layer}, opts={opt: value},
              opt_winner={opt: layer|'builtin'}, chains={key: [(var, layer)...]})"""
    platform = case["platform"]
    layered = overlay(case.get("vars", {}), active_var_layers(platform, user))
    out = {"error": None, "vars": {}, "var_winner": {}, "opts": {}, "opt_winner": {}, "chains": {}}
    try:
        for name in sorted(layered):
            layer, value = layered[name]
            trail = []
            out["vars"][name] = substitute(value, layered, "variable " + name, 0, trail)
            out["var_winner"][name] = layer
            out["chains"]["var:" + name] = [(name, layer)] + trail
        lopts = overlay(case.get("opts", {}), active_opt_layers(platform))
        for opt in sorted(case.get("opts", {})):
            if opt in lopts:
                layer, value = lopts[opt]
                trail = []
                value = substitute(value, layered, "option " + opt, 0, trail)
                out["opts"][opt] = convert(opt, value)
                out["opt_winner"][opt] = layer
                out["chains"]["opt:" + opt] = [(opt, layer)] + trail
            else:
                out["opts"][opt] = BUILTIN[opt]
                out["opt_winner"][opt] = "builtin"
    except Undefined as e:
        out["error"] = e
    return out


def definers(defs, key, order):
    return [layer for layer in order if layer in defs.get(key, {})]


def resolve_early(case, user=True):
    """Alternative (NOT the documented) semantics, used only to name a root cause: references inside global
    variables / global blueprints are bound in the global scope, those inside stage variables / stage blueprints in
    the global+stage scope, before the component layers are applied. -> {"vars": {...}, "opts": {...}}"""
    platform = case["platform"]
    vars_ = case.get("vars", {})
    on_p = platform != "default"

    def soft(value, layered, where, depth=0):
        # early binding is partial: references that are defined in the defining scope are bound there, the others stay
        # in place and are bound later in the component scope
        if not isinstance(value, str) or depth > 50:
            return value

        def rep(m):
            name = m.group(1)
            if name not in layered:
                return m.group(0)
            v = layered[name][1]
            return soft(v, layered, name, depth + 1) if isinstance(v, str) else text_of(v)
        return REF.sub(rep, value)

    def bind(defs, scope_layers, below):
        layered = dict(below)
        own = overlay(defs, scope_layers)
        layered.update(own)
        out = dict(below)
        for name, (layer, value) in own.items():
            out[name] = (layer, soft(value, layered, name))
        return out

    glob = bind(vars_, ["dg"] + (["pg"] if on_p else []), {})
    stage_layers = ["ds"] + (["ps"] if on_p else []) + (["ug", "us"] if user else [])
    stage_defs = vars_
    if on_p:        # platform-global beats default-stage
        stage_defs = {n: ({k: v for k, v in d.items() if k != "ds"} if "pg" in d else d) for n, d in vars_.items()}
    stage = bind(stage_defs, stage_layers, glob)
    layered = dict(stage)
    layered.update(overlay(vars_, ["c"] + (["o"] if on_p else ["od"])))
    out = {"vars": {}, "opts": {}}
    for name, (layer, value) in layered.items():
        out["vars"][name] = substitute(value, layered, name)
    lopts = overlay(case.get("opts", {}), active_opt_layers(platform))
    for opt, (layer, value) in lopts.items():
        if layer in ("dg", "pg"):
            value = soft(value, glob, opt)
        elif layer in ("ds", "ps"):
            value = soft(value, stage, opt)
        out["opts"][opt] = convert(opt, substitute(value, layered, opt))
    return out
