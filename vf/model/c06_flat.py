"""C06 reference model: the *flat* dataflow that a DSL 2.0 namespace denotes, and the comparison of a compiled
FlowIR document against it.

The flat model is drawn first by the generator (vf/gen/c06_fold.py) and is never derived from the DSL text:

flat = {
  "ctpl":   [ {"name": str, "slots": [slot...], "exe": None | {"dflt": None|str}, "var": bool} ... ],
  "leaves": [ {"tpl": int, "tag": str, "vals": {slot-name: value}} ... ]          # topological order
}
slot  = {"k": "lit"|"ref"|"argm"|"hid", "name": str, "dflt": None|str|int, "twice": bool, "method": str (argm only)}
value = ["lit", str|int] | ["dflt"] | ["ref", producer-leaf-index, [path segments], method]

Component templates render their parameters into `command.arguments` with `args_pattern`; a leaf is recognised in the
compiler's output through its unique tag (`tag=<tag>;` at the start of the arguments).
"""
from __future__ import annotations

import re
from typing import Any, Dict, List, Optional, Tuple

VAR_NAME = "cv"
VAR_VALUE = "7"
DEFAULT_EXE = "echo"


class Mismatch(Exception):
    def __init__(self, sig: str, message: str):
        super().__init__("%s: %s" % (sig, message))
        self.sig = sig
        self.message = message


def args_pattern(ct: Dict[str, Any]) -> str:
    """The `command.arguments` string of a component template (references parameters as %(name)s)."""
    out = ["tag=%(tag)s;"]
    for s in ct["slots"]:
        n = s["name"]
        if s["k"] == "lit":
            if s.get("twice"):
                out.append(" %s=%%(%s)s+%%(%s)s;" % (n, n, n))
            else:
                out.append(" %s=%%(%s)s;" % (n, n))
        elif s["k"] == "ref":
            out.append(" %s=%%(%s)s;" % (n, n))
        elif s["k"] == "argm":
            out.append(" %s=%%(%s)s:%s;" % (n, n, s["method"]))
        # hid: the parameter does not appear in the arguments
    if ct.get("var"):
        out.append(" %s=%%(%s)s;" % (VAR_NAME, VAR_NAME))
    return "".join(out)


def env_pattern(ct: Dict[str, Any]) -> Dict[str, str]:
    """The inline environment of a component template with `env`: one value per literal slot plus the tag."""
    env = {"C06_TAG": "t-%(tag)s", "C06_FIXED": "1"}
    for s in ct["slots"]:
        if s["k"] == "lit":
            env["C06_%s" % s["name"].upper()] = "%%(%s)s" % s["name"]
    return env


def _lit_text(v) -> str:
    return v if isinstance(v, str) else str(v)


def expected_value_text(flat, leaf_idx: int, slot: Dict[str, Any], ident: Dict[int, Tuple[int, str]]) -> Optional[str]:
    """Final text of a component parameter for a leaf. `ident` maps leaf index -> (stage, name) the compiler chose."""
    leaf = flat["leaves"][leaf_idx]
    v = leaf["vals"].get(slot["name"], ["dflt"])
    if v[0] == "dflt":
        return _lit_text(slot["dflt"])
    if v[0] == "lit":
        return _lit_text(v[1])
    _, prod, path, method = v
    st, name = ident[prod]
    txt = "stage%d.%s" % (st, name)
    if path:
        txt += "/" + "/".join(path)
    if slot["k"] != "argm":
        txt += ":" + method
    return txt


def expected_refs(flat, leaf_idx: int) -> List[Tuple[int, Optional[str], str]]:
    """[(producer leaf, path or None, method)] of a leaf, de-duplicated, from the flat model."""
    leaf = flat["leaves"][leaf_idx]
    ct = flat["ctpl"][leaf["tpl"]]
    out = set()
    for s in ct["slots"]:
        v = leaf["vals"].get(s["name"], ["dflt"])
        if v[0] == "ref":
            out.add((v[1], "/".join(v[2]) or None, v[3]))
    return sorted(out, key=lambda t: (t[0], t[1] or "", t[2]))


_TAG = re.compile(r"^tag=([^;]*);")
_PARAM = re.compile(r"%\(([a-zA-Z0-9_.-]+)\)s")


def _walk_strings(obj, where=()):
    if isinstance(obj, dict):
        for k in sorted(obj, key=str):
            yield from _walk_strings(obj[k], where + (k,))
    elif isinstance(obj, list):
        for i, v in enumerate(obj):
            yield from _walk_strings(v, where + (i,))
    elif isinstance(obj, str):
        yield where, obj


def compare(flat: Dict[str, Any], components: List[Dict[str, Any]], parse_reference,
            environments: Optional[Dict[str, Any]] = None) -> Dict[int, Tuple[int, str]]:
    """Raises Mismatch when the compiled `components` (FlowIR dicts) do not realise the flat model.

    parse_reference(ref_string, stage_of_consumer) -> (stage, name, filename|None, method)   [the FlowIR parser]
    Returns leaf index -> (stage, name).
    """
    leaves = flat["leaves"]
    by_tag: Dict[str, List[Dict[str, Any]]] = {}
    untagged = []
    for c in components:
        args = (c.get("command") or {}).get("arguments")
        m = _TAG.match(args) if isinstance(args, str) else None
        if not m:
            untagged.append(c)
        else:
            by_tag.setdefault(m.group(1), []).append(c)
    want = [l["tag"] for l in leaves]
    got = sorted(by_tag)
    if untagged or sorted(want) != got or any(len(v) != 1 for v in by_tag.values()):
        missing = sorted(set(want) - set(got))
        extra = sorted(set(got) - set(want))
        dup = sorted(t for t, v in by_tag.items() if len(v) > 1)
        kind = ("tag-argument-wrong" if (missing and extra and len(components) == len(leaves)) else
                "component-missing" if len(components) < len(leaves) else
                "component-extra" if len(components) > len(leaves) else "component-set-differs")
        raise Mismatch(kind, "expected one component per leaf tag %s; got %d components, missing tags %s, unexpected "
                             "tags %s, duplicated %s, untagged arguments %s" % (
                                 want, len(components), missing, extra, dup,
                                 [(c.get("command") or {}).get("arguments") for c in untagged]))
    comp_of = {i: by_tag[l["tag"]][0] for i, l in enumerate(leaves)}
    ident: Dict[int, Tuple[int, str]] = {}
    seen: Dict[Tuple[int, str], int] = {}
    for i in range(len(leaves)):
        c = comp_of[i]
        key = (int(c.get("stage", 0) or 0), c.get("name"))
        if not isinstance(key[1], str) or not key[1]:
            raise Mismatch("component-without-name", "leaf %s compiled to a component without a name: %r" % (
                leaves[i]["tag"], c))
        if key in seen:
            raise Mismatch("duplicate-component-name", "leaves %s and %s both compiled to stage%d.%s" % (
                leaves[seen[key]]["tag"], leaves[i]["tag"], key[0], key[1]))
        seen[key] = i
        ident[i] = key
    by_ident = {v: k for k, v in ident.items()}

    for i, leaf in enumerate(leaves):
        c = comp_of[i]
        ct = flat["ctpl"][leaf["tpl"]]
        who = "leaf %s (component stage%d.%s, template %s)" % (leaf["tag"], ident[i][0], ident[i][1], ct["name"])
        # --- producer/consumer relation -------------------------------------------------------------------
        got_refs = set()
        for r in c.get("references") or []:
            try:
                st, name, filename, method = parse_reference(r, ident[i][0])
            except Exception as e:      # the FlowIR parser rejects what the compiler wrote
                raise Mismatch("unparsable-reference", "%s has reference %r: %s" % (who, r, e))
            prod = by_ident.get((st, name))
            if prod is None:
                raise Mismatch("dataflow-mismatch", "%s references %r which is not one of the compiled components "
                                                    "%s" % (who, r, sorted(by_ident)))
            got_refs.add((prod, filename or None, method))
        want_refs = set(expected_refs(flat, i))
        if got_refs != want_refs:
            def show(s):
                return sorted("%s%s:%s" % (leaves[p]["tag"], "/" + f if f else "", m) for p, f, m in s)
            raise Mismatch("dataflow-mismatch", "%s: expected references to (producer tag/path:method) %s, compiled "
                                                "references %s -> %s" % (who, show(want_refs),
                                                                         c.get("references"), show(got_refs)))
        # --- parameter bindings ------------------------------------------------------------------------------
        values = {"tag": leaf["tag"]}
        for s in ct["slots"]:
            values[s["name"]] = expected_value_text(flat, i, s, ident)
        if ct.get("var"):
            values[VAR_NAME] = "%%(%s)s" % VAR_NAME          # component variables are not parameters: left alone
        want_args = _PARAM.sub(lambda m: values[m.group(1)], args_pattern(ct))
        got_args = c["command"]["arguments"]
        if got_args != want_args:
            raise Mismatch("argument-mismatch", "%s: expected arguments %r, compiled %r" % (who, want_args, got_args))
        if ct.get("exe") is not None:
            v = leaf["vals"].get("exe", ["dflt"])
            want_exe = _lit_text(ct["exe"]["dflt"] if v[0] == "dflt" else v[1])
        else:
            want_exe = DEFAULT_EXE
        if c["command"].get("executable") != want_exe:
            raise Mismatch("argument-mismatch", "%s: expected executable %r, compiled %r" % (
                who, want_exe, c["command"].get("executable")))
        if ct.get("env"):
            name = c["command"].get("environment")
            env = (environments or {}).get(name) if isinstance(name, str) else None
            want_env = {k: _PARAM.sub(lambda m: values[m.group(1)], v) for k, v in env_pattern(ct).items()}
            if not isinstance(env, dict) or {k: str(v) for k, v in env.items()} != want_env:
                raise Mismatch("environment-parameter-mismatch", "%s: expected environment %r, compiled %r -> %r" % (
                    who, want_env, name, env))
        allowed = {VAR_NAME} if ct.get("var") else set()
        for where, s in _walk_strings(c):
            for m in _PARAM.finditer(s):
                if m.group(1) not in allowed:
                    raise Mismatch("parameter-reference-remains", "%s: field %s still contains %s: %r" % (
                        who, "/".join(map(str, where)), m.group(0), s))
    return ident
