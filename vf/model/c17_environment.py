"""Reference model for C17: what the environment of a component must be, derived from the property statement and the
documentation of `environmentForNode` / `environmentWithName` (never by calling them).

Inputs are plain data:
  sections : {"default": {<env name as written>: {VAR: value}}, "P": {...}}   (the `environments` field as written)
  platform : the selected platform ("default" or another key of sections)
  selector : what the component wrote in `command.environment` (None, "", "none", "environment", a name; any case)
  launch   : the launch environment (os.environ of the process that runs the workflow)
  system   : the runtime's own system variables
  interpreter : whether the component uses an interpreter

The result is an `Expectation`:
  kind == "error"   : the selected environment is defined on neither the selected nor the default platform
  kind == "env"     : `exact[k]` is a set of acceptable values for variable k (more than one only where the statement
                      leaves the value open, see `_expand_all`); `optional` are variables that may be missing
                      (empty values); `ignore` are keys the statement says nothing about (the DEFAULTS directive).
  kind == "either"  : both of the above are acceptable (explicit selection of the default environment by its name
                      `environment` when the package does not define it)
Next to it `allowed_launch` = the launch variables that may legitimately show up (by name or by value).
"""
from __future__ import annotations

import re
from typing import Dict, List, Optional, Set

DEFAULT_PLATFORM = "default"
DEFAULT_ENV = "environment"
DEFAULTS_KEY = "DEFAULTS"
SEARCH_PATH_VARS = ("PATH", "PYTHONPATH", "PYTHONHOME", "LD_LIBRARY_PATH")
CYCLIC = "\0<cyclic>"            # marker inside a value set: any value is acceptable for this variable

# $NAME or ${NAME}: shell-style references (NAME is an identifier)
_REF = re.compile(r"\$(?:([A-Za-z_][A-Za-z0-9_]*)|\{([A-Za-z_][A-Za-z0-9_]*)\})")


def references(value: str) -> List[str]:
    return [a or b for a, b in _REF.findall(value)]


def _subst(value: str, lookup) -> str:
    """One left-to-right pass; `lookup(name)` returns the replacement or None to leave the reference untouched."""
    def rep(m):
        name = m.group(1) or m.group(2)
        r = lookup(name)
        return m.group(0) if r is None else r
    return _REF.sub(rep, value)


def _to_str(v) -> str:
    if v is None:
        return ""
    return str(v)


def _section_env(sections: dict, platform: str, lname: str) -> Optional[Dict[str, str]]:
    """The environment called `lname` (lower-case) that `platform` itself defines; names are case-insensitive."""
    envs = (sections or {}).get(platform) or {}
    hits = [k for k in envs if k.lower() == lname]
    if not hits:
        return None
    if len(hits) > 1:
        raise ValueError("model: two spellings of environment %r on platform %r" % (lname, platform))
    return {str(k): _to_str(v) for k, v in (envs[hits[0]] or {}).items()}


def named_environment(sections: dict, platform: str, lname: str) -> Optional[Dict[str, str]]:
    """Selected platform's environment layered over the default platform's one of the same name; None if neither."""
    of_default = _section_env(sections, DEFAULT_PLATFORM, lname)
    of_platform = _section_env(sections, platform, lname) if platform != DEFAULT_PLATFORM else None
    if of_default is None and of_platform is None:
        return None
    out = dict(of_default or {})
    out.update(of_platform or {})
    return out


def where_defined(sections: dict, platform: str, lname: str) -> str:
    d = _section_env(sections, DEFAULT_PLATFORM, lname) is not None
    p = platform != DEFAULT_PLATFORM and _section_env(sections, platform, lname) is not None
    other = any(_section_env(sections, q, lname) is not None for q in (sections or {})
                if q not in (DEFAULT_PLATFORM, platform))
    return {(True, True): "both", (True, False): "default-only", (False, True): "platform-only",
            (False, False): "other-platform-only" if other else "nowhere"}[(d, p)]


class Expectation:
    def __init__(self, kind: str):
        self.kind = kind
        self.exact: Dict[str, Set[str]] = {}
        self.optional: Set[str] = set()
        self.ignore: Set[str] = set()
        self.allowed_launch: Set[str] = set()
        self.source = ""                # none / default-env / launch-fallback / named
        self.name: Optional[str] = None
        self.launch_refs: Set[str] = set()      # launch variables a value refers to (non-trivial rule)
        self.open_keys: Set[str] = set()        # variables with more than one acceptable value
        self.system: Dict[str, str] = {}

    def describe(self):
        return {"kind": self.kind, "source": self.source,
                "exact": {k: sorted(v) for k, v in sorted(self.exact.items())},
                "optional": sorted(self.optional), "ignore": sorted(self.ignore)}


def _expand_all(base: Dict[str, str], launch: Dict[str, str]) -> Dict[str, Set[str]]:
    """References are expanded 'first from the environment itself and then from the launch environment'.

    The statement does not say whether text substituted from the environment is itself expanded again using the
    environment (chains A->B->C, self references). Both readings are accepted:
      (a) one pass over the environment, then one pass over the launch environment;
      (b) own variables resolved recursively (own before launch at every level); cyclic definitions have no
          value under (b).
    """
    out: Dict[str, Set[str]] = {}
    for key, raw in base.items():
        a = _subst(_subst(raw, lambda n: base.get(n)), lambda n: launch.get(n))
        vals = {a}
        b = _resolve_recursive(key, base, launch, ())
        if b is not None:
            vals.add(b)
        else:
            vals.add(CYCLIC)        # self/cyclic reference: no reading of the statement gives it a value
        out[key] = vals
    return out


def _resolve_recursive(key, base, launch, stack):
    if key in stack:
        return None
    bad = []

    def look(n):
        if n in base:
            r = _resolve_recursive(n, base, launch, stack + (key,))
            if r is None:
                bad.append(n)
                return ""
            return r
        return launch.get(n)

    r = _subst(base[key], look)
    return None if bad else r


def expected(sections: dict, platform: str, selector: Optional[str], launch: Dict[str, str],
             system: Dict[str, str], interpreter: bool) -> Expectation:
    lname = (selector or "").lower()
    launch = dict(launch)
    system = dict(system or {})

    if lname == "none":
        base = {}
        source = "none"
        kind = "env"
    elif lname in ("", DEFAULT_ENV):
        base = named_environment(sections, platform, DEFAULT_ENV)
        kind = "env"
        if base is None:
            base = dict(launch)
            source = "launch-fallback"
            if lname == DEFAULT_ENV:
                kind = "either"     # explicitly named but defined nowhere: error or fall-back are both defensible
        else:
            source = "default-env"
    else:
        base = named_environment(sections, platform, lname)
        source = "named"
        kind = "env"
        if base is None:
            e = Expectation("error")
            e.source = source
            e.name = lname
            return e

    exp = Expectation(kind)
    exp.system = dict(system)
    exp.source = source
    exp.name = lname or None

    if source == "launch-fallback":
        exp.allowed_launch = set(launch)
    else:
        # variables the environment imports by name
        if DEFAULTS_KEY in base:
            for name in base[DEFAULTS_KEY].split(":"):
                if name not in launch:
                    continue            # "treat it as if it was never in DEFAULTS"
                exp.allowed_launch.add(name)
                if name not in base:
                    base[name] = launch[name]
                else:
                    # e.g. PATH: my/path:$PATH -> the reference to itself is the launch value
                    base[name] = _subst(base[name], lambda n, name=name: launch[name] if n == name else None)
        for k, v in base.items():
            if k == DEFAULTS_KEY:
                continue
            for r in references(v):
                # a reference may be satisfied by the launch environment (directly, or after text was substituted)
                if r in launch:
                    exp.allowed_launch.add(r)
                    exp.launch_refs.add(r)
    defaults_present = DEFAULTS_KEY in base
    body = {k: v for k, v in base.items() if k != DEFAULTS_KEY}
    expanded = _expand_all(body, launch)

    for k, v in system.items():
        exp.exact[k] = {v}
    for k, vals in expanded.items():
        exp.exact[k] = vals
        if len(vals) > 1:
            exp.open_keys.add(k)
        if "" in vals:
            exp.optional.add(k)         # the statement does not say whether empty variables are kept
    if defaults_present:
        exp.ignore.add(DEFAULTS_KEY)    # a directive, not a variable: presence in the result is not specified

    if interpreter:
        for k in SEARCH_PATH_VARS:
            if k in launch:
                exp.allowed_launch.add(k)
                if k not in exp.exact:
                    exp.exact[k] = {launch[k]}
                elif "" in exp.exact[k]:
                    # defined but empty: either dropped and then filled from the launch environment, or kept
                    exp.exact[k] = exp.exact[k] | {launch[k]}
                    exp.optional.discard(k)
    return exp


def compare(exp: Expectation, got: Dict[str, str], launch: Dict[str, str]):
    """-> None if `got` satisfies the expectation, else (sig, message). Only for exp.kind in (env, either)."""
    got = dict(got)
    problems = []
    for k, vals in exp.exact.items():
        if k in exp.ignore:
            continue
        if k not in got:
            if k in exp.optional:
                continue
            problems.append(("missing", k, sorted(vals), None))
        elif got[k] not in vals and CYCLIC not in vals:
            problems.append(("value", k, sorted(vals), got[k]))
    extra = [k for k in got if k not in exp.exact and k not in exp.ignore]
    for k in extra:
        problems.append(("extra", k, None, got[k]))
    # leak check, independent of the exact comparison: launch variables that nothing imports or references
    leaks = []
    for k, v in launch.items():
        if k in exp.allowed_launch or not v:
            continue
        if k in got and k not in exp.exact:
            leaks.append("variable %s" % k)
        for gk, gv in got.items():
            if isinstance(gv, str) and v in gv and not any(v in ok for ok in exp.exact.get(gk, ())):
                leaks.append("value of %s inside %s" % (k, gk))
    if not problems and not leaks:
        return None
    return problems, leaks
