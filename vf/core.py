"""Shared driver: seeds, shards, evidence, VIOLATION / KNOWN-FINDING reporting, replay files.

Exit codes of `python -m vf.run`: 0 held (possibly with KNOWN-FINDING lines), 1 VIOLATION, 2 harness error.
"""
from __future__ import annotations

import collections
import hashlib
import json
import os
import shutil
import sys
import tempfile
import time
import traceback
from typing import Any, Callable, Dict, List, Optional

VERIF = os.path.dirname(os.path.dirname(os.path.abspath(__file__)))
REPO = os.environ.get("VERIF_REPO", "/repo")
EVIDENCE_DIR = os.environ.get("VERIF_EVIDENCE_DIR") or os.path.join(VERIF, "evidence")
REPLAY_DIR = os.environ.get("VERIF_REPLAY_DIR") or os.path.join(VERIF, "replays")
REGRESS_DIR = os.path.join(VERIF, "regress")
KNOWN_FILE = os.path.join(VERIF, "known_findings.json")


class Violation(Exception):
    """The property does not hold for `case`. `sig` is a short stable classification of the failure."""

    def __init__(self, sig: str, message: str, case: Any = None, sub: Optional[str] = None):
        super().__init__("%s: %s" % (sig, message))
        self.sig = sig
        self.message = message
        self.case = case
        self.sub = sub

    def to_dict(self):
        return {"sig": self.sig, "message": self.message, "case": self.case, "sub": self.sub}


class HarnessError(Exception):
    pass


def jhash(obj) -> int:
    s = json.dumps(obj, sort_keys=True, default=str).encode()
    return int.from_bytes(hashlib.blake2b(s, digest_size=8).digest(), "big")


def derive_seed(*parts) -> int:
    s = "|".join(str(p) for p in parts).encode()
    return int.from_bytes(hashlib.blake2b(s, digest_size=8).digest(), "big") >> 1


def scratch_root() -> str:
    root = os.environ.get("VERIF_SCRATCH")
    if not root:
        root = "/dev/shm" if os.path.isdir("/dev/shm") and os.access("/dev/shm", os.W_OK) else tempfile.gettempdir()
    return root


class Recorder:
    MAX_SAMPLES_PER_GROUP = 5

    def __init__(self):
        self.evaluations = 0
        self.units = 0                 # executions classified non-trivial (one generated case may contain several)
        self.nontrivial = set()
        self.labels = collections.Counter()
        self.samples: List[Any] = []
        self.excluded = collections.Counter()
        self.extra: Dict[str, Any] = {}
        self.violations: List[dict] = []
        self.known: Dict[str, dict] = {}
        self.notes: List[str] = []
        self.errors: List[str] = []
        self._groups: Dict[str, list] = {}

    def nt(self, key, sample=None, group="default"):
        """Record a non-trivial case identified by `key` (hashable/JSON-able). `sample` is kept for evidence
        (a few per `group`, spread geometrically over the run)."""
        h = jhash(key)
        new = h not in self.nontrivial
        self.nontrivial.add(h)
        self.units += 1
        if new and sample is not None:
            g = self._groups.setdefault(group, [0, 1, 0])       # seen, next threshold, kept
            g[0] += 1
            if g[0] >= g[1] and g[2] < self.MAX_SAMPLES_PER_GROUP:
                g[1] *= 3
                g[2] += 1
                self.samples.append(sample if isinstance(sample, dict) and group == "default"
                                    else {"group": group, "case": sample})

    def label(self, *names):
        for n in names:
            self.labels[n] += 1

    def count(self, name, n=1):
        self.extra[name] = self.extra.get(name, 0) + n

    def cover(self, name, key):
        self.extra.setdefault(name, set()).add(key)

    def dump(self):
        extra = {}
        for k, v in self.extra.items():
            extra[k] = sorted(v, key=str) if isinstance(v, set) else v
        return {"evaluations": self.evaluations, "units": self.units, "nontrivial": list(self.nontrivial), "labels": dict(self.labels),
                "samples": self.samples, "excluded": dict(self.excluded), "extra": extra,
                "extra_sets": [k for k, v in self.extra.items() if isinstance(v, set)],
                "violations": self.violations, "known": self.known, "notes": self.notes, "errors": self.errors}

    @staticmethod
    def merge(dumps: List[dict]) -> dict:
        out = {"evaluations": 0, "units": 0, "nontrivial": set(), "labels": collections.Counter(), "samples": [],
               "excluded": collections.Counter(), "extra": {}, "violations": [], "known": {}, "notes": [],
               "errors": []}
        for d in dumps:
            out["evaluations"] += d["evaluations"]
            out["units"] += d.get("units", 0)
            out["nontrivial"].update(d["nontrivial"])
            out["labels"].update(d["labels"])
            out["excluded"].update(d["excluded"])
            out["violations"].extend(d["violations"])
            out["known"].update(d["known"])
            out["notes"].extend(d["notes"])
            out["errors"].extend(d["errors"])
            for k, v in d["extra"].items():
                if k in d.get("extra_sets", []):
                    out["extra"].setdefault(k, set()).update(map(_hashable, v))
                elif isinstance(v, (int, float)):
                    out["extra"][k] = out["extra"].get(k, 0) + v
                else:
                    out["extra"].setdefault(k, v)
        # round-robin samples across shards
        pools = [list(reversed(d["samples"])) for d in dumps]     # later samples come from deeper in the run
        while any(pools) and len(out["samples"]) < 12:
            for p in pools:
                if p and len(out["samples"]) < 12:
                    out["samples"].append(p.pop(0))
        return out


def _hashable(v):
    if isinstance(v, list):
        return tuple(_hashable(x) for x in v)
    return v


class Ctx:
    """Per-shard context handed to check modules."""

    def __init__(self, prop: str, tier: str, seed: int, shard: int, nshards: int, budget_s: float,
                 excluded: Optional[set] = None, replaying=False):
        self.prop = prop
        self.tier = tier
        self.seed = seed
        self.shard = shard
        self.nshards = nshards
        self.rec = Recorder()
        self.excluded = set(excluded or ())
        self.known_open = set(excluded or ())
        self.t0 = time.monotonic()
        self.deadline = self.t0 + budget_s
        self.replaying = replaying
        self._tmp = None
        self.stop = False

    # -- sizing ---------------------------------------------------------------------------------
    def n(self, quick: int, thorough: int) -> int:
        """Total example count for the tier, divided among shards (at least 1)."""
        total = quick if self.tier == "quick" else thorough
        return max(1, (total + self.nshards - 1) // self.nshards)

    def pick(self, quick, thorough):
        return quick if self.tier == "quick" else thorough

    def out_of_time(self) -> bool:
        return time.monotonic() > self.deadline

    # -- scratch --------------------------------------------------------------------------------
    def tmproot(self) -> str:
        if self._tmp is None:
            self._tmp = tempfile.mkdtemp(prefix="vf-%s-%d-" % (self.prop, os.getpid()), dir=scratch_root())
        return self._tmp

    def mkdtemp(self) -> str:
        return tempfile.mkdtemp(dir=self.tmproot())

    def cleanup(self):
        if self._tmp:
            shutil.rmtree(self._tmp, ignore_errors=True)
            self._tmp = None

    # Every Experiment creates a "shadow" directory tree under /tmp/chpc-<user>-shadow and nothing ever removes it:
    # millions of cases would exhaust the inodes of /tmp. The harness gives each process its own shadow root inside its
    # scratch area and empties it after every case.
    def redirect_shadow(self):
        try:
            import experiment.model.storage as S
        except Exception:
            return
        root = os.path.join(self.tmproot(), "shadow")
        os.makedirs(root, exist_ok=True)
        self._shadow_root = root

        def temporaryShadow(cls, name):
            os.makedirs(root, exist_ok=True)
            return S.ExperimentShadowDirectory(name, root)
        S.ExperimentShadowDirectory.temporaryShadow = classmethod(temporaryShadow)

    def purge_shadow(self):
        root = getattr(self, "_shadow_root", None)
        if not root:
            return
        try:
            for e in os.scandir(root):
                shutil.rmtree(e.path, ignore_errors=True)
        except OSError:
            pass


def quiet_logging():
    import logging
    logging.disable(logging.CRITICAL)


class CaseHang(BaseException):
    """Raised by the per-case CPU watchdog (BaseException: `except Exception` in the code under test lets it through)."""


CASE_CPU_LIMIT_S = float(os.environ.get("VF_CASE_CPU_LIMIT", "300"))


def run_with_watchdog(fn, what: str):
    """Run fn(); if this process burns more than CASE_CPU_LIMIT_S of CPU time inside it (orders of magnitude above any
    case on the unchanged tree), report `case-does-not-terminate` instead of hanging the whole check. CPU time, not wall
    time: a loaded machine or a sleeping case never trips it."""
    import signal

    def fire(signum, frame):
        raise CaseHang(what)
    try:
        old = signal.signal(signal.SIGPROF, fire)
    except ValueError:          # not in the main thread
        return fn()
    signal.setitimer(signal.ITIMER_PROF, CASE_CPU_LIMIT_S, 5.0)     # re-fires in case something swallows it
    try:
        return fn()
    except CaseHang:
        raise Violation("case-does-not-terminate", "%s: more than %.0f s of CPU time in one case" % (
            what, CASE_CPU_LIMIT_S))
    finally:
        signal.setitimer(signal.ITIMER_PROF, 0)
        signal.signal(signal.SIGPROF, old)


def explore(ctx: Ctx, sub: str, strategy, check: Callable[[Any, Ctx], None], examples: int,
            batch: Optional[int] = None, shrink: bool = True, max_restarts: int = 12,
            minimize: Optional[Callable[[Violation, Ctx], Violation]] = None):
    """Run `check(case, ctx)` over `examples` cases drawn from `strategy` (Hypothesis), in seeded batches.

    A Violation whose signature is listed as an open known finding is recorded, excluded and the search restarts;
    any other Violation stops the shard and is reported.
    """
    import hypothesis
    from hypothesis import HealthCheck, Phase, given, settings

    if ctx.stop:
        return
    batch = batch or examples
    done = 0
    b = 0
    restarts = 0
    phases = [Phase.explicit, Phase.generate, Phase.target] + ([Phase.shrink] if shrink else [])
    while done < examples and not ctx.stop:
        if ctx.out_of_time():
            ctx.rec.notes.append("time budget reached in %s after %d/%d examples (shard %d)" %
                                 (sub, done, examples, ctx.shard))
            break
        n = min(batch, examples - done)
        sd = derive_seed(ctx.seed, ctx.prop, sub, ctx.shard, b, restarts)

        def body(case):
            ctx.rec.evaluations += 1
            try:
                try:
                    run_with_watchdog(lambda: check(case, ctx), "%s/%s" % (ctx.prop, sub))
                finally:
                    ctx.purge_shadow()
            except Violation as v:
                if v.sig in ctx.excluded:
                    ctx.rec.excluded[v.sig] += 1
                    return
                if v.case is None:
                    v.case = case
                v.sub = sub
                raise

        test = hypothesis.seed(sd)(settings(max_examples=n, database=None, deadline=None, derandomize=False,
                                            report_multiple_bugs=False, phases=phases,
                                            suppress_health_check=list(HealthCheck))(given(strategy)(body)))
        try:
            test()
        except Violation as v:
            if minimize is not None:
                try:
                    v = minimize(v, ctx) or v
                    v.sub = sub
                except Violation:
                    raise
                except Exception as e:       # minimisation is best effort
                    ctx.rec.notes.append("minimize failed: %s" % e)
            if _is_known(ctx, v.sig) and restarts < max_restarts:
                ctx.rec.known[v.sig] = v.to_dict()
                ctx.excluded.add(v.sig)
                restarts += 1
                continue
            ctx.rec.violations.append(v.to_dict())
            ctx.stop = True
            return
        except BaseException as e:  # Flaky, health check, unexpected exception from the code under test
            v = _find_violation(e)
            if v is not None:
                ctx.rec.violations.append(v.to_dict())
                ctx.rec.notes.append("violation surfaced through %s" % type(e).__name__)
                ctx.stop = True
                return
            raise
        done += n
        b += 1


def _find_violation(e):
    if isinstance(e, Violation):
        return e
    for sub in getattr(e, "exceptions", ()) or ():
        v = _find_violation(sub)
        if v is not None:
            return v
    return None


_known_cache = None


def load_known() -> List[dict]:
    global _known_cache
    if _known_cache is None:
        if os.path.exists(KNOWN_FILE):
            with open(KNOWN_FILE) as f:
                _known_cache = json.load(f).get("findings", [])
        else:
            _known_cache = []
    return _known_cache


def known_open_sigs(prop: str) -> Dict[str, dict]:
    out = {k["sig"]: k for k in load_known() if k.get("property") == prop and k.get("status") == "open"}
    # development aid only (never set by registered commands): treat extra signatures as known
    for sig in filter(None, os.environ.get("VF_ASSUME_KNOWN", "").split(",")):
        out.setdefault(sig, {"property": prop, "sig": sig, "status": "open", "what": "(assumed via VF_ASSUME_KNOWN)"})
    return out


def _is_known(ctx: Ctx, sig: str) -> bool:
    return sig in known_open_sigs(ctx.prop)


class Chooser:
    """Harness-owned source of decisions: Hypothesis-backed while searching, list-backed on replay.

    Every decision is logged, so a schedule is a plain list of ints that can be replayed without Hypothesis."""

    def __init__(self, data=None, script: Optional[List[int]] = None):
        self.data = data
        self.script = list(script) if script is not None else None
        self.pos = 0
        self.log: List[int] = []

    def choose(self, n: int, label: str = "") -> int:
        """An int in [0, n)."""
        if n <= 1:
            return 0
        if self.script is not None:
            v = self.script[self.pos] % n if self.pos < len(self.script) else 0
            self.pos += 1
        else:
            from hypothesis import strategies as st
            v = self.data.draw(st.integers(0, n - 1), label=label or None)
        self.log.append(v)
        return v

    def flag(self, label: str = "") -> bool:
        return bool(self.choose(2, label))
