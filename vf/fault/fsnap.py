"""File-system snapshot / restore / diff for small directory trees (used by the crash-point checks).

A snapshot is a plain dict  {relative path: bytes | ("link", target)}  of every regular file / symlink below the
given roots (directories themselves are not recorded; empty directories survive a restore because restore never
removes directories)."""
from __future__ import annotations

import os
from typing import Dict, Iterable, Optional, Tuple, Union

Entry = Union[bytes, Tuple[str, str]]


def snapshot(root: str, subdirs: Optional[Iterable[str]] = None) -> Dict[str, Entry]:
    out: Dict[str, Entry] = {}
    tops = [os.path.join(root, s) for s in subdirs] if subdirs is not None else [root]
    for top in tops:
        if not os.path.isdir(top):
            continue
        for dirpath, dirnames, filenames in os.walk(top):
            dirnames.sort()
            for fn in sorted(filenames):
                full = os.path.join(dirpath, fn)
                rel = os.path.relpath(full, root)
                if os.path.islink(full):
                    out[rel] = ("link", os.readlink(full))
                else:
                    with open(full, "rb") as f:
                        out[rel] = f.read()
    return out


def restore(root: str, snap: Dict[str, Entry], subdirs: Optional[Iterable[str]] = None):
    """Make the files below root (restricted to subdirs) equal to `snap`: delete extra files, rewrite changed ones."""
    now = snapshot(root, subdirs)
    for rel in now:
        if rel not in snap:
            os.unlink(os.path.join(root, rel))
    for rel, content in snap.items():
        if now.get(rel) == content:
            continue
        full = os.path.join(root, rel)
        os.makedirs(os.path.dirname(full), exist_ok=True)
        if os.path.lexists(full):
            os.unlink(full)
        if isinstance(content, tuple):
            os.symlink(content[1], full)
        else:
            with open(full, "wb") as f:
                f.write(content)


def diff(a: Dict[str, Entry], b: Dict[str, Entry]):
    """-> (only_in_a, only_in_b, changed) as sorted lists of relative paths."""
    return (sorted(set(a) - set(b)), sorted(set(b) - set(a)),
            sorted(k for k in set(a) & set(b) if a[k] != b[k]))
