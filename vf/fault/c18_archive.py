"""C18 helper: turn symbolic member / tree specifications into real tar archives and directory trees.

Member spec (JSON-able):  {"t": "f"|"d"|"s"|"h", "n": name, "c": text (files), "l": link name (s/h),
                           "mode": int (optional), "hostile": bool (optional, generator bookkeeping)}
Tree spec:                {"type": "file", "content": text} | {"type": "dir", "entries": {name: tree}}
                          | {"type": "link", "target": str}
The token {ROOT} inside names / link targets is replaced by the absolute sandbox root, so that every absolute path
that a hostile input mentions lies inside the per-case sandbox.
"""
from __future__ import annotations

import io
import os
import tarfile
from typing import List

from .c18_vfs import ROOT

MTIME = 1000000000          # fixed, distinct from "now": metadata changes of existing files become visible


def concrete(s: str, root: str) -> str:
    return s.replace(ROOT, root)


def build_tar(members: List[dict], root: str, compress: str = "", fmt: str = "pax") -> bytes:
    buf = io.BytesIO()
    mode = "w:gz" if compress == "gz" else "w"
    tfmt = {"pax": tarfile.PAX_FORMAT, "gnu": tarfile.GNU_FORMAT}[fmt]
    with tarfile.open(fileobj=buf, mode=mode, format=tfmt) as tar:
        for m in members:
            ti = tarfile.TarInfo(concrete(m["n"], root))
            ti.mtime = MTIME
            ti.uid, ti.gid = os.getuid(), os.getgid()
            ti.uname = ti.gname = ""
            t = m["t"]
            if t == "f":
                data = m.get("c", "").encode()
                ti.type = tarfile.REGTYPE
                ti.size = len(data)
                ti.mode = m.get("mode", 0o644)
                tar.addfile(ti, io.BytesIO(data))
            elif t == "d":
                ti.type = tarfile.DIRTYPE
                ti.mode = m.get("mode", 0o755)
                tar.addfile(ti)
            elif t == "s":
                ti.type = tarfile.SYMTYPE
                ti.linkname = concrete(m["l"], root)
                ti.mode = 0o777
                tar.addfile(ti)
            elif t == "h":
                ti.type = tarfile.LNKTYPE
                ti.linkname = concrete(m["l"], root)
                ti.mode = m.get("mode", 0o644)
                tar.addfile(ti)
            else:
                raise ValueError("unknown member type %r" % t)
    return buf.getvalue()


def write_tree(path: str, tree: dict, root: str):
    t = tree["type"]
    if t == "file":
        os.makedirs(os.path.dirname(path), exist_ok=True)
        with open(path, "w") as f:
            f.write(tree.get("content", ""))
    elif t == "link":
        os.makedirs(os.path.dirname(path), exist_ok=True)
        os.symlink(concrete(tree["target"], root), path)
    else:
        os.makedirs(path, exist_ok=True)
        for name in sorted(tree.get("entries", {})):
            write_tree(os.path.join(path, name), tree["entries"][name], root)


def check_expected(target: str, entries, root: str) -> List[str]:
    """Compare the real target directory with the model's expectation; returns a list of mismatches."""
    bad = []
    for rel, kind, payload in entries:
        p = os.path.join(target, rel)
        if kind == "d":
            if not os.path.isdir(p) or os.path.islink(p):
                bad.append("%s: expected a directory" % rel)
        elif kind == "l":
            if not os.path.islink(p):
                bad.append("%s: expected a symbolic link" % rel)
            elif os.readlink(p) != concrete(payload, root):
                bad.append("%s: link target %r, expected %r" % (rel, os.readlink(p), concrete(payload, root)))
        else:
            if os.path.islink(p) or not os.path.isfile(p):
                bad.append("%s: expected a regular file" % rel)
            else:
                with open(p) as f:
                    got = f.read()
                if got != payload:
                    bad.append("%s: content %r, expected %r" % (rel, got[:40], payload[:40]))
    return bad
