"""C18 helper: recursive file-system snapshot (lstat based, never follows links) and diff.

A snapshot maps the path relative to `root` to a tuple
    (type, permission bits, size, mtime_ns, link target, sha1)
`exclude` is a list of root-relative paths whose sub-tree (the node itself included) is left out: the confinement
target (everything may change there) and areas that the code under test owns by design.
"""
from __future__ import annotations

import hashlib
import os
import stat
from typing import Dict, Iterable, List, Tuple

Entry = Tuple[str, int, int, int, str, str]


def _entry(path: str) -> Entry:
    st = os.lstat(path)
    mode = st.st_mode
    if stat.S_ISLNK(mode):
        return ("link", 0, 0, 0, os.readlink(path), "")
    if stat.S_ISDIR(mode):
        return ("dir", stat.S_IMODE(mode), 0, st.st_mtime_ns, "", "")
    if stat.S_ISREG(mode):
        h = hashlib.sha1()
        with open(path, "rb") as f:
            for chunk in iter(lambda: f.read(1 << 16), b""):
                h.update(chunk)
        return ("file", stat.S_IMODE(mode), st.st_size, st.st_mtime_ns, "", h.hexdigest())
    return ("other:%o" % stat.S_IFMT(mode), stat.S_IMODE(mode), 0, st.st_mtime_ns, "", "")


def snapshot(root: str, exclude: Iterable[str] = ()) -> Dict[str, Entry]:
    root = os.path.abspath(root)
    skip = {os.path.normpath(e) for e in exclude}
    out: Dict[str, Entry] = {".": _entry(root)}
    stack = [""]
    while stack:
        rel = stack.pop()
        full = os.path.join(root, rel) if rel else root
        for name in sorted(os.listdir(full)):
            r = os.path.join(rel, name) if rel else name
            if r in skip:
                continue
            e = _entry(os.path.join(root, r))
            out[r] = e
            if e[0] == "dir":
                stack.append(r)
    return out


def diff(before: Dict[str, Entry], after: Dict[str, Entry]) -> List[dict]:
    """Sorted list of {"path", "change": created|removed|modified, "what": [...fields that differ]}."""
    changes = []
    fields = ("type", "mode", "size", "mtime", "target", "sha1")
    for p in sorted(set(before) | set(after)):
        a, b = before.get(p), after.get(p)
        if a == b:
            continue
        if a is None:
            changes.append({"path": p, "change": "created", "what": [b[0]]})
        elif b is None:
            changes.append({"path": p, "change": "removed", "what": [a[0]]})
        else:
            changes.append({"path": p, "change": "modified",
                            "what": [f for f, x, y in zip(fields, a, b) if x != y]})
    return changes


def significant(changes: List[dict]) -> List[dict]:
    """Drops directory-mtime-only changes that are merely the echo of a created/removed child also in the list."""
    touched_parents = {os.path.dirname(c["path"]) or "." for c in changes if c["change"] in ("created", "removed")}
    out = []
    for c in changes:
        if c["change"] == "modified" and c["what"] == ["mtime"] and c["path"] in touched_parents:
            continue
        out.append(c)
    return out
