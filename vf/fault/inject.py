"""Crash-point / I/O-error injection at the Python-level write boundaries of ONE module under test.

The module under test gets its own `open` and `os` attributes (nothing else in the process sees them):

* `open(path, <write mode>)` returns a `FaultFile` that owns a raw file descriptor and an explicit list of *pending*
  (buffered, not yet written) chunks, so the harness decides exactly what has reached the file when the process dies;
* `os.rename / replace / remove / unlink / fsync / link / symlink / truncate` are counted, everything else delegates.

Every intercepted operation is a *boundary*; boundaries are numbered in execution order.  A `fault = (index, kind)`
is delivered once, immediately BEFORE operation `index` is performed:

  die          the process ends with os._exit(77); pending chunks are lost (nothing flushed)
  die-flushed  every pending chunk of every open FaultFile is written out first, then os._exit(77)
               (what a smaller buffer / larger content would have put on disk already)
  err          the operation is not performed and raises OSError (open: nothing created/truncated; write: the chunk is
               dropped; close: pending chunks are discarded, the descriptor is closed; rename/...: nothing happens)
  err-partial  write: the first half of the chunk goes to disk, then OSError(ENOSPC);
               close: the first half of the pending bytes goes to disk, the descriptor is closed, then OSError

`run_child` forks, installs the shims in the child, runs the update there and always leaves with os._exit, so the
parent's in-memory objects are untouched and a `die` is a real process death.
"""
from __future__ import annotations

import errno
import io
import json
import os as _os
import traceback
from typing import Callable, List, Optional, Sequence, Tuple

EXIT_DIED = 77
KINDS = ("die", "die-flushed", "err", "err-partial")
_WRITE_FLAGS = set("wax+")


class InjectedOSError(OSError):
    """The injected I/O error (an OSError/IOError for the code under test)."""


def _injected(code, what):
    return InjectedOSError(code, "injected fault: %s" % what)


class FaultFile:
    def __init__(self, inj: "Injector", path: str, mode: str, encoding: Optional[str], fd: int):
        self._inj = inj
        self.name = path
        self.mode = mode
        self._binary = "b" in mode
        self.encoding = None if self._binary else (encoding or "utf-8")
        self._fd = fd
        self._pending: List[bytes] = []
        self.closed = False

    # -- harness side --------------------------------------------------------------------------------------
    def _write_out(self, data: bytes):
        while data:
            n = _os.write(self._fd, data)
            data = data[n:]

    def _flush_pending(self):
        data = b"".join(self._pending)
        self._pending = []
        self._write_out(data)

    # -- file API used by the writers ----------------------------------------------------------------------
    def writable(self):
        return True

    def readable(self):
        return False

    def seekable(self):
        return False

    def isatty(self):
        return False

    def fileno(self):
        return self._fd

    def write(self, s):
        if self.closed:
            raise ValueError("I/O operation on closed file.")
        if self._binary:
            data = bytes(s)
        else:
            if not isinstance(s, str):
                raise TypeError("write() argument must be str, not %s" % type(s).__name__)
            data = s.encode(self.encoding)
        kind = self._inj.boundary("write", self.name, n=len(data))
        if kind == "err":
            raise _injected(errno.ENOSPC, "write")
        if kind == "err-partial":
            self._pending.append(data[:len(data) // 2])
            self._flush_pending()
            raise _injected(errno.ENOSPC, "partial write")
        self._pending.append(data)
        return len(s)

    def writelines(self, lines):
        for line in lines:
            self.write(line)

    def flush(self):
        if self.closed:
            raise ValueError("I/O operation on closed file.")
        kind = self._inj.boundary("flush", self.name)
        if kind in ("err", "err-partial"):
            raise _injected(errno.EIO, "flush")
        self._flush_pending()

    def close(self):
        if self.closed:
            return
        kind = self._inj.boundary("close", self.name)
        self.closed = True
        self._inj.open_files = [f for f in self._inj.open_files if f is not self]
        try:
            if kind == "err":
                self._pending = []
                raise _injected(errno.EIO, "close (flush failed, nothing written)")
            if kind == "err-partial":
                data = b"".join(self._pending)
                self._pending = []
                self._write_out(data[:len(data) // 2])
                raise _injected(errno.ENOSPC, "close (flush failed half-way)")
            self._flush_pending()
        finally:
            _os.close(self._fd)

    def __enter__(self):
        return self

    def __exit__(self, *exc):
        self.close()
        return False

    def __del__(self):
        # a leaked, unclosed file: CPython would flush it at collection time; do the same, without a boundary
        try:
            if not self.closed:
                self.closed = True
                self._flush_pending()
                _os.close(self._fd)
        except Exception:
            pass


class OsProxy:
    """Stands in for the `os` module inside the module under test."""

    def __init__(self, inj: "Injector"):
        self.__dict__["_inj"] = inj

    def __getattr__(self, name):
        return getattr(_os, name)

    def _two(self, op, fn, src, dst, *a, **k):
        kind = self._inj.boundary(op, _os.fspath(src), dst=_os.fspath(dst))
        if kind in ("err", "err-partial"):
            raise _injected(errno.EIO, op)
        return fn(src, dst, *a, **k)

    def _one(self, op, fn, path, *a, **k):
        kind = self._inj.boundary(op, path if isinstance(path, int) else _os.fspath(path))
        if kind in ("err", "err-partial"):
            raise _injected(errno.EIO, op)
        return fn(path, *a, **k)

    def rename(self, src, dst, *a, **k):
        return self._two("rename", _os.rename, src, dst, *a, **k)

    def replace(self, src, dst, *a, **k):
        return self._two("replace", _os.replace, src, dst, *a, **k)

    def link(self, src, dst, *a, **k):
        return self._two("link", _os.link, src, dst, *a, **k)

    def symlink(self, src, dst, *a, **k):
        return self._two("symlink", _os.symlink, src, dst, *a, **k)

    def remove(self, path, *a, **k):
        return self._one("remove", _os.remove, path, *a, **k)

    def unlink(self, path, *a, **k):
        return self._one("remove", _os.unlink, path, *a, **k)

    def truncate(self, path, *a, **k):
        return self._one("truncate", _os.truncate, path, *a, **k)

    def fsync(self, fd):
        for f in self._inj.open_files:      # fsync of a FaultFile's descriptor: its pending data must be out first
            if f.fileno() == fd:
                f._flush_pending()
        return self._one("fsync", _os.fsync, fd)


class Injector:
    def __init__(self, fault: Optional[Tuple[int, str]] = None):
        self.fault = tuple(fault) if fault else None
        self.ops: List[dict] = []
        self.open_files: List[FaultFile] = []
        self.delivered = False
        self.os = OsProxy(self)

    def boundary(self, op: str, path, **info) -> Optional[str]:
        idx = len(self.ops)
        rec = {"op": op, "path": path}
        rec.update(info)
        self.ops.append(rec)
        if self.fault is not None and not self.delivered and idx == self.fault[0]:
            self.delivered = True
            kind = self.fault[1]
            if kind == "die":
                _os._exit(EXIT_DIED)
            if kind == "die-flushed":
                for f in list(self.open_files):
                    try:
                        f._flush_pending()
                    except Exception:
                        pass
                _os._exit(EXIT_DIED)
            return kind
        return None

    # the `open` seen by the module under test
    def open(self, file, mode="r", buffering=-1, encoding=None, errors=None, newline=None, closefd=True, opener=None):
        if isinstance(file, int) or not (_WRITE_FLAGS & set(mode)):
            return io.open(file, mode, buffering, encoding, errors, newline, closefd, opener)
        path = _os.fspath(file)
        kind = self.boundary("open", path, mode=mode)
        if kind in ("err", "err-partial"):
            raise _injected(errno.EIO, "open")
        if "w" in mode:
            flags = _os.O_CREAT | _os.O_TRUNC
        elif "x" in mode:
            flags = _os.O_CREAT | _os.O_EXCL
        elif "a" in mode:
            flags = _os.O_CREAT | _os.O_APPEND
        else:                       # r+
            flags = 0
        flags |= _os.O_RDWR if "+" in mode else _os.O_WRONLY
        fd = _os.open(path, flags, 0o666)
        f = FaultFile(self, path, mode, encoding, fd)
        self.open_files.append(f)
        return f


class Installed:
    """Context manager: give `modules` the injector's `open` and `os`."""

    def __init__(self, inj: Injector, modules: Sequence):
        self.inj = inj
        self.modules = list(modules)
        self._saved = []

    def __enter__(self):
        missing = object()
        for m in self.modules:
            self._saved.append((m, m.__dict__.get("open", missing), m.__dict__.get("os", missing)))
            m.open = self.inj.open
            m.os = self.inj.os
        self._missing = missing
        return self.inj

    def __exit__(self, *exc):
        for m, o, s in self._saved:
            for name, val in (("open", o), ("os", s)):
                if val is self._missing:
                    m.__dict__.pop(name, None)
                else:
                    setattr(m, name, val)
        self._saved = []
        return False


def run_child(fn: Callable[[], None], modules: Sequence, fault: Optional[Tuple[int, str]], result_path: str) -> dict:
    """Run `fn()` in a forked child with the shims installed.

    -> {"status": "ok" | "died" | "raised-injected" | "raised", "ops": [...] (absent when died), "delivered": bool,
        "exc": str}
    """
    try:
        _os.unlink(result_path)
    except FileNotFoundError:
        pass
    pid = _os.fork()
    if pid == 0:
        code = 3
        try:
            inj = Injector(fault)
            res = {"status": "ok", "exc": None}
            try:
                with Installed(inj, modules):
                    fn()
            except InjectedOSError as e:
                res = {"status": "raised-injected", "exc": repr(e)}
            except BaseException as e:      # noqa
                res = {"status": "raised", "exc": "%r\n%s" % (e, traceback.format_exc()[-3000:])}
            # leaked files behave as at interpreter exit: flushed
            for f in list(inj.open_files):
                f.__del__()
            res["ops"] = inj.ops
            res["delivered"] = inj.delivered
            with io.open(result_path + ".part", "w") as f:
                json.dump(res, f)
            _os.rename(result_path + ".part", result_path)
            code = 0
        except BaseException:      # noqa
            try:
                with io.open(result_path + ".harness", "w") as f:
                    f.write(traceback.format_exc())
            except BaseException:      # noqa
                pass
        finally:
            _os._exit(code)
    _, st = _os.waitpid(pid, 0)
    if _os.WIFSIGNALED(st):
        raise RuntimeError("harness: child killed by signal %d" % _os.WTERMSIG(st))
    code = _os.WEXITSTATUS(st)
    if code == EXIT_DIED:
        return {"status": "died", "delivered": True, "exc": None}
    if code != 0 or not _os.path.exists(result_path):
        detail = ""
        if _os.path.exists(result_path + ".harness"):
            with io.open(result_path + ".harness") as f:
                detail = f.read()
        raise RuntimeError("harness: child exited with %d without a result. %s" % (code, detail))
    with io.open(result_path) as f:
        return json.load(f)


def kinds_for(op: str, pending_possible: bool = True) -> List[str]:
    """Fault kinds worth distinguishing at a boundary of type `op`."""
    if op == "open":
        return ["die", "err"] + (["die-flushed"] if pending_possible else [])
    if op in ("write", "close", "flush"):
        return ["die", "die-flushed", "err", "err-partial"]
    return ["die", "die-flushed", "err"]


def select_boundaries(ops: List[dict], max_writes: int, phase: int) -> List[int]:
    """All non-write boundaries; all write boundaries if there are at most `max_writes`, otherwise the first four,
    the last four and an evenly spaced sample whose offset is `phase` (so different cases cover different ones)."""
    writes = [i for i, o in enumerate(ops) if o["op"] == "write"]
    others = [i for i, o in enumerate(ops) if o["op"] != "write"]
    if len(writes) > max_writes:
        keep = set(writes[:4] + writes[-4:])
        middle = writes[4:-4]
        want = max(1, max_writes - 8)
        stride = max(1, len(middle) // want)
        keep.update(middle[phase % stride::stride][:want])
        writes = sorted(keep)
    return sorted(others + writes)
