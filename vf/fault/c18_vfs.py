"""C18 helper: an independent model of "where does this name end up".

A tiny virtual file system of the confinement target T only (directories, files, symbolic links, hard-link
aliases) with kernel-like path resolution.  Paths are expressed relative to the sandbox root as component lists;
the string token ``{ROOT}`` at the start of a path stands for the absolute path of the sandbox root, so that cases
are independent of temporary directory names.  Everything outside T is assumed to contain no symbolic links
(resolution continues textually there), which the sandbox builders guarantee.

The model answers, for a sequence of operations (tar members, staged references, manifest entries) applied in order:
  * does an operation's destination resolve OUTSIDE T (-> the input is an *escape*, by which mechanism);
  * is the input *clean* (plain names, never leaves T, no outward links) -> it must be accepted, and what T must
    contain afterwards;
  * or neither (odd but contained names, links that point outside but are never written through, inputs that the
    model expects to fail with an ordinary OS error) -> only confinement itself is checked.
It never calls the code under test.
"""
from __future__ import annotations

from typing import Dict, List, Optional

ROOT = "{ROOT}"


class SandboxEscape(Exception):
    """A generated path would climb above the sandbox root: generator bug, never a property violation."""


class Node:
    __slots__ = ("kind", "children", "content", "target", "origin")

    def __init__(self, kind, content=None, target=None, origin=None):
        self.kind = kind            # 'd' | 'f' | 'l'
        self.children: Dict[str, "Node"] = {} if kind == "d" else None
        self.content = content      # files: [text]  (a one-element list shared between hard links)
        self.target = target        # links: raw target string
        self.origin = origin        # links: 'member' | 'staged' | 'copied' | 'manifest'


class Res:
    __slots__ = ("status", "pos", "parent", "name", "node", "left", "mech", "errno")

    def __init__(self):
        self.status = "in"          # 'in' | 'out' | 'err'
        self.pos: List[str] = []    # root-relative components of the final location
        self.parent: Optional[Node] = None
        self.name: Optional[str] = None
        self.node: Optional[Node] = None
        self.left = False           # the walk left T at some point
        self.mech: Optional[str] = None   # what made it leave first
        self.errno: Optional[str] = None


def is_abs(path: str) -> bool:
    return path.startswith(ROOT) or path.startswith("/")


def split_abs(path: str) -> List[str]:
    """Root-relative components of an absolute ({ROOT}-prefixed) path."""
    if not path.startswith(ROOT):
        raise SandboxEscape("absolute path %r is not below {ROOT}" % path)
    return [c for c in path[len(ROOT):].split("/")]


def count_dotdot(path: str) -> int:
    return sum(1 for c in path.split("/") if c == "..")


def odd_name(path: str, allow_trailing_slash: bool = False) -> bool:
    """Not a plain relative name: absolute, empty, or with '.', '..' or empty segments (a trailing slash is how
    archives usually spell directory members)."""
    if not path or is_abs(path):
        return True
    comps = path.split("/")
    if comps[-1] == "" and allow_trailing_slash:
        comps = comps[:-1]
    return any(c in ("", ".", "..") for c in comps) or not comps


class VFS:
    def __init__(self, target: List[str]):
        self.T = list(target)
        self.troot = Node("d")

    # -- helpers ----------------------------------------------------------------------------------------------
    def inside(self, pos: List[str]) -> bool:
        return pos[:len(self.T)] == self.T

    def node_at(self, pos: List[str]) -> Optional[Node]:
        n = self.troot
        for c in pos[len(self.T):]:
            if n is None or n.kind != "d":
                return None
            n = n.children.get(c)
        return n

    # -- resolution -------------------------------------------------------------------------------------------
    def walk(self, start: List[str], path: str, follow_last: bool, mk: bool = False,
             name_mech: str = "dotdot-name", abs_mech: str = "absolute-name") -> Res:
        """Resolve `path` starting in directory `start` (root-relative, inside T).

        mk: create missing intermediate directories (os.makedirs of the parent) while inside T.
        name_mech / abs_mech: labels for leaving T because of the path's own '..' segments / absoluteness."""
        r = Res()
        pos = list(start)
        pending: List[tuple] = []       # reversed stack of (component, mechanism label if it makes us leave)

        def push(p: str, mech_rel: str, mech_abs: str):
            nonlocal pos
            if is_abs(p):
                comps = split_abs(p)
                was_in = self.inside(pos)
                pos = []
                if was_in and not r.left:
                    r.left, r.mech = True, mech_abs
                label = mech_abs
            else:
                comps = p.split("/")
                label = mech_rel
            for c in reversed(comps):
                pending.append((c, label))

        push(path, name_mech, abs_mech)
        nlinks = 0
        via = None                      # first link traversed by this walk
        while pending:
            comp, label = pending.pop()
            last = not any(c not in ("", ".") for c, _ in pending)
            if comp in ("", "."):
                continue
            if comp == "..":
                if not pos:
                    raise SandboxEscape("path %r climbs above the sandbox root" % path)
                was_in = self.inside(pos)
                if was_in:
                    cur = self.node_at(pos)
                    if cur is None or cur.kind != "d":
                        r.status, r.errno = "err", "ENOTDIR"
                        return r
                pos.pop()
                if was_in and not self.inside(pos) and not r.left:
                    # a '..' only works as an exit after a link has put us somewhere else: blame the link
                    r.left, r.mech = True, (via or label)
                continue
            if not self.inside(pos):
                pos.append(comp)          # textual: no links, existence not tracked outside T
                continue
            cur = self.node_at(pos)
            if cur is None or cur.kind != "d":
                r.status, r.errno = "err", "ENOTDIR" if cur is not None else "ENOENT"
                return r
            child = cur.children.get(comp)
            if child is None:
                if last:
                    pos.append(comp)
                    r.pos, r.parent, r.name, r.node = pos, cur, comp, None
                    r.status = "in"
                    return r
                if mk:
                    child = cur.children[comp] = Node("d")
                    pos.append(comp)
                    continue
                r.status, r.errno = "err", "ENOENT"
                return r
            if child.kind == "l" and (follow_last or not last):
                nlinks += 1
                if nlinks > 40:
                    r.status, r.errno = "err", "ELOOP"
                    return r
                via = via or "via-%s-link" % child.origin
                push(child.target, via, via)
                continue
            pos.append(comp)
            if last:
                r.pos, r.parent, r.name, r.node = pos, cur, comp, child
                r.status = "in"
                return r
        # ran out of components: the final location is the directory `pos`
        r.pos = pos
        if self.inside(pos):
            r.node = self.node_at(pos)
            if r.node is None:
                r.status, r.errno = "err", "ENOENT"
            else:
                r.status = "in"
                if len(pos) > len(self.T):
                    r.parent, r.name = self.node_at(pos[:-1]), pos[-1]
        else:
            r.status = "out"
        return r


def pending_has_real(pending) -> bool:
    return any(c not in ("", ".") for c, _ in pending)


# ------------------------------------------------------------------------------------------------------------
class Verdict:
    """Accumulates the classification of one operation sequence."""

    def __init__(self):
        self.escape: Optional[str] = None      # mechanism of the first escaping operation
        self.escape_op: Optional[int] = None
        self.err: Optional[str] = None         # first operation the model expects to fail with an OS error
        self.odd: List[str] = []               # reasons why the input is not 'clean'

    @property
    def kind(self) -> str:
        if self.escape:
            return "escape"
        if self.err or self.odd:
            return "either"
        return "clean"

    @property
    def stopped(self) -> bool:
        return bool(self.escape or self.err)


def _final(r: Res, v: Verdict, idx: int, what: str) -> bool:
    """Common handling of a walk result; True when the operation can proceed inside T."""
    if r.status == "err":
        v.err = "%s#%d:%s" % (what, idx, r.errno)
        return False
    if r.status == "out":
        v.escape, v.escape_op = r.mech or "unknown", idx
        return False
    if r.left:
        v.odd.append("reenters-target")
    return True


def tree_to_nodes(tree: dict, origin: str) -> Node:
    t = tree["type"]
    if t == "file":
        return Node("f", content=[tree.get("content", "")])
    if t == "link":
        return Node("l", target=tree["target"], origin=origin)
    n = Node("d")
    for name in sorted(tree.get("entries", {})):
        n.children[name] = tree_to_nodes(tree["entries"][name], origin)
    return n


def apply_tar_member(fs: VFS, m: dict, idx: int, v: Verdict, members: List[dict]):
    """tarfile.extractall semantics for one member (file / dir / symlink / hard link)."""
    t, name = m["t"], m["n"]
    if odd_name(name, allow_trailing_slash=(t == "d")):
        v.odd.append("odd-name")
    T = fs.T
    if t == "f":
        r = fs.walk(T, name, follow_last=True, mk=True)
        if not _final(r, v, idx, "file"):
            return
        if r.node is None:
            if r.parent is None:
                v.err = "file#%d:EISDIR" % idx
                return
            r.parent.children[r.name] = Node("f", content=[m.get("c", "")])
        elif r.node.kind == "d":
            v.err = "file#%d:EISDIR" % idx
        else:
            r.node.content[0] = m.get("c", "")
    elif t == "d":
        r = fs.walk(T, name, follow_last=True, mk=True)
        if not _final(r, v, idx, "dir"):
            return
        if r.node is None:
            if r.parent is None:
                v.err = "dir#%d:ENOENT" % idx
                return
            r.parent.children[r.name] = Node("d")
        elif r.node.kind != "d":
            v.odd.append("dir-over-file")
    elif t == "s":
        r = fs.walk(T, name, follow_last=False, mk=True)
        if not _final(r, v, idx, "symlink"):
            return
        if r.parent is None or (r.node is not None and r.node.kind == "d"):
            v.err = "symlink#%d:EISDIR" % idx
            return
        link = Node("l", target=m["l"], origin="member")
        r.parent.children[r.name] = link
        # where does the new link point?  (no creation, failures tolerated)
        if is_abs(m["l"]):
            v.odd.append("absolute-link-target")
        else:
            p = fs.walk(r.pos[:-1], m["l"], follow_last=True)
            if p.status == "out" or p.left:
                v.odd.append("outward-link")
            elif p.status == "err" and p.errno != "ENOENT":
                v.odd.append("odd-link-target")
    elif t == "h":
        r = fs.walk(T, name, follow_last=False, mk=True)
        if not _final(r, v, idx, "hardlink"):
            return
        if odd_name(m["l"]):
            v.odd.append("odd-name")
        s = fs.walk(T, m["l"], follow_last=True, name_mech="hardlink-to-outside", abs_mech="hardlink-to-outside")
        if s.status == "out":
            v.escape, v.escape_op = (s.mech if s.mech and s.mech.startswith("via-") else "hardlink-to-outside"), idx
            return
        if s.status == "err" or s.node is None or s.node.kind != "f":
            v.err = "hardlink#%d:source-missing" % idx
            return
        if s.left:
            v.odd.append("reenters-target")
        if r.node is not None or r.parent is None:
            v.err = "hardlink#%d:EEXIST" % idx
            return
        alias = Node("f")
        alias.content = s.node.content          # shared inode
        r.parent.children[r.name] = alias
    else:
        raise ValueError("unknown member type %r" % t)


def apply_staged_ref(fs: VFS, ref: dict, idx: int, v: Verdict):
    """`link` / `copy` of a file or directory into T (experiment.model.data.StageReference semantics as documented:
    the staged entry is named after the last path component of the source)."""
    base = ref["base"]
    T = fs.T
    cur = fs.troot.children.get(base)
    if ref["kind"] == "link":
        if cur is not None:
            v.err = "link#%d:EEXIST" % idx
            return
        fs.troot.children[base] = Node("l", target=ref["abs"], origin="staged")
    elif ref["tree"]["type"] == "dir":
        if cur is not None:
            v.err = "copytree#%d:EEXIST" % idx
            return
        fs.troot.children[base] = tree_to_nodes(ref["tree"], "copied")
    else:
        r = fs.walk(T, base, follow_last=True)
        if not _final(r, v, idx, "copy"):
            return
        if r.node is None:
            r.parent.children[r.name] = Node("f", content=[ref["tree"].get("content", "")])
        elif r.node.kind == "d":
            v.err = "copy#%d:EISDIR" % idx
        else:
            r.node.content[0] = ref["tree"].get("content", "")


def apply_manifest_entry(fs: VFS, e: dict, idx: int, v: Verdict, src_tree: dict, src_abs: str):
    """targetFolder: sourceFolder[:copy|:link] below the instance directory T."""
    key = e["key"]
    if odd_name(key):
        v.odd.append("odd-key")
    method = e.get("method") or "copy"
    if method == "copy":
        r = fs.walk(fs.T, key, follow_last=False, mk=True, name_mech="dotdot-key", abs_mech="absolute-key")
        if not _final(r, v, idx, "copy"):
            return
        if r.node is not None or r.parent is None:
            v.err = "copy#%d:EEXIST" % idx
            return
        r.parent.children[r.name] = tree_to_nodes(resolve_links(src_tree), "copied")
    else:
        r = fs.walk(fs.T, key, follow_last=False, mk=False, name_mech="dotdot-key", abs_mech="absolute-key")
        if not _final(r, v, idx, "link"):
            return
        if r.node is not None or r.parent is None:
            v.err = "link#%d:EEXIST" % idx
            return
        r.parent.children[r.name] = Node("l", target=src_abs, origin="manifest")


def resolve_links(tree: dict) -> dict:
    """copytree(symlinks=False): links inside a source are replaced by what they point to. Sources only contain
    links to sibling files (`target` is a plain name in the same directory)."""
    if tree["type"] != "dir":
        return tree
    out = {}
    for name, sub in tree["entries"].items():
        if sub["type"] == "link":
            out[name] = resolve_links(tree["entries"][sub["target"]])
        else:
            out[name] = resolve_links(sub)
    return {"type": "dir", "entries": out}


def expected_entries(fs: VFS) -> List[tuple]:
    """Flat list of (relative path, kind, payload) the target must contain for a clean input."""
    out = []

    def rec(node: Node, rel: str):
        for name in sorted(node.children):
            ch = node.children[name]
            p = "%s/%s" % (rel, name) if rel else name
            if ch.kind == "d":
                out.append((p, "d", None))
                rec(ch, p)
            elif ch.kind == "f":
                out.append((p, "f", ch.content[0]))
            else:
                out.append((p, "l", ch.target))
    rec(fs.troot, "")
    return out


def dotdot_budget(names: List[str], link_targets: List[str]) -> int:
    """Upper bound of how far above T any resolution can climb (see DESIGN: each link is on the expansion stack at
    most once per excursion and nothing outside T is a link)."""
    return max([count_dotdot(n) for n in names] + [0]) + sum(count_dotdot(t) for t in link_targets)
