"""C15 helpers: abstract *package specifications* (FlowIR and DSL 2.0), their documents, and the layering model.

A package spec is a plain JSON-able dict. Everything the oracle needs (which variable file wins for a key, which
component instances exist, whether step names repeat, how many environments exist) is computed from the spec, never
from the documents as read back by the code under test.

  flowir spec : {"kind": "flowir", "W": abstract workflow (vf/gen/workflow.py), "platform": None|"P",
                 "uses": [[key, ...] per component], "pkgvars": {"dg": {k: v}, "pg": {k: v}, "ds": {stage: {k: v}}},
                 "envs": {"default": {name: {K: V}}, "P": {...}}, "comp_env": [name|None per component],
                 "layout": "dir" (package directory) | "file" (single YAML file + explicit manifest),
                 "dirs": {folder: {file: content}}, "dirrefs": [[[folder, file, method], ...] per component],
                 "manifest": {target folder: ["abs"|"rel", None|"copy"|"link"]} (layout "file" only),
                 "varfiles": [...], "varorder": [...]}
  dsl spec    : {"kind": "dsl", "params": {name: default}, "entry_args": {name: value}, "envpool": [env dict, ...],
                 "templates": [{"name", "env": index|None|"none"}], "subs": [{"name", "steps": [step, ...]}],
                 "main": [step, ...], "varfiles": [...], "varorder": [...]}
                 step = {"step": step name, "t": ["c", template index] | ["w", sub index], "ref": index of an earlier
                         sibling component step | None, "param": name of a parameter of the enclosing workflow | None,
                         "env": index into envpool | None}
  variable file: {"name": file name, "fmt": "yaml"|"yml"|"conf", "global": {k: v}, "stages": {"<idx>": {k: v}}}
  varorder    : indexes into varfiles, in the order in which the paths are handed to the loader (may repeat a file)
"""
from __future__ import annotations

import copy
from typing import Dict, List, Optional, Tuple

from hypothesis import strategies as st

from . import workflow as WF

PLATFORM = "P"
KEYS = ["alpha", "beta", "gamma", "delta"]
VARFILE_NAMES = ["a.yaml", "b.yaml", "c.yml", "vars.conf", "m.yaml", "z.yaml", "B.conf", "0.yaml", "user-variables.yaml",
                 "aa.yaml", "ab.yaml", "x.conf", "y.yml"]
ENV_NAMES = ["envA", "envB", "gnu", "mpi"]
ENV_KEYS = ["AN_ENV_VAR", "OMP_NUM_THREADS", "MY_LIB", "B_FLAG", "A_FLAG"]
ENV_VALUES = ["1", "v1", "v2", "/opt/x/lib", "a:b", "on"]
FOLDERS = ["data", "bin", "extra", "lib", "Lib", "aux", "Zdata", "a-dir"]
FILES = ["f.txt", "g.dat", "h/i.txt"]
STEP_NAMES = ["run", "prep", "post", "gen", "stage1.run", "stage1.post"]


# ------------------------------------------------------------------------------------------------------------
# variable files
@st.composite
def variable_files(draw, keys_global: List[str], keys_stage: Dict[str, List[str]], numeric: Dict[str, List[int]]):
    """keys_global: keys that may be set in the global section; keys_stage: stage index (str) -> keys that may be set
    for that stage. A key is only ever used in ONE scope by all files (the statement does not order a stage-scoped
    definition of an earlier file against a global definition of a later one)."""
    nfiles = draw(st.sampled_from([0, 1, 2, 2, 2, 3, 3]))
    if nfiles == 0:
        return [], []
    names = draw(st.lists(st.sampled_from(VARFILE_NAMES), min_size=nfiles, max_size=nfiles, unique=True))
    files = []
    for n in names:
        fmt = "conf" if n.endswith(".conf") else ("yml" if n.endswith(".yml") else "yaml")
        files.append({"name": n, "fmt": fmt, "global": {}, "stages": {}})
    scoped = [("g", k) for k in keys_global]
    for s in sorted(keys_stage):
        scoped += [(s, k) for k in keys_stage[s] if ("g", k) not in scoped]
    # every key lives in exactly one scope
    seen = set()
    uniq = []
    for sc, k in scoped:
        if k not in seen:
            seen.add(k)
            uniq.append((sc, k))
    for sc, k in uniq:
        how = draw(st.sampled_from(["all", "all", "some", "one", "none"])) if nfiles > 1 else \
            draw(st.sampled_from(["one", "one", "none"]))
        if how == "none":
            continue
        if how == "all":
            idxs = list(range(nfiles))
        elif how == "one":
            idxs = [draw(st.integers(0, nfiles - 1))]
        else:
            idxs = sorted(draw(st.lists(st.integers(0, nfiles - 1), min_size=2, max_size=nfiles, unique=True)))
        for i in idxs:
            if k in numeric:
                val = draw(st.sampled_from(numeric[k]))
                if files[i]["fmt"] == "conf" or draw(st.booleans()):
                    val = str(val)
            else:
                val = "%s-f%d" % (k, i)
            if sc == "g":
                files[i]["global"][k] = val
            else:
                files[i]["stages"].setdefault(sc, {})[k] = val
    if nfiles == 1 and keys_stage and draw(st.integers(0, 2)) == 0:
        # one file that sets a key both globally and for a stage: which of the two a component of that stage sees is the
        # layering rule of the code, but it has to be the same in every process (only the cross-process comparison
        # applies to such a key: a single file cannot be "contested")
        gk = [k for k in files[0]["global"] if k not in numeric]
        if gk:
            k = draw(st.sampled_from(sorted(gk)))
            st_ = draw(st.sampled_from(sorted(keys_stage)))
            files[0]["stages"].setdefault(st_, {})[k] = "%s-f0-stage%s" % (k, st_)
    order = list(draw(st.permutations(list(range(nfiles)))))
    if nfiles >= 2 and draw(st.integers(0, 3)) == 0:
        # the same path given twice: [x, .., x] must still behave as "layered in the order given" (x wins)
        if draw(st.integers(0, 2)) > 0:
            order.append(order[0])
        else:
            order.insert(draw(st.integers(0, len(order))), draw(st.sampled_from(order)))
    return files, order


def layered(varfiles, varorder) -> dict:
    """The reference model: overlay the files in the order given, later files win, key by key."""
    out = {"global": {}, "stages": {}}
    for i in varorder:
        f = varfiles[i]
        out["global"].update(f["global"])
        for s, kv in f["stages"].items():
            out["stages"].setdefault(s, {}).update(kv)
    return out


def contested(varfiles, varorder) -> List[Tuple[str, str]]:
    """(scope, key) pairs defined by >= 2 distinct files of the order."""
    cnt = {}
    for i in sorted(set(varorder)):
        f = varfiles[i]
        for k in f["global"]:
            cnt[("g", k)] = cnt.get(("g", k), 0) + 1
        for s, kv in f["stages"].items():
            for k in kv:
                cnt[(s, k)] = cnt.get((s, k), 0) + 1
    return sorted(k for k, n in cnt.items() if n >= 2)


def candidates(varfiles, varorder, scope, key) -> Dict[str, List[int]]:
    """str(value) -> indexes of the files (of the order) that give `key` this value in `scope`."""
    out = {}
    for i in sorted(set(varorder)):
        f = varfiles[i]
        sect = f["global"] if scope == "g" else f["stages"].get(scope, {})
        if key in sect:
            out.setdefault(str(sect[key]), []).append(i)
    return out


# ------------------------------------------------------------------------------------------------------------
# FlowIR packages
@st.composite
def _env_body(draw):
    keys = draw(st.lists(st.sampled_from(ENV_KEYS), min_size=1, max_size=3, unique=True))
    body = {k: draw(st.sampled_from(ENV_VALUES)) for k in keys}
    if draw(st.integers(0, 3)) == 0:
        body["DEFAULTS"] = "PATH"
        if draw(st.booleans()):
            body["PATH"] = "/my/bin:$PATH"
    if draw(st.integers(0, 3)) == 0:
        # a chain of references inside the environment, listed in a drawn order (its resolution must not depend on it)
        chain = [("C15_ROOT", "/opt/tools"), ("C15_BIN", "$C15_ROOT/bin"), ("C15_WRAP", "${C15_BIN}/wrap"),
                 ("C15_CMD", "$C15_WRAP --go")][:draw(st.integers(2, 4))]
        items = list(body.items()) + list(draw(st.permutations(chain)))
        body = dict(draw(st.permutations(items)))
    return body


@st.composite
def flowir_spec(draw):
    names = draw(st.sampled_from(["simple", "simple", "confusable"]))
    W = draw(WF.workflows(max_components=5, max_stages=3, names=names, methods=("ref",), allow_paths=False,
                          allow_repeat=True, allow_shutdown=True, replicate_via_vars=True, max_n=3))
    comps = W["components"]
    nstages = comps[-1]["stage"] + 1
    platform = draw(st.sampled_from([None, None, PLATFORM]))
    uses = []
    used = set()
    for c in comps:
        u = draw(st.lists(st.sampled_from(KEYS), min_size=0, max_size=2, unique=True))
        uses.append(u)
        used.update(u)
    if not used and draw(st.booleans()):
        uses[0] = [KEYS[0]]
        used.add(KEYS[0])
    used = sorted(used)
    pkgvars = {"dg": {k: "pkg-%s" % k for k in used}, "pg": {}, "ds": {}}
    if platform:
        for k in used:
            if draw(st.integers(0, 2)) == 0:
                pkgvars["pg"][k] = "plat-%s" % k
    for k in used:
        if draw(st.integers(0, 3)) == 0:
            s = draw(st.integers(0, nstages - 1))
            pkgvars["ds"].setdefault(str(s), {})[k] = "stage%d-%s" % (s, k)
    derived = None
    if nstages >= 2 and used and draw(st.integers(0, 2)) == 0:
        # a stage variable whose value refers to a variable that ANOTHER stage overrides (stage scopes are private)
        k = draw(st.sampled_from(used))
        s2 = draw(st.integers(0, nstages - 1))
        s1 = draw(st.sampled_from([x for x in range(nstages) if x != s2]))
        pkgvars["ds"].setdefault(str(s1), {})[k] = "stage%d-%s" % (s1, k)
        pkgvars["ds"].setdefault(str(s2), {}).pop(k, None)
        pkgvars["ds"][str(s2)]["derived"] = "%%(%s)s-sauce" % k
        derived = draw(st.sampled_from([i for i, c in enumerate(comps) if c["stage"] == s2]))
    # environments (>= 2 most of the time)
    nenv = draw(st.sampled_from([0, 1, 2, 2, 2, 3]))
    env_names = draw(st.lists(st.sampled_from(ENV_NAMES), min_size=nenv, max_size=nenv, unique=True))
    envs = {"default": {}}
    for n in env_names:
        where = draw(st.sampled_from(["default", "default", "both"] if platform else ["default"]))
        envs["default"][n] = draw(_env_body())
        if where == "both":
            envs.setdefault(PLATFORM, {})[n] = draw(_env_body())
    # (not generated: two environment definitions of one platform whose names differ only in letter case - a document
    #  that defines the same case-insensitive name twice; which one counts is not stated and, on the pinned tree, depends
    #  on the key order of the document - recorded as a lateral observation in DESIGN.md, seeded change C15/I)
    comp_env = [draw(st.sampled_from([None] + env_names * 2)) if env_names else None for _ in comps]
    # top level folders: inside the package directory (layout "dir"), or next to a single FlowIR file and mapped
    # through an explicit manifest (layout "file": target -> [spelling of the source, method])
    layout = draw(st.sampled_from(["dir", "dir", "file"]))
    folders = draw(st.lists(st.sampled_from(FOLDERS), min_size=0, max_size=4, unique=True))
    if "lib" in folders and "Lib" not in folders and draw(st.booleans()):
        folders.append("Lib")          # names that differ only in case
    dirs = {}
    for f in folders:
        dirs[f] = {fn: "%s/%s\n" % (f, fn) for fn in draw(st.lists(st.sampled_from(FILES), min_size=1, max_size=2,
                                                                     unique=True))}
    manifest = {}
    if layout == "file":
        for f in folders:
            manifest[f] = [draw(st.sampled_from(["abs", "rel"])), draw(st.sampled_from([None, "copy", "copy", "link"]))]
    dirrefs = []                      # per component: 0-2 references to files in top-level folders
    avail = sorted((f, fn) for f in dirs for fn in dirs[f])
    for _ in comps:
        refs = []
        if avail and draw(st.integers(0, 2)) == 0:
            k = draw(st.integers(1, min(2, len(avail))))
            for folder, fn in draw(st.lists(st.sampled_from(avail), min_size=k, max_size=k, unique=True)):
                refs.append([folder, fn, draw(st.sampled_from(["ref", "copy", "link"]))])
        dirrefs.append(refs)
    # user variable files: every key is also defined by the package (the package must be valid on its own)
    rep_kinds = {c["replicate"] for c in comps if c["replicate"] is not None}
    numeric = {}
    keys_global = list(used)
    if rep_kinds == {"global"}:
        keys_global.append("nrep")
        numeric["nrep"] = [2, 3]
    keys_stage = {}
    for s in range(nstages):
        ks = sorted({k for c, u in zip(comps, uses) if c["stage"] == s for k in u})
        if ks:
            keys_stage[str(s)] = ks
    # decide the scope of each key up front: global or one stage
    kg, kst = [], {}
    for k in keys_global:
        stages_using = [s for s in keys_stage if k in keys_stage[s]]
        if k != "nrep" and stages_using and draw(st.integers(0, 2)) == 0:
            kst.setdefault(draw(st.sampled_from(stages_using)), []).append(k)
        else:
            kg.append(k)
    varfiles, varorder = draw(variable_files(kg, kst, numeric))
    if derived is not None:
        uses[derived] = uses[derived] + ["derived"]        # (after the variable files: they never set it)
    return {"kind": "flowir", "W": W, "platform": platform, "uses": uses, "pkgvars": pkgvars, "envs": envs,
            "comp_env": comp_env, "layout": layout, "dirs": dirs, "dirrefs": dirrefs, "manifest": manifest,
            "varfiles": varfiles, "varorder": varorder}


def flowir_documents(spec) -> dict:
    """-> {"doc": FlowIR dict (stage keys as decimal strings), "files": {relpath: content},
           "layout", "manifest"}"""
    W = spec["W"]
    doc = WF.render(W)
    for i, comp in enumerate(doc["components"]):
        extra = ["%s=%%(%s)s" % (k, k) for k in spec["uses"][i]]
        for ref in spec["dirrefs"][i]:
            r = "%s/%s:%s" % (ref[0], ref[1], ref[2])
            comp["references"] = list(comp["references"]) + [r]
            if ref[2] == "ref":
                extra.append(r)
        if extra:
            comp["command"]["arguments"] = " ".join([comp["command"]["arguments"]] + extra).strip()
        if spec["comp_env"][i]:
            comp["command"]["environment"] = spec["comp_env"][i]
    variables = doc.get("variables", {"default": {}})
    # workflow.render uses int stage keys; documents travel as JSON, so stage keys become decimal strings here and
    # are turned back into ints by the child (c15_child.intify)
    if "stages" in variables.get("default", {}):
        variables["default"]["stages"] = {str(k): v for k, v in variables["default"]["stages"].items()}
    if spec["pkgvars"]["dg"]:
        variables["default"].setdefault("global", {}).update(spec["pkgvars"]["dg"])
    for s, kv in spec["pkgvars"]["ds"].items():
        variables["default"].setdefault("stages", {}).setdefault(s, {}).update(kv)
    if spec["pkgvars"]["pg"]:
        variables.setdefault(PLATFORM, {}).setdefault("global", {}).update(spec["pkgvars"]["pg"])
    if variables.get("default") or len(variables) > 1:
        doc["variables"] = variables
    envs = {p: copy.deepcopy(e) for p, e in spec["envs"].items() if e}
    if envs:
        doc["environments"] = envs
    if spec["platform"]:
        doc["platforms"] = ["default", PLATFORM]
    files = {}
    for folder, content in spec["dirs"].items():
        for fn, text in content.items():
            files["%s/%s" % (folder, fn)] = text
    return {"doc": doc, "files": files, "layout": spec["layout"], "manifest": copy.deepcopy(spec["manifest"])}


def flowir_expected_nodes(spec) -> Optional[List[str]]:
    """Node names after replication, with the replica count taken from the winning variable file (model)."""
    W = spec["W"]
    lay = layered(spec["varfiles"], spec["varorder"])
    n = W["n"]
    if "nrep" in lay["global"]:
        n = int(lay["global"]["nrep"])
    W2 = dict(W, n=n)
    nodes, _ = WF.expand(W2)
    return sorted(nodes)


# ------------------------------------------------------------------------------------------------------------
# DSL 2.0 packages
def _stage_of(step_name: str) -> int:
    return 1 if step_name.startswith("stage1.") else 0


@st.composite
def _dsl_steps(draw, spec_templates, nsubs, params, nenv, min_steps, max_steps, first_is_stage0_component=False):
    n = draw(st.integers(min_steps, max_steps))
    names = draw(st.lists(st.sampled_from(STEP_NAMES), min_size=n, max_size=n, unique=True))
    if first_is_stage0_component and _stage_of(names[0]) != 0:
        # FlowIR stage indexes must be contiguous from 0: the first step of main is a stage-0 component
        s0 = [x for x in STEP_NAMES if _stage_of(x) == 0 and x not in names]
        names[0] = draw(st.sampled_from(s0))
    steps = []
    for i, nm in enumerate(names):
        if nsubs and not (first_is_stage0_component and i == 0) and draw(st.integers(0, 2)) == 0:
            t = ["w", draw(st.integers(0, nsubs - 1))]
        else:
            t = ["c", draw(st.integers(0, len(spec_templates) - 1))]
        # producers live in the same or an earlier stage
        earlier = [j for j in range(i) if steps[j]["t"][0] == "c" and _stage_of(steps[j]["step"]) <= _stage_of(nm)]
        ref = draw(st.sampled_from(earlier)) if earlier and t[0] == "c" and draw(st.booleans()) else None
        param = draw(st.sampled_from(sorted(params))) if params and draw(st.booleans()) else None
        env = None
        if t[0] == "c" and isinstance(spec_templates[t[1]]["env"], int) and draw(st.integers(0, 2)) == 0:
            env = draw(st.integers(0, nenv - 1))
        # a second (and third) reference to other earlier producers: a component with several references is what makes
        # the *order* of its references observable
        more = [j for j in earlier if j != ref]
        ref2 = draw(st.sampled_from(more)) if ref is not None and more and draw(st.booleans()) else None
        more3 = [j for j in more if j != ref2]
        ref3 = draw(st.sampled_from(more3)) if ref2 is not None and more3 and draw(st.booleans()) else None
        steps.append({"step": nm, "t": t, "ref": ref, "ref2": ref2, "ref3": ref3, "param": param, "env": env})
    return steps


@st.composite
def dsl_spec(draw):
    nparams = draw(st.integers(1, 3))
    params = {KEYS[i]: "dflt-%s" % KEYS[i] for i in range(nparams)}
    entry_args = {k: "arg-%s" % k for k in sorted(params) if draw(st.booleans())}
    nenv = draw(st.sampled_from([1, 2, 2, 3]))
    envpool = []
    for i in range(nenv):
        e = draw(_env_body())
        e.pop("PATH", None)
        e["ENV_ID"] = "e%d" % i              # distinct by construction
        envpool.append(e)
    if nenv >= 2 and draw(st.integers(0, 3)) == 0:
        envpool[1] = copy.deepcopy(envpool[0])   # two pool entries with identical content: one generated name
    ntemplates = draw(st.integers(1, 3))
    templates = []
    for i in range(ntemplates):
        # None: the template has no environment field; "none": the literal none; int: an `environment` parameter
        # whose default is envpool[int] (callers may override it)
        env = draw(st.sampled_from([None, "none"] + list(range(nenv)) * 2))
        templates.append({"name": ["echo", "cat", "tool"][i], "env": env})
    nsubs = draw(st.sampled_from([0, 1, 1, 2]))
    subs = []
    for j in range(nsubs):
        steps = draw(_dsl_steps(templates, 0, {"foo": None}, nenv, 1, 3))
        subs.append({"name": "sub%s" % "AB"[j], "steps": steps})
    main = draw(_dsl_steps(templates, nsubs, params, nenv, 1, 4, first_is_stage0_component=True))
    if nsubs and len(main) > 1 and not any(s["t"][0] == "w" for s in main):
        main[-1].update({"t": ["w", 0], "ref": None, "ref2": None, "ref3": None, "env": None})
    # a step that became a workflow step cannot be a reference target any more
    for s in main:
        for k in ("ref", "ref2", "ref3"):
            if s.get(k) is not None and main[s[k]]["t"][0] != "c":
                s[k] = None
    # user variable files: global keys must be parameters of the entry workflow; stage keys are free
    nfree = draw(st.integers(0, 2))
    stage_keys = [k for k in ["gamma", "delta"][:nfree] if k not in params]
    varfiles, varorder = draw(variable_files(sorted(params), {"0": stage_keys} if stage_keys else {}, {}))
    return {"kind": "dsl", "layout": draw(st.sampled_from(["dir", "dir", "file"])), "params": params, "entry_args": entry_args, "envpool": envpool, "templates": templates,
            "subs": subs, "main": main, "varfiles": varfiles, "varorder": varorder}


def _dsl_execute(steps, spec):
    step_map = {}
    execute = []
    for s in steps:
        if s["t"][0] == "c":
            step_map[s["step"]] = spec["templates"][s["t"][1]]["name"]
            args = {"message": "from-%s" % s["step"].replace(".", "-")}
            if s["ref"] is not None:
                args["other"] = "<%s>:ref" % steps[s["ref"]]["step"]
            elif s["param"]:
                args["other"] = "%%(%s)s" % s["param"]
            if s.get("ref2") is not None:
                args["extra"] = "<%s>:ref" % steps[s["ref2"]]["step"]
            if s.get("ref3") is not None:
                args["more"] = "<%s>:ref" % steps[s["ref3"]]["step"]
            if s["env"] is not None:
                args["environment"] = copy.deepcopy(spec["envpool"][s["env"]])
        else:
            step_map[s["step"]] = spec["subs"][s["t"][1]]["name"]
            args = {}
            if s["param"]:
                args["foo"] = "%%(%s)s" % s["param"]
        execute.append({"target": "<%s>" % s["step"], "args": args})
    return step_map, execute


def dsl_documents(spec) -> dict:
    comps = []
    for t in spec["templates"]:
        params = [{"name": "message"}, {"name": "other", "default": "nothing"}, {"name": "extra", "default": "no-extra"},
                  {"name": "more", "default": "no-more"}]
        command = {"executable": "echo", "arguments": "%(message)s other=%(other)s extra=%(extra)s more=%(more)s"}
        if t["env"] == "none":
            command["environment"] = "none"
        elif t["env"] is not None:
            params.append({"name": "environment", "default": copy.deepcopy(spec["envpool"][t["env"]])})
            command["environment"] = "%(environment)s"
        comps.append({"signature": {"name": t["name"], "parameters": params}, "command": command})
    workflows = []
    steps, execute = _dsl_execute(spec["main"], spec)
    workflows.append({"signature": {"name": "main", "parameters": [{"name": k, "default": v}
                                                                    for k, v in sorted(spec["params"].items())]},
                      "steps": steps, "execute": execute})
    for sub in spec["subs"]:
        steps, execute = _dsl_execute(sub["steps"], spec)
        workflows.append({"signature": {"name": sub["name"], "parameters": [{"name": "foo", "default": "bar"}]},
                          "steps": steps, "execute": execute})
    doc = {"entrypoint": {"entry-instance": "main", "execute": [{"target": "<entry-instance>",
                                                                 "args": dict(spec["entry_args"])}]},
           "workflows": workflows, "components": comps}
    return {"doc": doc, "files": {}, "layout": spec["layout"], "manifest": {}}


def dsl_component_instances(spec) -> List[Tuple[str, dict]]:
    """[(location, step)] of every component instance reachable from the entrypoint (model)."""
    out = []
    for s in spec["main"]:
        if s["t"][0] == "c":
            out.append(("main/%s" % s["step"], s))
        else:
            for q in spec["subs"][s["t"][1]]["steps"]:
                out.append(("main/%s/%s" % (s["step"], q["step"]), q))
    return out


def dsl_duplicate_steps(spec) -> int:
    names = [q["step"] for _, q in dsl_component_instances(spec)]
    return len(names) - len(set(names))


def dsl_distinct_environments(spec) -> int:
    """Number of distinct non-empty environments among the component instances (model)."""
    seen = []
    for _, q in dsl_component_instances(spec):
        t = spec["templates"][q["t"][1]]
        if not isinstance(t["env"], int):
            continue
        e = spec["envpool"][q["env"] if q["env"] is not None else t["env"]]
        if e not in seen:
            seen.append(e)
    return len(seen)


# ------------------------------------------------------------------------------------------------------------
@st.composite
def dosini_spec(draw):
    """A small legacy (DOSINI) package directory. `stale`: the directory also holds instance files that an earlier load
    with other options left next to the package files (stage<N>.instance.conf, experiment.instance.conf); a package
    load must not pick them up, whatever order the file system lists them in."""
    nstages = draw(st.sampled_from([1, 2, 2, 3]))
    word = draw(st.sampled_from(["package", "pkg-word"]))
    files = {"conf/experiment.conf": "[ENV-TOOLS]\nAN_ENV_VAR = 1\n",
             "conf/variables.conf": "[GLOBAL]\nword = %s\ncount = 1\n" % word}
    for s_ in range(nstages):
        sections = []
        for name in draw(st.lists(st.sampled_from(["Gen", "Use", "Post"]), min_size=1, max_size=2, unique=True)):
            refs = "stage0.Gen:ref" if s_ > 0 and "[Gen]" in files.get("conf/stages.d/stage0.conf", "") else ""
            sections.append("[%s]\nexecutable = echo\narguments = %%(word)s-%d %s\n%s" % (
                name, s_, refs, ("references = %s\n" % refs) if refs else ""))
        files["conf/stages.d/stage%d.conf" % s_] = "\n".join(sections)
    stale = draw(st.booleans())
    if stale:
        files["conf/experiment.instance.conf"] = "[ENV-TOOLS]\nAN_ENV_VAR = stale\n"
        for s_ in draw(st.lists(st.integers(0, nstages - 1), min_size=1, max_size=nstages, unique=True)):
            body = files["conf/stages.d/stage%d.conf" % s_].replace("%(word)s", "stale-instance")
            files["conf/stages.d/stage%d.instance.conf" % s_] = "[META]\nword = stale\n\n" + body
    return {"kind": "dosini", "files": files, "stale": stale, "platform": None, "varfiles": [], "varorder": [],
            "nstages": nstages}


def package_spec():
    return st.one_of(flowir_spec(), flowir_spec(), flowir_spec(), dsl_spec(), dsl_spec(), dosini_spec())


def documents(spec) -> dict:
    if spec["kind"] == "dosini":
        return {"doc": {}, "files": dict(spec["files"]), "layout": "dosini", "manifest": {}, "varfiles": [],
                "varorder": [], "kind": "dosini", "platform": None}
    d = flowir_documents(spec) if spec["kind"] == "flowir" else dsl_documents(spec)
    d["varfiles"] = [{"name": f["name"], "fmt": f["fmt"], "doc": _varfile_doc(f)} for f in spec["varfiles"]]
    d["varorder"] = list(spec["varorder"])
    d["kind"] = spec["kind"]
    d["platform"] = spec.get("platform")
    return d


def _varfile_doc(f):
    doc = {}
    if f["global"]:
        doc["global"] = dict(f["global"])
    if f["stages"]:
        doc["stages"] = {s: dict(kv) for s, kv in f["stages"].items()}
    return doc


def features(spec) -> dict:
    """Independent facts about the spec used for the non-trivial rule and the label histogram."""
    cont = contested(spec["varfiles"], spec["varorder"])
    if spec["kind"] == "dosini":
        return {"kind": "dosini", "nvarfiles": 0, "contested": 0, "nenv": 1, "duplicate_steps": 0,
                "repeated_path": False, "nontrivial": bool(spec["stale"])}
    if spec["kind"] == "flowir":
        nenv = len({n for p in spec["envs"].values() for n in p})
        dup = 0
    else:
        nenv = dsl_distinct_environments(spec)
        dup = dsl_duplicate_steps(spec)
    return {"kind": spec["kind"], "nvarfiles": len(set(spec["varorder"])), "contested": len(cont), "nenv": nenv,
            "duplicate_steps": dup, "repeated_path": len(spec["varorder"]) != len(set(spec["varorder"])),
            "nontrivial": bool(cont) or dup > 0 or nenv >= 2}


@st.composite
def batch(draw, npkgs: int, nchildren: int):
    pkgs = []
    for i in range(npkgs):
        spec = draw(package_spec())
        spec["slot"] = i                 # names the package's directories; kept when the package is replayed alone
        pkgs.append(spec)
    children = [{"hashseed": 0, "keyperm": None, "listperm": None}]
    for _ in range(nchildren - 1):
        children.append({"hashseed": draw(st.integers(1, 4000)), "keyperm": draw(st.integers(1, 2 ** 30)),
                         "listperm": draw(st.integers(1, 2 ** 30))})
    return {"pkgs": pkgs, "children": children}
