"""C19 helpers: the harness' own model of the legacy (DOSINI) option table, generators of workflows restricted to
what that format can express, and two independent renderings of one abstract case:

* `to_flowir(case)`            -> FlowIR dictionary (package level: platforms, layered variables, blueprints, ...)
* `to_legacy_package(case)`    -> {relative path: text} of a hand-written legacy package (conf/ directory contents),
                                  produced by this module's own writer, never by the code under test.

An abstract case is a JSON-able dict:

  {"mode": "full|sparse|pkgdump|legacy", "platform": "default|P",
   "vars":  {"dg": {...}, "pg": {...}, "ds": {"0": {...}}, "ps": {"0": {...}}},          # variables per scope
   "blue":  {"dg": {opt: val}, "pg": {...}, "ds": {"0": {...}}, "ps": {"0": {...}}},      # blueprints (legacy keys)
   "envs":  {"default": {name: {VAR: value}}, "P": {...}},
   "components": [{"name": str, "stage": int, "opts": {legacy key: typed value}, "vars": {...}}],
   "status": {"0": {...}}, "output": {name: {...}}}

Option values are typed (bool / int / float / str / list) and keyed by the *legacy* option name; TABLE says where the
option lives in FlowIR.  TABLE is written from the documentation of the two formats (docs + FlowIR schema), it is the
oracle's view of the mapping and deliberately does not import anything from experiment.model.frontends.dosini.
"""
from __future__ import annotations

import copy
from typing import Any, Dict, List, Tuple

from hypothesis import strategies as st

# --------------------------------------------------------------------------------------------------------------
# the mapping table: legacy key -> (FlowIR block, path inside the component, value kind, a non-default sample value)
TABLE: Dict[str, Tuple[str, Tuple[str, ...], str, Any]] = {
    # command
    "executable": ("command", ("command", "executable"), "exe", "bin/run.sh"),
    "arguments": ("command", ("command", "arguments"), "text", "-n 3 --out=x.txt a:b"),
    "environment": ("command", ("command", "environment"), "env", "mpi"),
    "interpreter": ("command", ("command", "interpreter"), "interp", "bash"),
    "expandArguments": ("command", ("command", "expandArguments"), "expand", "none"),
    "resolvePath": ("command", ("command", "resolvePath"), "boolv", False),
    # references
    "references": ("references", ("references",), "refs", ["stage0.Prod:ref", "input/f.txt:copy"]),
    # workflowAttributes
    "restart-hook-file": ("workflowAttributes", ("workflowAttributes", "restartHookFile"), "word", "custom-restart.py"),
    "restart-hook-on": ("workflowAttributes", ("workflowAttributes", "restartHookOn"), "reasons", ["KnownIssue", "UnknownIssue"]),
    "shutdown-on": ("workflowAttributes", ("workflowAttributes", "shutdownOn"), "reasons+", ["Killed", "SystemIssue"]),
    "aggregate": ("workflowAttributes", ("workflowAttributes", "aggregate"), "bool", True),
    "isMigratable": ("workflowAttributes", ("workflowAttributes", "isMigratable"), "boolv", True),
    "replicate": ("workflowAttributes", ("workflowAttributes", "replicate"), "int", 4),
    "repeatRetries": ("workflowAttributes", ("workflowAttributes", "repeatRetries"), "int", 7),
    "max-restarts": ("workflowAttributes", ("workflowAttributes", "maxRestarts"), "int-1", 5),
    "repeat-interval": ("workflowAttributes", ("workflowAttributes", "repeatInterval"), "interval", 13),
    "memoization-disable-strong": ("workflowAttributes", ("workflowAttributes", "memoization", "disable", "strong"), "boolv", True),
    "memoization-disable-fuzzy": ("workflowAttributes", ("workflowAttributes", "memoization", "disable", "fuzzy"), "boolv", True),
    "memoization-embedding-function": ("workflowAttributes", ("workflowAttributes", "memoization", "embeddingFunction"), "code", "return upstream['a'];"),
    "optimizerDisable": ("workflowAttributes", ("workflowAttributes", "optimizer", "disable"), "boolv", True),
    "optimizerExploitChance": ("workflowAttributes", ("workflowAttributes", "optimizer", "exploitChance"), "frac", 0.125),
    "optimizerExploitTarget": ("workflowAttributes", ("workflowAttributes", "optimizer", "exploitTarget"), "frac", 0.375),
    "optimizerExploitTargetLow": ("workflowAttributes", ("workflowAttributes", "optimizer", "exploitTargetLow"), "frac", 0.0625),
    "optimizerExploitTargetHigh": ("workflowAttributes", ("workflowAttributes", "optimizer", "exploitTargetHigh"), "frac", 0.875),
    # resourceManager.config
    "job-type": ("resourceManager", ("resourceManager", "config", "backend"), "backend", "lsf"),
    "walltime": ("resourceManager", ("resourceManager", "config", "walltime"), "float", 123.5),
    # resourceManager.lsf
    "queue": ("resourceManager", ("resourceManager", "lsf", "queue"), "word", "bigmem"),
    "reservation": ("resourceManager", ("resourceManager", "lsf", "reservation"), "word", "res-01"),
    "resourceString": ("resourceManager", ("resourceManager", "lsf", "resourceString"), "text", "select[hname!=x] rusage[mem=4]"),
    "statusRequestInterval": ("resourceManager", ("resourceManager", "lsf", "statusRequestInterval"), "float", 7.5),
    "lsf-docker-image": ("resourceManager", ("resourceManager", "lsf", "dockerImage"), "word", "reg.io/img:1.0"),
    "lsf-docker-profile-app": ("resourceManager", ("resourceManager", "lsf", "dockerProfileApp"), "word", "docker-app"),
    "lsf-docker-options": ("resourceManager", ("resourceManager", "lsf", "dockerOptions"), "text", "-v /a:/b --rm"),
    # resourceManager.kubernetes
    "k8s-image": ("resourceManager", ("resourceManager", "kubernetes", "image"), "word", "quay.io/org/img:latest"),
    "k8s-image-pull-secret": ("resourceManager", ("resourceManager", "kubernetes", "image-pull-secret"), "word", "my-secret"),
    "k8s-api-key-var": ("resourceManager", ("resourceManager", "kubernetes", "api-key-var"), "word", "K8S_KEY"),
    "k8s-host": ("resourceManager", ("resourceManager", "kubernetes", "host"), "word", "https://k8s.example:6443"),
    "k8s-namespace": ("resourceManager", ("resourceManager", "kubernetes", "namespace"), "word", "team-ns"),
    "k8s-cpu-units-per-core": ("resourceManager", ("resourceManager", "kubernetes", "cpuUnitsPerCore"), "float", 0.5),
    "k8s-grace-period": ("resourceManager", ("resourceManager", "kubernetes", "gracePeriod"), "int", 45),
    # executors
    "rstage-in": ("executors", ("executors", "pre"), "word", "all"),
    "rstage-out": ("executors", ("executors", "post"), "word", "all"),
    "docker-args": ("executors", ("executors", "main"), "text", "--rm -it"),
    "docker-image": ("executors", ("executors", "main"), "word", "ubuntu:22.04"),
    # resourceRequest
    "numberProcesses": ("resourceRequest", ("resourceRequest", "numberProcesses"), "int", 8),
    "numberThreads": ("resourceRequest", ("resourceRequest", "numberThreads"), "int", 4),
    "ranksPerNode": ("resourceRequest", ("resourceRequest", "ranksPerNode"), "int", 2),
    "threadsPerCore": ("resourceRequest", ("resourceRequest", "threadsPerCore"), "int", 2),
    "memory": ("resourceRequest", ("resourceRequest", "memory"), "memory", "2Gi"),
}
KEYS = sorted(TABLE)
BLOCKS = sorted({v[0] for v in TABLE.values()})
KEYS_OF_BLOCK = {b: [k for k in KEYS if TABLE[k][0] == b] for b in BLOCKS}
# the legacy format forbids these in the *global* blueprint section
NOT_IN_GLOBAL_BLUEPRINT = {"replicate", "aggregate", "references", "executable", "arguments", "interpreter"}

# --------------------------------------------------------------------------------------------------------------
# variables: a fixed set of *base* variables is always defined in the default global scope so that every generated
# %(name)s reference resolves.  Names mix cases, dots, dashes, digits (all legal in both formats).
BASE_VARS = {
    "gv": "text", "numberPoints": "int", "myBool": "bool", "backendLocal": "backend", "TimeLimit_s": "float",
    "mem-gi": "int", "defaultQ": "word", "Zero0": "zero",
}
FREE_VAR_NAMES = ["alpha", "Beta2", "x_y", "dlmeso-number", "stage-name", "N", "hpc-venv", "OverrideFromInput"]



def _check_names():
    """Implicit precondition of the legacy format: an option that is *almost* a keyword is reported as a typo and a
    keyword cannot be a variable name. Checked with the same similarity measure (difflib, cutoff 0.8)."""
    import difflib
    for name in list(BASE_VARS) + FREE_VAR_NAMES + ENV_VARS:
        assert name not in TABLE, name
        assert "." not in name or name in ENV_VARS, name      # dotted variable names are scope routes in FlowIR
        close = difflib.get_close_matches(name, KEYS, cutoff=0.75) + [k for k in KEYS if difflib.get_close_matches(k, [name], cutoff=0.75)]
        assert not close, (name, close)


WORDS = ["x", "hello", "-n", "--flag=1", "a:b", "k=v", "50%%", "$HOME/bin", "${VAR}", "#c", ";s", '"q r"', "'s'",
         "rusage[mem=4]", "path/to/f.txt", "stage0.a:ref", ">", "out.txt", "|", "&&", "UPPER", "MiXed", "1e3", "=",
         ":", "a  b", "%(gv)s", "%(numberPoints)s", "pre%(defaultQ)spost", "true", "None", "0"]
WORDS_NOREF = [w for w in WORDS if "%(" not in w]
SIMPLE_WORDS = ["normal", "q-1", "a.b_c", "Reg.io/x:1", "UPPER", "v1.2", "%(defaultQ)s", "p-%(gv)s", "all", "x=y"]
BACKENDS = ["local", "lsf", "kubernetes", "simulator", "docker", "%(backendLocal)s"]
REASONS_RESTART = ["KnownIssue", "SystemIssue", "SubmissionFailed", "UnknownIssue", "ResourceExhausted", "Success"]
REASONS_ALL = REASONS_RESTART + ["Killed", "Cancelled"]
ENV_NAMES = ["mpi", "Python", "VIZ", "gnu-env", "environment"]
ENV_VARS = ["PATH", "LD_LIBRARY_PATH", "OMP_NUM_THREADS", "my_var", "DEFAULTS", "Mixed.Case-1"]
REFS = ["stage0.Prod:ref", "input/f.txt:copy", "data/d:link", "Prod/out.csv:copy", "stage1.A-b_c:output",
        "app.application/bin:ref", "stage0.Prod:copyout", "data/archive.tgz:extract"]
COMP_NAMES = ["A", "a", "Prod", "A-b_c", "comp.1", "X0", "Observer", "aggregate-all"]
OUTPUT_NAMES = ["Out", "results.csv", "Key-1"]
EXECUTOR_KEYS = ("rstage-in", "rstage-out", "docker-args", "docker-image")
_check_names()


# a literal percent sign that is not doubled: legal in FlowIR and accepted (read raw) by the legacy loader
LONE_PERCENT = ["+%Y-%m-%d", "100%", "%d"]


def text(words=WORDS, max_words=5):
    return st.lists(st.sampled_from(words), min_size=0, max_size=max_words).map(" ".join).map(str.strip)


def _intlike(lo=0, hi=64):
    return st.one_of(st.integers(lo, hi), st.integers(lo, hi), st.just("%(numberPoints)s"), st.just("%(mem-gi)s"))


def _floatlike():
    return st.one_of(
        st.sampled_from([0.5, 30.0, 1e-05, 120, 0, 2.25, 1e+16, 0.1, 3600.0, 59.99,
                         10080.125, 1234567.0, 0.1234567, 86399.999, 1e-09, 123456.789012]),   # > 6 significant digits
        st.integers(0, 10000),
        st.just("%(TimeLimit_s)s"), st.just("%(numberPoints)s"))


def value_for(kind: str, allow_embedded_ref=False):
    """Strategy of typed values for a value kind."""
    if kind == "exe":
        return st.sampled_from(["echo", "bin/run.sh", "/usr/bin/env", "%(gv)s/bin/x", "python", "my exe"])
    if kind == "text":
        return text()
    if kind == "code":
        return st.one_of(text(), st.sampled_from([
            "return upstream['a'];", "var x = 1;\nreturn x;", "function f(a) { return a+1; }\nf(2)",
            "a\nb\nc"]))
    if kind == "env":
        return st.sampled_from(ENV_NAMES + [n.upper() for n in ENV_NAMES] + ["none", "%(gv)s"])
    if kind == "interp":
        return st.sampled_from(["bash", "javascript", "cwl", "cwlcmdline"])
    if kind == "expand":
        return st.sampled_from(["double-quote", "none"])
    if kind == "bool":
        return st.booleans()
    if kind == "boolv":
        return st.one_of(st.booleans(), st.booleans(), st.just("%(myBool)s"))
    if kind == "word":
        return st.sampled_from(SIMPLE_WORDS)
    if kind == "backend":
        return st.sampled_from(BACKENDS)
    if kind in ("int", "int-1"):
        base = _intlike(-1 if kind == "int-1" else 0)
        if allow_embedded_ref:
            return st.one_of(base, base, base, st.just("1%(Zero0)s"))
        return base
    if kind == "float":
        base = _floatlike()
        if allow_embedded_ref:
            return st.one_of(base, base, base, st.just("1%(Zero0)s"))
        return base
    if kind == "interval":      # FlowIR converts it with int(): a reference must expand to an integer literal
        return st.one_of(st.sampled_from([0, 1, 5, 30, 2.5, 60.0, 0.5]), st.integers(0, 3600), st.just("%(numberPoints)s"))
    if kind == "frac":
        return st.one_of(st.sampled_from([0.0, 1.0, 0.5, 0.125, 0.3, 0.9, 0.75, 0.25, 1e-3]), st.just("%(TimeLimit_s)s"))
    if kind == "memory":
        return st.sampled_from([1024, 2147483648, "2Gi", "512Mi", "100", "%(mem-gi)sGi", "%(numberPoints)s", 0])
    if kind == "reasons":
        return st.lists(st.sampled_from(REASONS_RESTART), max_size=3, unique=True)
    if kind == "reasons+":
        return st.lists(st.sampled_from(REASONS_ALL), max_size=3, unique=True)
    if kind == "refs":
        return st.lists(st.sampled_from(REFS), max_size=3, unique=True)
    raise KeyError(kind)


def var_value(kind: str):
    if kind == "text":
        # never empty: a reference that expands to nothing would leave leading/trailing blanks in the host value
        return st.lists(st.sampled_from(WORDS_NOREF), min_size=1, max_size=3).map(" ".join)
    if kind == "word":
        return st.sampled_from(["normal", "q-1", "Batch", "x"])
    if kind == "int":
        return st.one_of(st.integers(0, 9), st.integers(0, 9).map(str))
    if kind == "zero":
        return st.sampled_from([0, "0", "00"])
    if kind == "float":
        return st.one_of(st.sampled_from([0.5, 0.25, 1.0, 0.125]), st.sampled_from(["0.5", "1", "0.75"]))
    if kind == "bool":
        return st.sampled_from(["true", "false", "yes", "no", "True", "FALSE", True, False])
    if kind == "backend":
        return st.sampled_from(["local", "lsf", "kubernetes"])
    raise KeyError(kind)


@st.composite
def var_scope(draw, full=False, allow_free=True):
    """Variables of one scope: a subset (or all, for the default global scope) of the base variables plus some free
    ones (whose values may refer to base variables)."""
    out = {}
    for name in sorted(BASE_VARS):
        if full or draw(st.integers(0, 4)) == 0:
            out[name] = draw(var_value(BASE_VARS[name]))
    if allow_free:
        for name in draw(st.lists(st.sampled_from(FREE_VAR_NAMES), max_size=3, unique=True)):
            out[name] = draw(st.one_of(text(WORDS, 3), st.integers(0, 99), st.sampled_from([1.5, True, "", "%(gv)s/x"])))
    return out


@st.composite
def options(draw, exclude=(), max_keys=10, embedded=False):
    """A dict legacy-key -> typed value."""
    how = draw(st.sampled_from(["few", "few", "block", "many"]))
    pool = [k for k in KEYS if k not in exclude]
    if how == "block":
        block = draw(st.sampled_from(BLOCKS))
        cand = [k for k in KEYS_OF_BLOCK[block] if k not in exclude]
        keys = draw(st.lists(st.sampled_from(cand), min_size=1, max_size=len(cand), unique=True)) if cand else []
    elif how == "many":
        keys = draw(st.lists(st.sampled_from(pool), min_size=5, max_size=max(6, max_keys * 2), unique=True))
    else:
        keys = draw(st.lists(st.sampled_from(pool), max_size=max_keys, unique=True))
    out = {}
    for k in sorted(keys):
        out[k] = draw(value_for(TABLE[k][2], allow_embedded_ref=embedded))
    return out


@st.composite
def environments(draw):
    out = {}
    for name in draw(st.lists(st.sampled_from(ENV_NAMES), max_size=3, unique=True)):
        names = draw(st.lists(st.sampled_from(ENV_VARS), max_size=4, unique=True))
        out[name] = {v: draw(st.one_of(text(WORDS, 3), st.sampled_from(["/a/b:$PATH", "4", 4, "x=y:z", ""]))) for v in names}
    return out


@st.composite
def case_strategy(draw, modes=("full", "sparse", "pkgdump", "legacy"), embedded=False):
    mode = draw(st.sampled_from(modes))
    has_p = draw(st.booleans())
    platform = "P" if has_p and mode != "pkgdump" and draw(st.booleans()) else "default"
    # mostly few stages; sometimes more than ten (two-digit stage indices in section and file names)
    nstages = draw(st.sampled_from([1, 1, 2, 3, 1, 2, 3, 12]))
    comps = []
    for s in range(nstages):
        names = draw(st.lists(st.sampled_from(COMP_NAMES), min_size=1,
                              max_size=3 if nstages == 1 else (2 if nstages <= 3 else 1), unique=True))
        for n in names:
            opts = draw(options(embedded=embedded))
            if "interpreter" in opts:
                # an interpreter component has no executable and needs a script (non-empty arguments)
                opts.pop("executable", None)
                if not opts.get("arguments"):
                    opts["arguments"] = "run.sh -x " + draw(text(WORDS, 2))
                    opts["arguments"] = opts["arguments"].strip()
            elif "executable" not in opts and draw(st.integers(0, 3)) > 0:
                opts["executable"] = draw(value_for("exe"))
            comps.append({"name": n, "stage": s, "opts": opts, "vars": draw(var_scope()) if draw(st.booleans()) else {}})
    if draw(st.sampled_from(range(40))) == 17:
        # a few % of the cases: one free-text option carries a percent sign that is not doubled
        cand = [(i, k) for i, c in enumerate(comps) for k in sorted(c["opts"]) if TABLE[k][2] in ("text", "code")]
        i, k = draw(st.sampled_from(cand)) if cand else (0, "arguments")
        comps[i]["opts"][k] = (str(comps[i]["opts"].get(k, "")) + " " + draw(st.sampled_from(LONE_PERCENT))).strip()
    for c in comps:
        if "interpreter" in c["opts"]:
            # FlowIR splits an interpreter's arguments at single blanks to find the executable: runs of blanks would
            # leave leading white space in the remaining arguments, which no INI file can hold
            # (the same happens behind a quoted first word, so the script name is never quoted)
            args = " ".join(str(c["opts"]["arguments"]).split())
            c["opts"]["arguments"] = ("run.sh " + args) if args[:1] in ("'", '"') else args
    stages = [str(s) for s in range(nstages)]

    def per_stage(strategy):
        return {s: draw(strategy) for s in stages if draw(st.integers(0, 2)) == 0}

    vars_ = {"dg": draw(var_scope(full=True)), "ds": per_stage(var_scope()), "pg": {}, "ps": {}}
    # (legacy mode) executors stated in a blueprint section of variables.conf make the *package* loader fail when there
    # is more than one platform (lists are merged once per platform file) - not part of this property, kept out
    no_exec = EXECUTOR_KEYS if mode == "legacy" else ()
    blue = {"dg": draw(options(exclude=tuple(NOT_IN_GLOBAL_BLUEPRINT) + no_exec, max_keys=4, embedded=embedded)) if draw(st.booleans()) else {},
            "ds": per_stage(options(exclude=("references", "interpreter") + no_exec, max_keys=4, embedded=embedded)), "pg": {}, "ps": {}}
    envs = {"default": draw(environments())}
    if has_p:
        vars_["pg"] = draw(var_scope())
        vars_["ps"] = per_stage(var_scope())
        blue["pg"] = draw(options(exclude=tuple(NOT_IN_GLOBAL_BLUEPRINT) + no_exec, max_keys=3, embedded=embedded)) if draw(st.booleans()) else {}
        blue["ps"] = per_stage(options(exclude=("references", "interpreter") + no_exec, max_keys=3, embedded=embedded))
        envs["P"] = draw(environments())
    status = {}
    for s in stages:
        if draw(st.booleans()):
            e = {}
            if mode == "legacy" or draw(st.booleans()):       # (a hand-written status section always states its weight)
                e["stage-weight"] = draw(st.sampled_from([0.5, 0.25, 1.0, 0.0, 0.1, 0.333, 0.75]))
            if draw(st.integers(0, 2)) == 0:
                e["executable"] = draw(st.sampled_from(["bin/status.sh", "echo", "/usr/bin/progress"]))
                if draw(st.booleans()):
                    e["arguments"] = draw(text(WORDS_NOREF, 3))
                if draw(st.booleans()):
                    e["references"] = draw(value_for("refs"))
            status[s] = e
    output = {}
    for name in draw(st.lists(st.sampled_from(OUTPUT_NAMES), max_size=2, unique=True)):
        e = {"data-in": draw(st.sampled_from(["stage0.Prod/out.txt:copy", "Prod/out.txt:ref", "A:ref", "stage1.a/x y.txt:copy"]))}
        if draw(st.booleans()):
            e["description"] = draw(text(WORDS_NOREF, 3))
        if draw(st.booleans()):
            e["type"] = draw(st.sampled_from(["csv", "text/plain", "Mixed Type"]))
        if draw(st.booleans()):
            e["stages"] = draw(st.lists(st.integers(0, nstages - 1), max_size=2, unique=True))
        output[name] = e
    return {"mode": mode, "platform": platform, "platforms": ["default"] + (["P"] if has_p else []),
            "vars": vars_, "blue": blue, "envs": envs, "components": comps, "status": status, "output": output,
            "appdeps": draw(st.lists(st.sampled_from(["app.application", "Other-Pkg"]), max_size=2, unique=True)),
            "venvs": draw(st.lists(st.sampled_from(["venv1", "py-env"]), max_size=1)),
            # afterwards the same directory is updated with the description of the workflow minus its last stage
            "redump": draw(st.integers(0, 2)) == 0}


# --------------------------------------------------------------------------------------------------------------
# rendering 1: FlowIR
def _set_path(d: dict, path, value):
    for p in path[:-1]:
        d = d.setdefault(p, {})
    d[path[-1]] = value


def opts_to_component_fields(opts: Dict[str, Any]) -> Dict[str, Any]:
    """The FlowIR (partial) component that states the same options."""
    comp: Dict[str, Any] = {}
    docker = {}
    for key in sorted(opts):
        value = copy.deepcopy(opts[key])
        block, path, kind, _ = TABLE[key]
        if key == "rstage-in":
            comp.setdefault("executors", {})["pre"] = [{"name": "lsf-dm-in", "payload": value}]
        elif key == "rstage-out":
            comp.setdefault("executors", {})["post"] = [{"name": "lsf-dm-out", "payload": value}]
        elif key in ("docker-args", "docker-image"):
            docker[key] = value
        else:
            _set_path(comp, path, value)
    if docker:
        docker["name"] = "docker"
        comp.setdefault("executors", {})["main"] = [docker]
    return comp


def to_flowir(case) -> Dict[str, Any]:
    comps = []
    for c in case["components"]:
        comp = {"name": c["name"], "stage": c["stage"]}
        comp.update(opts_to_component_fields(c["opts"]))
        if c.get("vars"):
            comp["variables"] = copy.deepcopy(c["vars"])
        comps.append(comp)
    v, b = case["vars"], case["blue"]
    variables = {"default": {"global": copy.deepcopy(v["dg"]),
                             "stages": {int(s): copy.deepcopy(x) for s, x in v["ds"].items()}}}
    blueprint = {"default": {"global": opts_to_component_fields(b["dg"]),
                             "stages": {int(s): opts_to_component_fields(x) for s, x in b["ds"].items()}}}
    if "P" in case["platforms"]:
        variables["P"] = {"global": copy.deepcopy(v["pg"]), "stages": {int(s): copy.deepcopy(x) for s, x in v["ps"].items()}}
        blueprint["P"] = {"global": opts_to_component_fields(b["pg"]),
                          "stages": {int(s): opts_to_component_fields(x) for s, x in b["ps"].items()}}
    flowir = {
        "platforms": list(case["platforms"]),
        "variables": variables, "blueprint": blueprint,
        "environments": copy.deepcopy(case["envs"]),
        "components": comps,
        "status-report": {int(s): copy.deepcopy(x) for s, x in case["status"].items()},
        "output": copy.deepcopy(case["output"]),
        "application-dependencies": {"default": list(case.get("appdeps", []))},
        "virtual-environments": {"default": list(case.get("venvs", []))},
    }
    return flowir


# --------------------------------------------------------------------------------------------------------------
# rendering 2: a hand-written legacy package (this module's own INI writer)
def _ini_value(value) -> str:
    if isinstance(value, bool):
        return "true" if value else "false"
    if isinstance(value, list):
        return " ".join(str(v) for v in value)
    return str(value)


def _ini(sections: List[Tuple[str, Dict[str, Any]]]) -> str:
    lines = []
    for name, opts in sections:
        lines.append("[%s]" % name)
        for k, v in opts.items():
            text_value = _ini_value(v).replace("\n", "\n\t")
            lines.append("%s = %s" % (k, text_value) if text_value != "" else "%s =" % k)
        lines.append("")
    return "\n".join(lines) + "\n"


def _merge(*dicts):
    out = {}
    for d in dicts:
        out.update(d)
    return out


def to_legacy_package(case) -> Dict[str, str]:
    files = {}
    v, b = case["vars"], case["blue"]
    nstages = 1 + max(c["stage"] for c in case["components"])

    def env_file(platform):
        sections = []
        sandbox = {}
        if platform == "default":
            if case.get("appdeps"):
                sandbox["applications"] = ",".join(case["appdeps"])
            if case.get("venvs"):
                sandbox["virtualenvs"] = ",".join(case["venvs"])
        if sandbox:
            sections.append(("SANDBOX", sandbox))
        for name, content in case["envs"].get(platform, {}).items():
            sections.append(("ENV-%s" % name.upper(), content))
        return _ini(sections)

    def var_file(g, s, bg, bs):
        sections = [("GLOBAL", _merge(g, bg))]
        for idx in range(nstages):
            merged = _merge(s.get(str(idx), {}), bs.get(str(idx), {}))
            if merged:
                sections.append(("STAGE%d" % idx, merged))
        return _ini(sections)

    files["experiment.conf"] = env_file("default")
    files["variables.conf"] = var_file(v["dg"], v["ds"], b["dg"], b["ds"])
    if "P" in case["platforms"]:
        files["experiment.P.conf"] = env_file("P")
        files["variables.d/P.conf"] = var_file(v["pg"], v["ps"], b["pg"], b["ps"])
    for idx in range(nstages):
        sections = []
        for c in case["components"]:
            if c["stage"] == idx:
                sections.append((c["name"], _merge(c.get("vars", {}), c["opts"])))
        files["stages.d/stage%d.conf" % idx] = _ini(sections)
    status = []
    for s in sorted(case["status"], key=int):
        status.append(("STAGE%s" % s, case["status"][s]))
    files["status.conf"] = _ini(status)
    out = []
    for name, e in case["output"].items():
        e = dict(e)
        if "stages" in e:
            e["stages"] = ",".join("stage%d" % i for i in e["stages"])
        out.append((name, e))
    files["output.conf"] = _ini(out)
    return files


# --------------------------------------------------------------------------------------------------------------
# deterministic sweep: one minimal case per key of the table and mode (guarantees coverage of the whole table)
def sweep_cases(modes=("full", "sparse", "pkgdump", "legacy")):
    base_vars = {"gv": "g", "numberPoints": "3", "myBool": "false", "backendLocal": "local", "TimeLimit_s": "0.5",
                 "mem-gi": "2", "defaultQ": "normal", "Zero0": "0"}
    for key in KEYS:
        for mode in modes:
            opts = {key: copy.deepcopy(TABLE[key][3])}
            if key != "interpreter":
                opts.setdefault("executable", "echo")
            else:
                opts["arguments"] = "echo hello"
            yield {"mode": mode, "platform": "default", "platforms": ["default"],
                   "vars": {"dg": dict(base_vars), "ds": {}, "pg": {}, "ps": {}},
                   "blue": {"dg": {}, "ds": {}, "pg": {}, "ps": {}},
                   "envs": {"default": {"mpi": {"PATH": "/opt/mpi/bin:$PATH"}}},
                   "components": [{"name": "Comp", "stage": 0, "opts": opts, "vars": {}}],
                   "status": {}, "output": {}, "appdeps": [], "venvs": []}
