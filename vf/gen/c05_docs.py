"""C05 generator: abstract DoWhile workflows (plain JSON-able dicts) and their rendering as FlowIR documents.

The abstract case (everything the reference model in vf/model/c05_dowhile.py needs):

  S       import stage of the DoWhile document (stage of the component carrying `$import`)
  outer   [{name, stage}]                    producers outside the loop (stage <= S), never replicated
  binds   [{name, type, src, sfile, loop}]   inputBindings; value = reference to outer[src] (optional file `sfile`);
                                             loop = None | {to: <loop idx>, file} = loopBindings entry
  loop    [{name, ls, uses, replicate, aggregate}]   looped components, `ls` = stage inside the document
            uses: {"b": bind idx, "file"} | {"c": loop idx, "method", "file", "abs"}
  cond    {c: loop idx, file, abs}           the condition reference (always :output)
  cons    [{name, stage, uses, aggregate}]   consumers outside the loop; uses: {"c","method","file","abs"}
  k       number of further iterations to instantiate

Names are letters only (replica indices / iteration prefixes are the only digits), well separated: confusable names are
the business of other properties. Everything is built by construction (no filtering).
"""
from __future__ import annotations

import json

from hypothesis import strategies as st

LOOP_NAMES = ["gen", "work", "acc", "check", "tail"]
OUTER_NAMES = ["srcA", "srcB", "srcC"]
BIND_NAMES = ["carried", "by"]      # one longer, one shorter than every looped component name
CONS_NAMES = ["repA", "repB"]
FILES = [None, None, "d.txt", "sub/e.dat"]
METHODS_IN = ["ref", "output", "copy"]
METHODS_OUT = ["ref", "output", "copy", "loopref", "loopoutput"]


# ------------------------------------------------------------------------------------------------------------
# replication facts of the *template* (depend only on intra-loop references; mirrored by the model module)
def propagating(loop):
    """-> list[int]: replica count a component hands to its (non aggregating) consumers, 0 = none."""
    out = []
    for comp in loop:
        n = comp.get("replicate") or 0
        for u in comp["uses"]:
            if "c" in u and out[u["c"]]:
                n = out[u["c"]]
        out.append(0 if comp.get("aggregate") else n)
    return out


def replicas(loop):
    """-> list[int]: number of replicas a component is split into, 0 = not replicated (single node)."""
    prop = propagating(loop)
    out = []
    for j, comp in enumerate(loop):
        n = comp.get("replicate") or 0
        for u in comp["uses"]:
            if "c" in u and prop[u["c"]]:
                n = prop[u["c"]]
        out.append(0 if comp.get("aggregate") else n)
    return out


@st.composite
def dowhile_case(draw, kmax=13, kmin_bias=12, two_stage=True, allow_same_names=True, max_S=2, allow_reload=True):
    S = draw(st.integers(0, max_S))
    # every stage below the import stage needs a component (stages are contiguous); one more producer anywhere <= S
    outer = [{"name": OUTER_NAMES[s], "stage": s} for s in range(S)]
    if not outer or draw(st.booleans()):
        outer.append({"name": OUTER_NAMES[len(outer)], "stage": draw(st.integers(0, S))})
    n_outer = len(outer)

    n_loop = draw(st.integers(1, 4))
    stages = sorted(draw(st.lists(st.integers(0, 1 if two_stage else 0), min_size=n_loop, max_size=n_loop)))
    stages[0] = 0
    names = list(draw(st.permutations(LOOP_NAMES)))[:n_loop]
    rep_n = draw(st.sampled_from([0, 0, 1, 2, 3]))
    if allow_same_names and n_loop >= 2 and stages[-1] == 1 and draw(st.integers(0, 4)) == 0:
        # the same component name in both loop stages (component ids are (stage, name) pairs); without replication,
        # the textual expansion of replicated references to namesakes is not this property's business
        first_late = stages.index(1)
        names[first_late] = names[draw(st.integers(0, first_late - 1))]
        rep_n = 0

    # bindings have pairwise different methods, so that no component ever holds the same reference twice
    n_bind = draw(st.integers(0, 2))
    types = list(draw(st.permutations(METHODS_IN)))
    binds = []
    for i in range(n_bind):
        binds.append({"name": BIND_NAMES[i], "type": types[i],
                      "src": draw(st.integers(0, n_outer - 1)), "sfile": None, "loop": None})

    rep_at = draw(st.integers(0, n_loop - 1))
    loop = []
    for j in range(n_loop):
        uses = []
        for i in range(j):
            if draw(st.integers(0, 2)) == 0 or (i == j - 1 and draw(st.booleans())):
                same_stage = stages[i] == stages[j]
                uses.append({"c": i, "method": draw(st.sampled_from(METHODS_IN)), "file": draw(st.sampled_from(FILES)),
                             "abs": True if not same_stage else draw(st.booleans())})
        comp = {"name": names[j], "ls": stages[j], "uses": uses, "replicate": rep_n if (rep_n and j == rep_at) else None,
                "aggregate": False}
        loop.append(comp)
        # an aggregating component needs a replicated producer
        if any(propagating(loop)[u["c"]] for u in uses) and draw(st.integers(0, 2)) == 0:
            comp["aggregate"] = True
    if all(replicas(loop)):
        # keep at least one non-replicated component (the condition needs one): the last one aggregates, or, if it
        # has no replicated producer, nothing is replicated
        if any(propagating(loop)[u["c"]] for u in loop[-1]["uses"]):
            loop[-1]["aggregate"] = True
        else:
            for comp in loop:
                comp["replicate"] = None
    # same-name components in two stages: a relative reference `name:m` from the later stage would denote the
    # later-stage namesake, so spell references to duplicated names absolutely
    for comp in loop:
        for u in comp["uses"]:
            if [c["name"] for c in loop].count(loop[u["c"]]["name"]) > 1:
                u["abs"] = True

    # who consumes which binding (every binding is used at least once)
    reps = replicas(loop)
    for bi, b in enumerate(binds):
        users = [j for j in range(n_loop) if draw(st.integers(0, 2)) == 0]
        if not users:
            users = [draw(st.integers(0, n_loop - 1))]
        ufile = draw(st.sampled_from(FILES))
        for j in users:
            loop[j]["uses"].append({"b": bi, "file": ufile})
        if ufile is None:
            b["sfile"] = draw(st.sampled_from(FILES))
        # loop-carried?  The producer of a loopBinding is a non-replicated (plain or aggregating) component:
        # instantiate_dowhile_next_iteration looks the producer up among the *replicated* component names, so a
        # replicated producer is rejected by the code (FlowIRReferenceToUnknownComponent) - outside the domain.
        if draw(st.integers(0, 3)) != 0:
            ok = [t for t in range(n_loop) if not reps[t]]
            if ok:
                t = ok[draw(st.integers(0, len(ok) - 1))]
                b["loop"] = {"to": t, "file": None if ufile is not None else draw(st.sampled_from(FILES)),
                             "abs": draw(st.booleans()) if loop[t]["ls"] == 0 else True}
    # motif: one component reads looped component X directly AND, later on the same command line, a loop-carried binding
    # that X feeds, both with the same method (the binding's text `stageN.<i-1>#X:m` then contains the direct `X:m`)
    if binds and draw(st.integers(0, 5)) == 0:
        bi = 0 if draw(st.integers(0, 2)) else draw(st.integers(0, len(binds) - 1))   # mostly the long-named binding
        b = binds[bi]
        cand = [(t, j) for t in range(n_loop) for j in range(t + 1, n_loop)
                if not reps[t] and stages[t] == stages[j] and names.count(names[t]) == 1]
        if cand:
            t, j = cand[draw(st.integers(0, len(cand) - 1))]
            b["loop"] = {"to": t, "file": None, "abs": draw(st.booleans()) if loop[t]["ls"] == 0 else True}
            for comp in loop:
                for u in comp["uses"]:
                    if u.get("b") == bi:
                        u["file"] = None
            rest = [u for u in loop[j]["uses"] if u.get("c") != t and u.get("b") != bi]
            loop[j]["uses"] = [{"c": t, "method": b["type"], "file": None, "abs": False}] + rest + [{"b": bi, "file": None}]
    # the condition must come from a non-replicated component (its name is matched literally)
    single = [j for j in range(n_loop) if not replicas(loop)[j]]
    cond_c = single[draw(st.integers(0, len(single) - 1))]
    cond = {"c": cond_c, "file": draw(st.sampled_from([None, "next.txt", "flags/go"])),
            "abs": draw(st.booleans()) if loop[cond_c]["ls"] == 0 else True}
    if [c["name"] for c in loop].count(loop[cond_c]["name"]) > 1:
        cond["abs"] = True

    n_cons = draw(st.integers(1, 2))
    cons = []
    for i in range(n_cons):
        targets = draw(st.lists(st.integers(0, n_loop - 1), min_size=1, max_size=2, unique=True))
        min_stage = S + max(loop[t]["ls"] for t in targets)
        stage = min_stage + draw(st.integers(0, 1))
        uses = []
        for t in targets:
            # (the package validator only accepts the absolute spelling for references to placeholders)
            uses.append({"c": t, "method": draw(st.sampled_from(METHODS_OUT)), "file": draw(st.sampled_from(FILES)),
                         "abs": True})
        prop = propagating(loop)
        agg = any(prop[u["c"]] for u in uses) and draw(st.integers(0, 2)) == 0
        cons.append({"name": CONS_NAMES[i], "stage": stage, "uses": uses, "aggregate": agg})

    k = draw(st.one_of(st.integers(0, kmax), st.integers(min(kmin_bias, kmax), kmax)))
    # optionally the instance is loaded again from disk after `reload_at` iterations (a restart), then unrolled further
    reload_at = draw(st.one_of(st.none(), st.integers(0, k), st.integers(min(10, k), k))) if allow_reload else None
    return {"S": S, "outer": outer, "binds": binds, "loop": loop, "cond": cond, "cons": cons, "k": k,
            "reload_at": reload_at}


# ------------------------------------------------------------------------------------------------------------
# rendering (text of the two documents). Kept apart from the model: the model never reads these strings.
def _ref(name, stage, file, method, absolute=True):
    s = ("stage%d.%s" % (stage, name)) if absolute else name
    if file:
        s += "/" + file
    return "%s:%s" % (s, method)


def _args(refs):
    """:copy references are staged into the working directory, they may not appear on the command line"""
    return " ".join(r for r in refs if not r.endswith(":copy")) or "none"


def render(case):
    """-> (main flowir dict, dowhile document dict) for a single-loop case"""
    main, docs = render_many([case])
    return main, docs["dowhile.yaml"]


def import_name(case):
    return "theloop" + case.get("tag", "")


def render_many(cases):
    """-> (main flowir dict, {file name under conf/: DoWhile document dict}); one `$import` component per case"""
    comps, docs = [], {}
    for case in cases:
        c, doc = _render_one(case)
        fname = "dowhile%s.yaml" % case.get("tag", "")
        for x in c:
            if "$import" in x:
                x["$import"] = fname
        comps.extend(c)
        docs[fname] = doc
    return {"components": comps}, docs


def _render_one(case):
    S = case["S"]
    loop = case["loop"]
    binds = case["binds"]
    comps = []
    for o in case["outer"]:
        comps.append({"name": o["name"], "stage": o["stage"],
                      "command": {"executable": "echo", "arguments": o["name"]}})
    bindings = {}
    for b in binds:
        o = case["outer"][b["src"]]
        bindings[b["name"]] = _ref(o["name"], o["stage"], b["sfile"], b["type"])
    comps.append({"name": import_name(case), "stage": S, "$import": "dowhile.yaml", "bindings": bindings})
    for c in case["cons"]:
        refs = []
        for u in c["uses"]:
            t = loop[u["c"]]
            refs.append(_ref(t["name"], S + t["ls"], u["file"], u["method"], u["abs"]))
        comp = {"name": c["name"], "stage": c["stage"], "references": refs,
                "command": {"executable": "echo", "arguments": _args(refs)}}
        if c.get("aggregate"):
            comp["workflowAttributes"] = {"aggregate": True}
        comps.append(comp)

    dw_comps = []
    for comp in loop:
        refs = []
        for u in comp["uses"]:
            if "c" in u:
                t = loop[u["c"]]
                refs.append(_ref(t["name"], t["ls"], u["file"], u["method"], u["abs"]))
            else:
                b = binds[u["b"]]
                refs.append(_ref(b["name"], 0, u["file"], b["type"], False))
        d = {"name": comp["name"], "command": {"executable": "echo", "arguments": _args(refs)},
             "references": refs}
        if comp["ls"]:
            d["stage"] = comp["ls"]
        wa = {}
        if comp.get("replicate"):
            wa["replicate"] = comp["replicate"]
        if comp.get("aggregate"):
            wa["aggregate"] = True
        if wa:
            d["workflowAttributes"] = wa
        dw_comps.append(d)
    cc = loop[case["cond"]["c"]]
    doc = {"type": "DoWhile",
           "inputBindings": {b["name"]: {"type": b["type"]} for b in binds},
           "loopBindings": {b["name"]: _ref(loop[b["loop"]["to"]]["name"], loop[b["loop"]["to"]]["ls"],
                                            b["loop"]["file"], b["type"], b["loop"]["abs"])
                            for b in binds if b["loop"]},
           "condition": _ref(cc["name"], cc["ls"], case["cond"]["file"], "output", case["cond"]["abs"]),
           "components": dw_comps}
    return comps, doc


# ------------------------------------------------------------------------------------------------------------
# two DoWhile documents in one workflow, iterated in an interleaved order
def _shift(case, d, suffix, tag):
    c = json.loads(json.dumps(case))
    c["S"] += d
    for o in c["outer"]:
        o["stage"] += d
        o["name"] += suffix
    for x in c["cons"]:
        x["stage"] += d
        x["name"] += suffix
    c["tag"] = tag
    c.pop("k", None)
    c.pop("reload_at", None)
    return c


@st.composite
def two_loops_case(draw, kmax=12, total=16):
    a = draw(dowhile_case(kmax=0, max_S=1))
    reuse = draw(st.booleans())
    b = draw(dowhile_case(kmax=0, max_S=1))
    if reuse:
        # the same DoWhile document imported a second time (own import stage, producers and consumers)
        S_b = b["S"]
        b = json.loads(json.dumps(a))
        b["S"] = S_b
        b["outer"] = [{"name": OUTER_NAMES[s], "stage": s} for s in range(S_b)] or [{"name": OUTER_NAMES[0], "stage": 0}]
        for x in b["binds"]:
            x["src"] = min(x["src"], len(b["outer"]) - 1)
        for x in b["cons"]:
            x["stage"] = S_b + max(b["loop"][u["c"]]["ls"] for u in x["uses"]) + draw(st.integers(0, 1))
    # the second loop lives in stages after the looped stages of the first one (component ids stay unique)
    d = a["S"] + max(c["ls"] for c in a["loop"]) + 1
    a = _shift(a, 0, "", "A")
    b = _shift(b, d, "x", "B")
    pattern = draw(st.sampled_from(["ab", "ba", "alt", "mix", "restart", "restart"]))
    small = st.integers(0, 3)
    ka = draw(st.one_of(small, st.integers(0, kmax), st.integers(min(10, kmax), kmax)))
    kb = draw(st.one_of(small, st.integers(0, kmax)))
    kb = max(min(kb, total - ka), 1 if pattern == "restart" else 0)
    if pattern == "ab":
        steps = [0] * ka + [1] * kb
    elif pattern == "restart":
        # the controller is (re)started at the import stage of the second loop once the first loop is over
        # (step 2): placeholders of earlier stages are marked as finished, see Controller.initialise
        steps = [0] * ka + [2] + [1] * kb
    elif pattern == "ba":
        steps = [1] * kb + [0] * ka
    elif pattern == "alt":
        steps = []
        for i in range(max(ka, kb)):
            steps += ([0] if i < ka else []) + ([1] if i < kb else [])
    else:
        steps = list(draw(st.permutations([0] * ka + [1] * kb)))
    return {"loops": [a, b], "steps": steps, "reuse": reuse}
