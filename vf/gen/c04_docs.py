"""C04 generator: abstract layered-configuration cases and their rendering as FlowIR + user-variable file.

Case (plain JSON):
  {"platform": "default"|"P",            selected platform (Q is always declared, never selected)
   "nstages": 1|2, "stage": 0|1,         stage of the probe component; with 2 stages a `filler` lives in the other one
   "sibling": bool,                      a second component `sib` in the probe's stage (no own variables/options)
   "user": "none"|"file",                whether a user variable file is supplied (ug/us/usx layers)
   "active": "same"|"default"|"Q",       active platform of the FlowIRConcrete (platform P is then passed explicitly)
   "warm": [platforms queried first],
   "vars": {name: {layer: value}},       layers: see vf/model/c04_layering.py
   "opts": {option.path: {layer: value}}}

Variable names carry their kind (s=free string, i=int-like, f=float-like, b=bool-like) and an index; the value of
variable k references only variables with a larger index (acyclic by construction).
"""
from __future__ import annotations

import copy

from hypothesis import strategies as st

from ..model import c04_layering as M

PLATFORMS = ["default", "P", "Q"]
LAYER_NO = {layer: i for i, layer in enumerate(M.VAR_LAYERS)}

# options offered to the generators; `pkg` = also used for on-disk packages (schema-valid, harmless at load time)
OPTIONS = [
    ("command.arguments", True),
    ("command.executable", True),
    ("command.resolvePath", True),
    ("command.expandArguments", True),
    ("workflowAttributes.maxRestarts", True),
    ("workflowAttributes.repeatRetries", True),
    ("workflowAttributes.isMigratable", False),
    ("workflowAttributes.optimizer.exploitChance", True),
    ("workflowAttributes.optimizer.exploitTarget", True),
    ("resourceRequest.numberProcesses", True),
    ("resourceRequest.numberThreads", True),
    ("resourceRequest.ranksPerNode", True),
    ("resourceRequest.threadsPerCore", True),
    ("resourceRequest.gpus", True),
    ("resourceRequest.memory", True),
    ("resourceManager.config.walltime", True),
    ("resourceManager.lsf.queue", True),
    ("resourceManager.lsf.resourceString", True),
    ("resourceManager.lsf.statusRequestInterval", True),
    ("resourceManager.kubernetes.namespace", True),
    ("resourceManager.kubernetes.image", True),
    ("resourceManager.kubernetes.gracePeriod", True),
    ("resourceManager.kubernetes.cpuUnitsPerCore", True),
    ("resourceManager.docker.image", True),
]
UNDEFINED_NAME = "zz9"


# ------------------------------------------------------------------------------------------------------------
# layers available to a case
def var_layers(case):
    out = ["dg", "ds", "pg", "ps", "c", "o", "od", "qg", "qs", "oq"]
    if case["user"] != "none":
        out += ["ug", "us"]
    if case["nstages"] == 2:
        out += ["dsx", "psx", "qsx"] + (["usx"] if case["user"] != "none" else [])
    return out


def opt_layers(case):
    out = ["dg", "ds", "pg", "ps", "c", "o", "od", "qg", "qs", "oq"]
    if case["nstages"] == 2:
        out += ["dsx", "psx", "qsx"]
    return out


# ------------------------------------------------------------------------------------------------------------
# values
def _ref(name):
    return "%%(%s)s" % name


@st.composite
def var_value(draw, kind, k, layer, higher):
    """A value for variable number k of `kind` in `layer`; `higher` = [(name, kind)] of referable variables."""
    n = LAYER_NO[layer]
    tag = "%s%d" % (layer, k)
    same = [nm for nm, kd in higher if kd == kind]
    ints = [nm for nm, kd in higher if kd == "i"]
    if kind == "s":
        form = draw(st.sampled_from(["lit", "ref", "ref", "ref", "ref2"])) if higher else "lit"
        if form == "lit":
            # values are substituted verbatim: backslashes (regular expressions, printf formats, Windows paths) included
            return tag + draw(st.sampled_from(["", "", "", "", "\\d+", "\\\\srv\\x", "_\\n_\\t", "\\1", "\\g<0>"]))
        a = draw(st.sampled_from(higher))[0]
        if form == "ref":
            return draw(st.sampled_from([tag + "-" + _ref(a), _ref(a) + "-" + tag, _ref(a)]))
        b = draw(st.sampled_from(higher))[0]
        return "%s %s/%s" % (_ref(a), tag, _ref(b))
    if kind == "i":
        base = 10 * (n + 1) + k
        form = draw(st.sampled_from(["int", "int", "str", "ref", "cat"])) if same else draw(st.sampled_from(["int", "str"]))
        if form == "int":
            return base
        if form == "str":
            return str(base)
        a = draw(st.sampled_from(same))
        return _ref(a) if form == "ref" else "%d%s" % (n + 1, _ref(a))
    if kind == "f":
        base = (n + 1) + draw(st.sampled_from([0.5, 0.25, 0.75]))
        opts = ["float", "float", "str"] + (["ref"] if same or ints else [])
        form = draw(st.sampled_from(opts))
        if form == "float":
            return base
        if form == "str":
            return repr(base)
        return _ref(draw(st.sampled_from(same + ints)))
    if kind == "b":
        form = draw(st.sampled_from(["bool", "word"] + (["ref"] if same else [])))
        if form == "bool":
            return draw(st.booleans())
        if form == "word":
            return draw(st.sampled_from(["yes", "no", "true", "false", "True", "False"]))
        return _ref(draw(st.sampled_from(same)))
    raise AssertionError(kind)


@st.composite
def opt_value(draw, option, layer, variables, for_package):
    """A schema-valid value of `option` for `layer`; variables = [(name, kind)]."""
    kind = M.OPTION_TYPES[option]
    n = LAYER_NO[layer]
    any_v = [nm for nm, _ in variables]
    ints = [nm for nm, kd in variables if kd == "i"]
    floats = [nm for nm, kd in variables if kd == "f"]
    bools = [nm for nm, kd in variables if kd == "b"]
    if option == "command.expandArguments":
        return ["double-quote", "none"][n % 2]
    if option == "command.executable":
        # no spaces, looks like a path
        if any_v and draw(st.booleans()):
            free = [nm for nm, kd in variables if kd in "si"]
            if free:
                return "/bin/%s-%s" % (layer, _ref(draw(st.sampled_from(free))))
        return "/bin/exe-%s" % layer
    if kind == "str":
        form = draw(st.sampled_from(["lit", "ref", "ref", "ref2", "blank"])) if any_v else \
            draw(st.sampled_from(["lit", "lit", "lit", "blank"]))
        tag = "%s-%s" % (option.split(".")[-1][:3], layer)
        if form == "blank":
            # an explicitly empty string is a value: it overrides whatever lower layers define
            return ""
        if form == "lit":
            return tag
        a = draw(st.sampled_from(any_v))
        if form == "ref":
            return draw(st.sampled_from([tag + " " + _ref(a), _ref(a) + "_" + tag, _ref(a)]))
        return "%s %s %s" % (_ref(a), tag, _ref(draw(st.sampled_from(any_v))))
    if kind == "int":
        lo = 1 if option.startswith("resourceRequest") else 0
        form = draw(st.sampled_from(["int", "ref", "cat"])) if ints else "int"
        if form == "int":
            return lo + n
        a = draw(st.sampled_from(ints))
        return _ref(a) if form == "ref" else "%d%s" % (n + 1, _ref(a))
    if kind == "float":
        form = draw(st.sampled_from(["float", "int", "ref"])) if (floats or ints) else draw(st.sampled_from(["float", "int"]))
        if option.startswith("workflowAttributes.optimizer") and form == "int":
            form = "float"                       # the package schema wants a float or a reference there
        if form == "float":
            return (n + 1) + 0.5
        if form == "int":
            return n + 1
        return _ref(draw(st.sampled_from(floats + ints)))
    if kind in ("flag", "bool"):
        if bools and draw(st.booleans()):
            return _ref(draw(st.sampled_from(bools)))
        return draw(st.booleans())
    if kind == "memory":
        form = draw(st.sampled_from(["int", "Mi", "Gi"] + (["ref", "refMi"] if ints else [])))
        if form == "int":
            return 1000 + n
        if form in ("Mi", "Gi"):
            return "%d%s" % (n + 1, form)
        a = draw(st.sampled_from(ints))
        return _ref(a) if form == "ref" else _ref(a) + "Mi"
    raise AssertionError(option)


def references_in(value):
    return M.REF.findall(value) if isinstance(value, str) else []


# ------------------------------------------------------------------------------------------------------------
@st.composite
def layered_case(draw, for_package=False, max_vars=5, max_opts=4):
    case = {
        "platform": draw(st.sampled_from(["default", "P", "P"])),
        "nstages": draw(st.sampled_from([1, 2])),
        "sibling": draw(st.booleans()),
        "user": "file" if for_package else draw(st.sampled_from(["none", "file", "file"])),
    }
    if for_package and draw(st.integers(0, 5)) == 0:
        case["user"] = "none"
    case["stage"] = draw(st.integers(0, case["nstages"] - 1))
    if for_package:
        case["plat_none"] = draw(st.booleans())
    else:
        case["active"] = draw(st.sampled_from(["same", "same", "default", "Q"]))
        case["warm"] = draw(st.lists(st.sampled_from(PLATFORMS), max_size=2))
    vlayers = var_layers(case)
    olayers = opt_layers(case)

    nvars = draw(st.integers(1, max_vars))
    kinds = [draw(st.sampled_from(["s", "s", "s", "i", "i", "f", "b"])) for _ in range(nvars)]
    names = [(kinds[k] + str(k), kinds[k]) for k in range(nvars)]
    focus = draw(st.sampled_from(["spread", "spread", "dense", "sparse"]))
    max_layers = {"spread": 5, "dense": len(vlayers), "sparse": 2}[focus]
    variables = {}
    for k, (name, kind) in enumerate(names):
        layers = draw(st.lists(st.sampled_from(vlayers), min_size=0 if k else 1, max_size=max_layers, unique=True))
        variables[name] = {layer: draw(var_value(kind, k, layer, names[k + 1:])) for layer in sorted(layers, key=LAYER_NO.get)}

    pool = [o for o, pkg_ok in OPTIONS if pkg_ok or not for_package]
    chosen = draw(st.lists(st.sampled_from(pool), min_size=1, max_size=max_opts, unique=True))
    opts = {}
    for option in chosen:
        layers = draw(st.lists(st.sampled_from(olayers), min_size=0, max_size=max_layers, unique=True))
        opts[option] = {layer: draw(opt_value(option, layer, names, for_package))
                        for layer in sorted(layers, key=LAYER_NO.get)}

    dangling = draw(st.integers(0, 3)) == 0
    if dangling:
        if draw(st.booleans()):
            # an explicit reference to a name no layer defines
            target = draw(st.sampled_from(sorted(variables)))
            if target[0] == "s" and variables[target]:
                layer = draw(st.sampled_from(sorted(variables[target])))
                variables[target][layer] = "%s-%s" % (layer, _ref(UNDEFINED_NAME))
    else:
        # make every referenced variable defined for every component of the document (by construction, not by
        # filtering): add a definition in a layer that is active for all components on every platform
        # (an on-disk package is validated on its own before user variables are applied, hence only `dg` there)
        anchor_layers = ["dg"]
        if not for_package:
            # enough for the probe; sibling / filler may then legitimately fail
            anchor_layers += ["ds", "c"] + (["ug"] if case["user"] != "none" else [])
        referenced = set()
        for defs in list(variables.values()) + list(opts.values()):
            for value in defs.values():
                referenced.update(references_in(value))
        everywhere = {"dg"}
        for k, (name, kind) in enumerate(names):
            if name in referenced:
                need = everywhere if for_package else set(M.active_var_layers(case["platform"], case["user"] != "none"))
                if not (need & set(variables[name])):
                    layer = draw(st.sampled_from(anchor_layers))
                    variables[name][layer] = draw(var_value(kind, k, layer, []))
    if for_package:
        # a loadable package needs an executable for the probe on the selected platform
        ex = opts.get("command.executable")
        if ex is not None and not (set(M.active_opt_layers(case["platform"])) & set(ex)):
            ex["dg"] = "/bin/exe-dg"
    case["vars"] = variables
    case["opts"] = opts
    if case.get("sibling") and variables and draw(st.booleans()):
        # the sibling privately defines some of the names the probe uses (also names the probe does not define at all):
        # a component's private variables are nobody else's layer
        names = sorted(variables)
        picked = draw(st.lists(st.sampled_from(names), min_size=1, max_size=min(3, len(names)), unique=True))
        # preferably a name that one of the probe's OWN (component-level) variables refers to and that the probe
        # inherits from a lower layer: exactly where a sibling's private value must not show up
        inherited = sorted({r for defs in variables.values() if "c" in defs for r in references_in(defs["c"])
                            if r in variables and "c" not in variables[r]})
        if inherited:
            extra = draw(st.sampled_from(inherited))
            if extra not in picked:
                picked.append(extra)
        priv = {"s": "sibpriv-%s", "i": 4242, "f": 42.5, "b": "yes"}
        case["sib_vars"] = {n: (priv[n[0]] % n if n[0] == "s" else priv.get(n[0], "sibpriv-%s" % n)) for n in picked}
        # ... and may itself refer to a name that the PROBE defines privately (the leak can go either way, depending on
        # which of the two components is resolved first)
        order = sorted(variables, key=lambda nm: int(nm[1:]))
        for n in picked:
            later = [m for m in order[order.index(n) + 1:] if m[0] == "s" and "c" in variables.get(m, {})]
            if n[0] == "s" and later and draw(st.booleans()):
                case["sib_vars"][n] = "sibpriv-%s-%s" % (n, _ref(draw(st.sampled_from(later))))
    return case


# ------------------------------------------------------------------------------------------------------------
# component views of one case (each is itself a case for the model)
def components_of(case):
    out = ["probe"]
    if case.get("sibling"):
        out.append("sib")
    if case["nstages"] == 2:
        out.append("filler")
    return out


def view(case, comp):
    """The case as seen by component `comp`: which definitions sit in which of *its* layers."""
    if comp == "probe":
        return case
    v = copy.deepcopy(case)
    v["all_vars"] = copy.deepcopy(case["vars"])      # for diagnostics only: where else a name is defined
    own_args = {"sib": "sib", "filler": "fil"}[comp]
    if comp == "sib":
        drop = ("c", "o", "od", "oq")
        ren = {}
    else:
        drop = ("c", "o", "od", "oq", "ds", "ps", "us", "qs")
        ren = {"dsx": "ds", "psx": "ps", "usx": "us", "qsx": "qs"}
    for section in ("vars", "opts"):
        for key, defs in v[section].items():
            new = {}
            for layer, value in defs.items():
                if layer in ren:
                    new[ren[layer]] = value
                elif layer not in drop and not layer.endswith("x"):
                    new[layer] = value
            v[section][key] = new
    # what the rendered helper component itself defines
    if comp == "sib":
        for name, value in (case.get("sib_vars") or {}).items():
            v["vars"].setdefault(name, {})["c"] = value          # the sibling's private variables: its own layer only
    v["opts"].setdefault("command.executable", {})["c"] = "/bin/echo"
    v["opts"].setdefault("command.arguments", {})["c"] = own_args
    return v


# ------------------------------------------------------------------------------------------------------------
# rendering
def _nest(into, path, value):
    keys = path.split(".")
    for key in keys[:-1]:
        into = into.setdefault(key, {})
    into[keys[-1]] = value


def render(case):
    """-> (flowir document, user variables document or None)"""
    s = case["stage"]
    x = 1 - s if case["nstages"] == 2 else None
    variables, blueprint = {}, {}
    probe = {"name": "probe", "stage": s}
    user = {}

    def var_home(layer):
        plat = {"d": "default", "p": "P", "q": "Q"}.get(layer[0])
        if layer in ("dg", "pg", "qg"):
            return variables.setdefault(plat, {}).setdefault("global", {})
        if layer in ("ds", "ps", "qs"):
            return variables.setdefault(plat, {}).setdefault("stages", {}).setdefault(s, {})
        if layer in ("dsx", "psx", "qsx"):
            return variables.setdefault(plat, {}).setdefault("stages", {}).setdefault(x, {})
        if layer == "ug":
            return user.setdefault("global", {})
        if layer == "us":
            return user.setdefault("stages", {}).setdefault(s, {})
        if layer == "usx":
            return user.setdefault("stages", {}).setdefault(x, {})
        if layer == "c":
            return probe.setdefault("variables", {})
        plat = {"o": "P", "od": "default", "oq": "Q"}[layer]
        return probe.setdefault("override", {}).setdefault(plat, {}).setdefault("variables", {})

    def opt_home(layer):
        plat = {"d": "default", "p": "P", "q": "Q"}.get(layer[0])
        if layer in ("dg", "pg", "qg"):
            return blueprint.setdefault(plat, {}).setdefault("global", {})
        if layer in ("ds", "ps", "qs"):
            return blueprint.setdefault(plat, {}).setdefault("stages", {}).setdefault(s, {})
        if layer in ("dsx", "psx", "qsx"):
            return blueprint.setdefault(plat, {}).setdefault("stages", {}).setdefault(x, {})
        if layer == "c":
            return probe
        plat = {"o": "P", "od": "default", "oq": "Q"}[layer]
        return probe.setdefault("override", {}).setdefault(plat, {})

    for name in sorted(case["vars"]):
        for layer, value in case["vars"][name].items():
            var_home(layer)[name] = value
    for option in sorted(case["opts"]):
        for layer, value in case["opts"][option].items():
            _nest(opt_home(layer), option, value)
    if "command.executable" not in case["opts"]:
        probe.setdefault("command", {})["executable"] = "/bin/echo"

    components = [probe]
    if case.get("sibling"):
        components.append({"name": "sib", "stage": s, "command": {"executable": "/bin/echo", "arguments": "sib"}})
        if case.get("sib_vars"):
            components[-1]["variables"] = dict(case["sib_vars"])
    if x is not None:
        components.append({"name": "filler", "stage": x, "command": {"executable": "/bin/echo", "arguments": "fil"}})
    components.sort(key=lambda c: (c["stage"], c["name"]))
    flowir = {"platforms": list(PLATFORMS), "components": components}
    if variables:
        flowir["variables"] = variables
    if blueprint:
        flowir["blueprint"] = blueprint
    return flowir, (user if case["user"] != "none" else None)


# ------------------------------------------------------------------------------------------------------------
# exhaustive single-key families
def mask_cases(kind, key, layers, value_of):
    """All define/omit masks of `key` over `layers`, for both platforms. kind = 'var' | 'opt'."""
    for platform in ("default", "P"):
        for mask in range(1 << len(layers)):
            chosen = [layer for i, layer in enumerate(layers) if mask >> i & 1]
            has_user = any(layer in M.USER_LAYERS for layer in layers)
            has_x = any(layer.endswith("x") for layer in layers)
            case = {"platform": platform, "nstages": 2 if has_x else 1, "stage": 0, "sibling": False,
                    "user": "file" if has_user else "none", "active": "same", "warm": [],
                    "vars": {}, "opts": {}}
            if kind == "var":
                case["vars"][key] = {layer: value_of(layer) for layer in chosen}
                case["opts"]["command.arguments"] = {"c": "a %s b" % _ref(key)}
            else:
                case["opts"][key] = {layer: value_of(layer) for layer in chosen}
            yield case
