"""C07 helper: packages with platforms, layered variables, blueprints, overrides, user variable files and an optional
DoWhile document, built on top of the shared abstract-workflow generator (`vf/gen/workflow.py`).

A case is a plain JSON-able dict:
  {"flowir":   the package FlowIR (dict; stage indices below a "stages" key are strings here, ints when written),
   "dowhile":  None | the DoWhile document imported by component `loop` (written to conf/dowhile.yaml),
   "files":    {relative path: content} extra package files (data/...),
   "platform": "default" | "P",
   "user_vars": [ {"global": {...}, "stages": {"<i>": {...}}}, ... ]   0-2 user variable files (disjoint names),
   "history":  [ ["patch", node selector, kind, value] | ["iter", store: bool] | ["cycle", update: bool] ... ]}

Construction rules that keep every generated package inside the domain the repository accepts:
  * every variable of the pool is defined in the default global scope, and a definition of pool name i (at any scope)
    refers only to pool names j > i: whatever way the scopes are layered, every reference resolves and there is no cycle;
  * literal text never contains '%', ':', '[' or blanks;
  * user variables only re-define pool names (the package has to be valid without them: it is validated on its own
    before the instance is created) and never the replication counters;
  * loop components have names that no generated outer component can have; bindings, loop bindings, the condition and
    outer consumers only use loop components that are not replicated.
"""
from __future__ import annotations

import copy
from typing import Dict, List, Optional

from hypothesis import strategies as st

from . import workflow as wf

PLATFORM = "P"
OTHER = "Q"
# Options patched at run time with setOptionForNode() live in the replicated in-memory description only; the stored
# (unreplicated) description deliberately does not carry them - tests/test_dowhile.py::test_graph_instantiate_next_iter
# asserts that the executable rewritten by checkExecutable() is back to its package value after an iteration - so a
# history with patches is outside C07's domain (lead's decision after reviewing the agent's `patched-option-lost-on-store`
# report; the comparison code for patches is kept but no patches are generated).
GENERATE_PATCHES = False

POOL = ["va", "vb", "v-c", "v_d"]          # ordered: a definition of POOL[i] may refer to POOL[j], j > i
NUMVAR = "vw"                               # always numeric, usable in typed fields (walltime)
LITERALS = ["x", "a-b", "7", "1.5", "lit_1", "p/q", "Z"]
LOOP_NAMES = ["Lwork", "Lnext", "Lcond"]
LOOP_IMPORT = "loop"
DATA_FILE = "data/d.txt"

# option menu for blueprints / platform overrides: (section, key, value). Typed options given as a variable reference
# are only generated on the component itself (blueprints / overrides do not convert them: a C04 matter, such packages
# are rejected when the instance is created).
ARG_METHODS = ("ref", "output")             # the only reference methods that may appear in a command line
OPTIONS = [
    ("command", "expandArguments", "none"),
    ("command", "resolvePath", False),
    ("resourceManager.config", "walltime", 30.0),
    ("resourceRequest", "numberThreads", 2),
    ("workflowAttributes", "maxRestarts", 2),
    ("workflowAttributes", "shutdownOn", ["KnownIssue"]),
]


def _set_path(d: dict, section: str, key: str, value):
    cur = d
    for p in section.split("."):
        cur = cur.setdefault(p, {})
    cur[key] = copy.deepcopy(value)


@st.composite
def _value(draw, idx: int):
    """A definition for POOL[idx]: scalar, literal or text with references to later pool names."""
    later = POOL[idx + 1:]
    kind = draw(st.sampled_from(["lit", "ref", "ref", "mix", "int", "float", "bool"] if later else
                                ["lit", "lit", "int", "float", "bool"]))
    if kind == "int":
        return draw(st.integers(0, 12))
    if kind == "float":
        return draw(st.sampled_from([0.5, 2.25, 10.0]))
    if kind == "bool":
        return draw(st.booleans())
    if kind == "lit":
        return draw(st.sampled_from(LITERALS))
    if kind == "ref":
        return "%%(%s)s" % draw(st.sampled_from(later))
    parts = []
    for _ in range(draw(st.integers(2, 3))):
        if draw(st.booleans()):
            parts.append("%%(%s)s" % draw(st.sampled_from(later)))
        else:
            parts.append(draw(st.sampled_from(LITERALS)))
    return draw(st.sampled_from(["-", "_", "/"])).join(parts)


@st.composite
def _scope(draw, p_define=3, with_num=True):
    """A (possibly empty) set of re-definitions of pool names."""
    out = {}
    for i, name in enumerate(POOL):
        if draw(st.integers(0, 9)) < p_define:
            out[name] = draw(_value(i))
    if with_num and draw(st.integers(0, 9)) < 2:
        out[NUMVAR] = draw(st.integers(10, 90))
    return out


@st.composite
def _options(draw, max_n=2):
    out = {}
    for sec, key, val in draw(st.lists(st.sampled_from(OPTIONS), max_size=max_n)):
        _set_path(out, sec, key, val)
    return out


@st.composite
def _arg_tokens(draw, extra_names=()):
    names = POOL + list(extra_names)
    toks = []
    for _ in range(draw(st.integers(0, 3))):
        ref = "%%(%s)s" % draw(st.sampled_from(names))
        form = draw(st.sampled_from(["bare", "bare", "pre", "opt"]))
        toks.append(ref if form == "bare" else ("k-" + ref if form == "pre" else "--o=" + ref))
    return toks


def _in_args(tokens):
    return [t for t in tokens if ":" not in t or t.rsplit(":", 1)[1] in ARG_METHODS]


def _append_args(comp: dict, toks: List[str]):
    toks = _in_args(toks)
    if toks:
        cmd = comp.setdefault("command", {})
        cmd["arguments"] = " ".join([t for t in [cmd.get("arguments", "")] if t] + list(toks))


@st.composite
def _loop(draw, W, nstages_outer: int):
    """-> (import component, DoWhile document, consumers {outer idx: reference}) or None."""
    comps = W["components"]
    rep = wf.replication(W)
    s_imp = draw(st.integers(0, nstages_outer))
    n = draw(st.integers(1, 3))
    names = LOOP_NAMES[:n]
    rel = [0]
    for _ in range(1, n):
        rel.append(min(1, rel[-1] + draw(st.integers(0, 1))))
    replicate_first = n >= 2 and draw(st.integers(0, 2)) == 0
    # binding to an outer producer that is not replicated
    producers = [i for i, c in enumerate(comps) if c["stage"] < s_imp and not (rep[i] and not c["aggregate"])]
    bind = draw(st.sampled_from(producers)) if producers and draw(st.integers(0, 3)) > 0 else None
    method = draw(st.sampled_from(["ref", "copy", "output"])) if bind is not None else None

    inner = []
    replicated = [False] * n
    for k in range(n):
        c = {"name": names[k], "stage": rel[k], "command": {"executable": "echo", "arguments": "it-%(loopIteration)s"}}
        refs = []
        if k == 0 and bind is not None:
            refs.append("inp/out.stdout:output" if method == "output" else "inp:%s" % method)
        if k > 0:
            p = draw(st.integers(0, k - 1)) if draw(st.booleans()) else k - 1
            m = draw(st.sampled_from(["ref", "copy", "link"]))
            spelled = "stage%d.%s" % (rel[p], names[p]) if (rel[p] != rel[k] or draw(st.booleans())) else names[p]
            refs.append("%s:%s" % (spelled, m))
            replicated[k] = replicated[p]
        wa = {}
        if k == 0 and replicate_first:
            wa["replicate"] = W["n"]
            replicated[0] = True
        if k > 0 and replicated[k]:
            # keep the replicated region inside the loop short: the first consumer aggregates
            wa["aggregate"] = True
            replicated[k] = False
        if draw(st.integers(0, 5)) == 0:
            wa["maxRestarts"] = 1
        if refs:
            c["references"] = refs
            _append_args(c, refs)
        if wa:
            c["workflowAttributes"] = wa
        _append_args(c, draw(_arg_tokens()))
        if draw(st.integers(0, 3)) == 0:
            c["variables"] = draw(_scope(p_define=2, with_num=False))
            if not c["variables"]:
                del c["variables"]
        inner.append(c)
    plain = [k for k in range(n) if not replicated[k]]
    if not plain:
        return None
    cond = draw(st.sampled_from(plain))
    doc = {"type": "DoWhile", "inputBindings": {}, "loopBindings": {},
           "condition": "stage%d.%s/next.txt:output" % (rel[cond], names[cond]), "components": inner}
    imp = {"name": LOOP_IMPORT, "stage": s_imp, "$import": "dowhile.yaml", "bindings": {}}
    if bind is not None:
        doc["inputBindings"]["inp"] = {"type": method}
        p = comps[bind]
        ref = "stage%d.%s" % (p["stage"], p["name"])
        imp["bindings"]["inp"] = ref + ("/out.stdout:output" if method == "output" else ":%s" % method)
        if draw(st.integers(0, 3)) > 0:
            lb = draw(st.sampled_from(plain))
            doc["loopBindings"]["inp"] = "stage%d.%s%s" % (rel[lb], names[lb],
                                                          "/out.stdout:output" if method == "output" else ":%s" % method)
    # outer consumers of the loop (through the placeholder name)
    consumers = {}
    for i, c in enumerate(comps):
        ok = [k for k in plain if s_imp + rel[k] <= c["stage"]]
        if ok and not c["aggregate"] and draw(st.integers(0, 2)) == 0:
            k = draw(st.sampled_from(ok))
            consumers[i] = "stage%d.%s:%s" % (s_imp + rel[k], names[k], draw(st.sampled_from(["ref", "copy"])))
    return imp, doc, consumers


@st.composite
def cases(draw, max_components=5, loops=True):
    names = draw(st.sampled_from(["simple", "simple", "confusable"]))
    W = draw(wf.workflows(max_components=max_components, max_stages=3, names=names,
                          methods=("ref", "ref", "copy", "link", "output"), allow_paths=True, allow_repeat=True,
                          allow_shutdown=True, replicate_via_vars=True))
    for c in W["components"]:
        for r in c["refs"]:
            # "You cannot copy a component directory in the same stage as a component"
            if r["method"] == "copy" and W["components"][r["p"]]["stage"] == c["stage"]:
                r["method"] = "link"
    F = wf.render(W)
    comps = F["components"]
    for c in comps:
        # render() puts every reference on the command line; only :ref / :output references may appear there
        c["command"]["arguments"] = " ".join(_in_args(c["command"]["arguments"].split()))
    nstages = max(c["stage"] for c in comps) + 1
    platform = draw(st.sampled_from(["default", PLATFORM, PLATFORM]))
    platforms = ["default", PLATFORM] + ([OTHER] if draw(st.integers(0, 3)) == 0 else [])
    F["platforms"] = platforms

    # -- DoWhile ------------------------------------------------------------------------------------
    dowhile = None
    loop_stage_span = []
    if loops and draw(st.integers(0, 9)) < 4:
        made = draw(_loop(W, nstages))
        if made is not None:
            imp, dowhile, consumers = made
            for i, ref in consumers.items():
                c = comps[i]
                c.setdefault("references", []).append(ref)
                _append_args(c, [ref])
            comps.append(imp)
            loop_stage_span = [imp["stage"] + k for k in sorted(set(c["stage"] for c in dowhile["components"]))]
    all_stages = sorted(set(range(nstages)) | set(loop_stage_span))

    # -- variables ------------------------------------------------------------------------------------
    variables = F.setdefault("variables", {})
    dflt = variables.setdefault("default", {})
    g = dflt.setdefault("global", {})
    for i, name in enumerate(POOL):
        g[name] = draw(_value(i))
    g[NUMVAR] = draw(st.integers(10, 90))
    dst = dflt.setdefault("stages", {})
    for s in all_stages:
        if draw(st.integers(0, 2)) == 0:
            sv = draw(_scope())
            if sv:
                dst.setdefault(s, {}).update(sv)
    if not dst:
        del dflt["stages"]
    for plat in platforms[1:]:
        pv = {}
        if draw(st.booleans()):
            pg = draw(_scope(p_define=4))
            if pg:
                pv["global"] = pg
        for s in all_stages:
            if draw(st.integers(0, 3)) == 0:
                sv = draw(_scope())
                if sv:
                    pv.setdefault("stages", {})[s] = sv
        if pv:
            variables[plat] = pv

    # -- components: variable uses, own variables, overrides, direct references ------------------------------
    files = {}
    rep = wf.replication(W)
    for ci, c in enumerate(comps):
        if "$import" in c:
            continue
        if ci < len(rep) and rep[ci] and not W["components"][ci]["aggregate"] and draw(st.booleans()):
            _append_args(c, ["r-%(replica)s"])
        own = None
        if draw(st.integers(0, 2)) == 0:
            own = draw(_scope(p_define=3, with_num=False))
            if draw(st.booleans()):
                own["cv"] = draw(_value(0))
        if own:
            c.setdefault("variables", {}).update(own)
        _append_args(c, draw(_arg_tokens(["cv"] if own and "cv" in own else [])))
        if draw(st.integers(0, 5)) == 0:
            m = draw(st.sampled_from(["ref", "copy", "link"]))
            ref = "%s:%s" % (DATA_FILE, m)
            c.setdefault("references", []).append(ref)
            _append_args(c, [ref])
            files[DATA_FILE] = "data\n"
        if draw(st.integers(0, 6)) == 0:
            _set_path(c, "resourceManager.config", "walltime", "%(vw)s")
        if draw(st.integers(0, 3)) == 0:
            ov = {}
            for plat in draw(st.lists(st.sampled_from(platforms[1:]), min_size=1, max_size=2, unique=True)):
                body = draw(_options(2))
                if draw(st.booleans()):
                    # the platform runs the same command line with an extra flag
                    _set_path(body, "command", "arguments", c["command"]["arguments"] + " --on-" + plat)
                if draw(st.integers(0, 3)) == 0:
                    body["variables"] = draw(_scope(p_define=2, with_num=False)) or {POOL[-1]: "ov"}
                if body:
                    ov[plat] = body
            if ov:
                c["override"] = ov

    # -- a top-level folder that an explicit manifest copies / links into the instance ----------------------------
    manifest = None
    plain = [c for c in comps if "$import" not in c]
    if plain and dowhile is None and draw(st.integers(0, 4)) == 0:
        manifest = {"folder": "refdata", "method": draw(st.sampled_from(["link", "link", "copy", None]))}
        c = draw(st.sampled_from(plain))
        ref = draw(st.sampled_from(["refdata/table.csv:ref", "refdata:ref", "refdata/table.csv:copy"]))
        c.setdefault("references", []).append(ref)
        _append_args(c, [ref])

    # -- blueprints -------------------------------------------------------------------------------------
    bp = {}
    for plat in platforms:
        if draw(st.integers(0, 3)) == 0:
            b = draw(_options(2))
            if b:
                bp.setdefault(plat, {})["global"] = b
        for s in all_stages:
            if draw(st.integers(0, 5)) == 0:
                b = draw(_options(2))
                if b:
                    bp.setdefault(plat, {}).setdefault("stages", {})[s] = b
        if draw(st.integers(0, 5)) == 0:
            # an inherited option whose value refers to a variable that narrower scopes (stage, user) may redefine
            where = bp.setdefault(plat, {})
            target = where.setdefault("global", {}) if draw(st.booleans()) else \
                where.setdefault("stages", {}).setdefault(draw(st.sampled_from(all_stages)), {})
            _set_path(target, "resourceManager.config", "walltime", "%%(%s)s" % NUMVAR)
    if bp:
        F["blueprint"] = bp

    # -- user variable files (disjoint names) ---------------------------------------------------------------
    user_vars = []
    nfiles = draw(st.sampled_from([0, 0, 1, 1, 1, 2]))
    free = list(range(len(POOL)))
    for _ in range(nfiles):
        uv = {}
        if not free:
            break
        picked = draw(st.lists(st.sampled_from(free), min_size=1, max_size=2, unique=True))
        for i in picked:
            free.remove(i)
            val = draw(_value(i))
            if draw(st.integers(0, 2)) == 0:
                uv.setdefault("stages", {}).setdefault(draw(st.sampled_from(all_stages)), {})[POOL[i]] = val
            else:
                uv.setdefault("global", {})[POOL[i]] = val
        if draw(st.integers(0, 4)) == 0 and NUMVAR not in [k for u in user_vars for k in u.get("global", {})]:
            uv.setdefault("global", {})[NUMVAR] = draw(st.integers(10, 90))
        user_vars.append(uv)

    # -- history ----------------------------------------------------------------------------------------
    history = []
    ncycles = draw(st.sampled_from([1, 1, 2, 3]))
    iters_left = draw(st.integers(0, 3)) if dowhile is not None else 0
    for cyc in range(ncycles):
        for _ in range(draw(st.integers(0, 2))):
            if iters_left and draw(st.booleans()):
                history.append(["iter", draw(st.booleans())])
                iters_left -= 1
            elif GENERATE_PATCHES and draw(st.integers(0, 5)) == 0:
                kind = draw(st.sampled_from(["args", "var", "newvar", "walltime"]))
                val = {"args": "--patched", "var": "patched-%(v_d)s", "newvar": "pv",
                       "walltime": float(draw(st.integers(1, 9)))}[kind]
                history.append(["patch", draw(st.integers(0, 30)), kind, val])
        if cyc == ncycles - 1:
            while iters_left and draw(st.booleans()):
                history.append(["iter", draw(st.booleans())])
                iters_left -= 1
        history.append(["cycle", draw(st.booleans())])
    if dowhile is not None and draw(st.integers(0, 3)) == 0:
        # a restart: the instance is loaded read-only, the restarted run adds a loop iteration, then it is loaded again
        history = [["cycle", False], ["iter", True]] + ([["iter", True]] if draw(st.booleans()) else []) + \
                  [["cycle", draw(st.booleans()), draw(st.booleans())]]      # 3rd field: explicit store before the load?
    return jsonable({"flowir": F, "dowhile": dowhile, "files": files, "platform": platform, "user_vars": user_vars,
                     "history": history, "manifest": manifest})


# ----------------------------------------------------------------------------------------------------------
def jsonable(obj):
    """Dict keys -> str (what a replay file gives back)."""
    if isinstance(obj, dict):
        return {str(k): jsonable(v) for k, v in obj.items()}
    if isinstance(obj, (list, tuple)):
        return [jsonable(v) for v in obj]
    return obj


def int_stage_keys(obj, under_stages=False):
    """Inverse of `jsonable` for FlowIR / user-variable documents: keys below a 'stages' mapping are stage indices."""
    if isinstance(obj, dict):
        out = {}
        for k, v in obj.items():
            kk = int(k) if under_stages and isinstance(k, str) and k.isdigit() else k
            out[kk] = int_stage_keys(v, under_stages=(k == "stages"))
        return out
    if isinstance(obj, list):
        return [int_stage_keys(v) for v in obj]
    return obj


def features(case) -> List[str]:
    F = case["flowir"]
    out = ["platform:" + case["platform"]]
    comps = [c for c in F["components"] if "$import" not in c]
    if case["user_vars"]:
        out.append("user-vars")
        if any("stages" in u for u in case["user_vars"]):
            out.append("user-vars:stage")
        if len(case["user_vars"]) > 1:
            out.append("user-vars:2-files")
    if case["dowhile"]:
        out.append("dowhile")
        if case["dowhile"]["loopBindings"]:
            out.append("dowhile:loop-binding")
        if any("replicate" in (c.get("workflowAttributes") or {}) for c in case["dowhile"]["components"]):
            out.append("dowhile:replicated")
        names = [c["name"] for c in case["dowhile"]["components"]]
        if any(any(r.split(":")[0].split(".")[-1].split("/")[0] in names for r in c.get("references", []))
               for c in comps):
            out.append("dowhile:outer-consumer")
    if any("override" in c for c in comps):
        out.append("override")
        if any(case["platform"] in c.get("override", {}) for c in comps):
            out.append("override:selected-platform")
    if "blueprint" in F:
        out.append("blueprint")
    if any("replicate" in (c.get("workflowAttributes") or {}) for c in comps):
        out.append("replicate")
    if any((c.get("workflowAttributes") or {}).get("aggregate") for c in comps):
        out.append("aggregate")
    v = F.get("variables", {})
    if PLATFORM in v:
        out.append("platform-variables")
    if any("stages" in v.get(p, {}) for p in v):
        out.append("stage-variables")
    if any(c.get("variables") for c in comps):
        out.append("component-variables")
    if any(DATA_FILE in " ".join(c.get("references", [])) for c in comps):
        out.append("direct-reference")
    ops = [h[0] for h in case["history"]]
    out.append("cycles:%d" % ops.count("cycle"))
    out.append("iterations:%d" % ops.count("iter"))
    if "patch" in ops:
        out.append("patch")
    return out
