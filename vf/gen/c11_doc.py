"""C11 helper: extends the shared abstract workflow (vf/gen/workflow.py) with platforms, layered variables, typed
options, blueprints and environments, and applies exactly one structural fault to the rendered FlowIR document.

Everything is a pure function of JSON-able values:
    X   = extras(W)            (Hypothesis strategy; description of the additions)
    doc = build(W, X)          (valid FlowIR dict; render(W) + additions; no shared sub-objects)
    mdoc, what = mutate(doc, W, X, fault)   (single-fault twin + a description of the fault actually applied)

The tables below (option paths, good values, wrongly typed values, keyword vocabulary) are written from the FlowIR
documentation, not read from the code under test.
"""
from __future__ import annotations

import re
from typing import Any, Dict, List, Optional, Tuple

from hypothesis import strategies as st

from . import workflow as wfgen

PLAT = "plat"
ENV = "enva"
VAR_RE = re.compile(r"%\(([a-zA-Z0-9_.-]+)\)s")

KINDS = ["dangling-rename", "dangling-drop", "cycle", "duplicate-id", "duplicate-expanded-id", "unknown-key",
         "mistyped", "undefined-variable"]

# ---------------------------------------------------------------------------------------------------------------
# wrongly typed values: never convertible to the expected type (no numeric strings, no true/false/yes/no strings,
# no ints where a string is expected because the loader documents str() conversion of scalars)
BAD_BOOL = ["maybe", [True], {"a": 1}, 2.5]
BAD_INT = ["many", [1], {"a": 1}, 1.5]
BAD_NUM = ["fast", [0.5], {"a": 1}]
BAD_STR = [["x"], {"a": 1}]
BAD_LIST = ["KnownIssue", 5, {"a": 1}, [5]]
BAD_ENUM = ["bogus-choice", ["x"], {"a": 1}]

# option path (relative to a component / blueprint root) -> spec
#   good: literal values the extras generator may place; var: kind of variable indirection allowed (None = never)
#   bad:  wrongly typed values;  cls: expected type label (used in signatures)
OPTS: Dict[Tuple[str, ...], Dict[str, Any]] = {
    ("workflowAttributes", "aggregate"): {"good": [False], "bad": BAD_BOOL, "cls": "bool"},
    ("workflowAttributes", "replicate"): {"good": [], "bad": ["two", [2], {"n": 2}, 2.5], "cls": "int"},
    ("workflowAttributes", "isMigratable"): {"good": [False], "bad": BAD_BOOL, "cls": "bool"},
    ("workflowAttributes", "isMigrated"): {"good": [False], "bad": BAD_BOOL, "cls": "bool"},
    ("workflowAttributes", "repeatInterval"): {"good": [], "bad": ["often", [5], {"a": 1}], "cls": "number"},
    ("workflowAttributes", "repeatRetries"): {"good": [0, 1, 3], "var": "int", "bad": BAD_INT, "cls": "int"},
    ("workflowAttributes", "maxRestarts"): {"good": [-1, 0, 2], "bad": BAD_INT, "cls": "int"},
    ("workflowAttributes", "shutdownOn"): {"good": [["KnownIssue"], []], "bad": BAD_LIST, "cls": "list"},
    ("workflowAttributes", "restartHookOn"): {"good": [["ResourceExhausted"], ["KnownIssue", "SystemIssue"]],
                                              "bad": ["KnownIssue", 5, {"a": 1}, ["NoSuchReason"]], "cls": "list"},
    ("workflowAttributes", "restartHookFile"): {"good": [None, "custom_restart.py"],
                                                "bad": [["r.py"], {"a": 1}, "hooks/r.py"], "cls": "str"},
    ("workflowAttributes", "memoization", "disable", "strong"): {"good": [True, False], "bad": BAD_BOOL, "cls": "bool"},
    ("workflowAttributes", "memoization", "disable", "fuzzy"): {"good": [True, False], "bad": BAD_BOOL, "cls": "bool"},
    ("workflowAttributes", "memoization", "embeddingFunction"): {"good": [None], "bad": [[1], {"a": 1}], "cls": "str"},
    ("workflowAttributes", "optimizer", "disable"): {"good": [False, True], "bad": BAD_BOOL, "cls": "bool"},
    ("workflowAttributes", "optimizer", "exploitChance"): {"good": [0.5, 0.9], "var": "float", "bad": BAD_NUM,
                                                           "cls": "number"},
    ("workflowAttributes", "optimizer", "exploitTarget"): {"good": [0.75, 0.5], "bad": BAD_NUM, "cls": "number"},
    ("resourceManager", "config", "backend"): {"good": ["local"], "bad": BAD_ENUM, "cls": "enum"},
    ("resourceManager", "config", "walltime"): {"good": [30, 12.5], "var": "float", "bad": BAD_NUM, "cls": "number"},
    ("resourceManager", "lsf", "queue"): {"good": ["normal", "short"], "var": "str", "bad": BAD_STR, "cls": "str"},
    ("resourceManager", "lsf", "statusRequestInterval"): {"good": [10, 2.5], "var": "float", "bad": BAD_NUM,
                                                          "cls": "number"},
    ("resourceManager", "lsf", "resourceString"): {"good": [None, "rusage"], "bad": BAD_STR, "cls": "str"},
    ("resourceManager", "kubernetes", "image"): {"good": [None, "registry/image:1"], "bad": BAD_STR, "cls": "str"},
    ("resourceManager", "kubernetes", "gracePeriod"): {"good": [None, 30], "var": "int", "bad": ["soon", [1], 1.5],
                                                       "cls": "int"},
    ("resourceManager", "kubernetes", "cpuUnitsPerCore"): {"good": [None, 1, 0.5], "bad": BAD_NUM, "cls": "number"},
    ("resourceManager", "kubernetes", "podSpec"): {"good": [None], "bad": ["spec", [1], 5], "cls": "dict"},
    ("resourceManager", "docker", "imagePullPolicy"): {"good": ["Always", "Never", "IfNotPresent"],
                                                       "bad": BAD_ENUM + [5], "cls": "enum"},
    ("resourceManager", "docker", "image"): {"good": [None, "img"], "bad": BAD_STR, "cls": "str"},
    ("resourceRequest", "numberProcesses"): {"good": [1], "var": "int", "bad": BAD_INT, "cls": "int"},
    ("resourceRequest", "numberThreads"): {"good": [1], "var": "int", "bad": BAD_INT, "cls": "int"},
    ("resourceRequest", "ranksPerNode"): {"good": [1], "var": "int", "bad": BAD_INT, "cls": "int"},
    ("resourceRequest", "threadsPerCore"): {"good": [1], "var": "int", "bad": BAD_INT, "cls": "int"},
    ("resourceRequest", "memory"): {"good": [None, 1048576, "1Mi"], "bad": ["lots", [1], {"a": 1}], "cls": "memory"},
    ("resourceRequest", "gpus"): {"good": [None], "bad": BAD_INT, "cls": "int"},
    ("command", "resolvePath"): {"good": [True, False], "var": "boolstr", "bad": BAD_BOOL, "cls": "bool"},
    ("command", "expandArguments"): {"good": ["double-quote", "none"], "bad": BAD_ENUM + [5], "cls": "enum"},
    ("command", "executable"): {"good": [], "bad": BAD_STR, "cls": "str"},
    ("command", "arguments"): {"good": [], "bad": BAD_STR, "cls": "str"},
    ("command", "environment"): {"good": [], "bad": [[ENV], {"a": 1}], "cls": "str"},
    ("executors", "pre"): {"good": [[]], "bad": ["x", 5, {"a": 1}, ["lsf-dm-in"]], "cls": "list"},
    ("executors", "post"): {"good": [[]], "bad": ["x", 5, {"a": 1}, ["lsf-dm-out"]], "cls": "list"},
    ("references",): {"good": [], "bad": ["@JOINED", 5, {"a": 1}, [5]], "cls": "list"},
    ("stage",): {"good": [], "bad": ["one", [0], 1.5], "cls": "int"},
    ("name",): {"good": [], "bad": [["N"], {"a": 1}], "cls": "str"},
}
# options the extras generator may add to a component (those with good values)
ADDABLE = sorted(p for p, s in OPTS.items() if s["good"])
# options that may go to a blueprint (apply to every component of the scope; avoid ones that W controls)
BLUEPRINT_OPTS = [p for p in ADDABLE if p[0] in ("resourceManager", "resourceRequest") or
                  p in (("workflowAttributes", "repeatRetries"), ("workflowAttributes", "memoization", "disable", "strong"),
                        ("command", "expandArguments"))]

# every keyword of the FlowIR schema (used only to make sure that a misspelt key is not accidentally another keyword)
VOCAB = {
    "variables", "components", "environments", "status-report", "application-dependencies", "output", "blueprint",
    "platforms", "virtual-environments", "version", "interface", "global", "stages", "default", "name", "stage",
    "command", "references", "workflowAttributes", "resourceManager", "resourceRequest", "executors", "override",
    "executable", "arguments", "environment", "interpreter", "resolvePath", "expandArguments", "restartHookFile",
    "aggregate", "replicate", "isMigratable", "isMigrated", "repeatInterval", "repeatRetries", "maxRestarts",
    "shutdownOn", "restartHookOn", "isRepeat", "memoization", "disable", "strong", "fuzzy", "embeddingFunction",
    "optimizer", "exploitChance", "exploitTarget", "exploitTargetLow", "exploitTargetHigh", "config", "backend",
    "walltime", "lsf", "kubernetes", "docker", "queue", "reservation", "resourceString", "statusRequestInterval",
    "dockerImage", "dockerProfileApp", "dockerOptions", "image", "qos", "image-pull-secret", "namespace",
    "api-key-var", "host", "cpuUnitsPerCore", "gracePeriod", "podSpec", "imagePullPolicy", "platform",
    "numberProcesses", "numberThreads", "ranksPerNode", "threadsPerCore", "memory", "gpus", "pre", "main", "post",
    "payload", "stage-weight", "description", "data-in", "type", "bindings", "$import",
}
FOLDERS = set(wfgen.RESERVED) | {"application", "applications", "venv"}


# ---------------------------------------------------------------------------------------------------------------
# extras strategy
def _value_for_var(kind: str, literal):
    if kind == "boolstr":
        return "true" if literal else "false"
    return literal


@st.composite
def extras(draw, W):
    ncomp = len(W["components"])
    plat = draw(st.integers(0, 2)) > 0
    platform = PLAT if (plat and draw(st.integers(0, 2)) > 0) else None
    visible = ["dg", "ds", "c"] + (["pg", "ps", "co"] if platform == PLAT else [])

    def layers():
        return sorted(draw(st.lists(st.sampled_from(visible), min_size=1, max_size=2, unique=True)))

    comps = []
    for i in range(ncomp):
        nopt = draw(st.integers(0, 3))
        paths = draw(st.lists(st.sampled_from(ADDABLE), min_size=nopt, max_size=nopt, unique=True))
        opts = []
        for p in sorted(paths):
            spec = OPTS[p]
            gi = draw(st.integers(0, len(spec["good"]) - 1))
            use_var = bool(spec.get("var")) and spec["good"][gi] is not None and draw(st.integers(0, 2)) == 0
            where = "over" if (plat and draw(st.integers(0, 3)) == 0) else "base"
            opts.append({"o": list(p), "g": gi, "var": layers() if use_var else None, "w": where})
        nargs = draw(st.integers(0, 2)) if draw(st.booleans()) else 0
        argvars = [{"layers": layers(), "val": draw(st.sampled_from(["w", 7, "x-y", 0.5])),
                    "form": draw(st.sampled_from(["%s", "--n=%s"]))} for _ in range(nargs)]
        comps.append({"opts": opts, "argvars": argvars, "env": draw(st.integers(0, 3)) == 0,
                      "shared": draw(st.integers(0, 3)) == 0})
    nbp = draw(st.integers(0, 2)) if draw(st.integers(0, 2)) == 0 else 0
    nstages = max(c["stage"] for c in W["components"]) + 1
    blueprint = []
    for p in sorted(draw(st.lists(st.sampled_from(BLUEPRINT_OPTS), min_size=nbp, max_size=nbp, unique=True))):
        blueprint.append({"o": list(p), "g": draw(st.integers(0, len(OPTS[p]["good"]) - 1)),
                          "scope": draw(st.sampled_from(["global"] + list(range(nstages)))),
                          "p": PLAT if (plat and draw(st.integers(0, 2)) == 0) else "default"})
    shared_layers = sorted(draw(st.lists(st.sampled_from(["dg"] + (["pg"] if platform == PLAT else [])), min_size=1,
                                         max_size=2, unique=True)))
    return {"plat": plat, "platform": platform, "comps": comps, "blueprint": blueprint, "shared": shared_layers,
            "env_on_plat": bool(plat and draw(st.booleans()))}


# ---------------------------------------------------------------------------------------------------------------
def clone(o):
    """Structural copy without shared sub-objects (keeps int keys)."""
    if isinstance(o, dict):
        return {k: clone(v) for k, v in o.items()}
    if isinstance(o, (list, tuple)):
        return [clone(v) for v in o]
    return o


def _set_path(root: dict, path, value):
    d = root
    for k in path[:-1]:
        d = d.setdefault(k, {})
    d[path[-1]] = value


def _has_path(root: dict, path) -> bool:
    d = root
    for k in path:
        if not isinstance(d, dict) or k not in d:
            return False
        d = d[k]
    return True


def build(W, X) -> dict:
    """The valid document."""
    doc = wfgen.render(W)
    plat = X["plat"]
    tvars: Dict[str, Any] = doc.setdefault("variables", {})

    def define(name, value, layers, comp, stage):
        for layer in layers:
            if layer == "dg":
                _set_path(tvars, ["default", "global", name], value)
            elif layer == "ds":
                _set_path(tvars, ["default", "stages", stage, name], value)
            elif layer == "pg":
                _set_path(tvars, [PLAT, "global", name], value)
            elif layer == "ps":
                _set_path(tvars, [PLAT, "stages", stage, name], value)
            elif layer == "c":
                _set_path(comp, ["variables", name], value)
            elif layer == "co":
                _set_path(comp, ["override", PLAT, "variables", name], value)

    any_env = False
    any_shared = False
    for i, (comp, xc) in enumerate(zip(doc["components"], X["comps"])):
        stage = comp["stage"]
        for k, o in enumerate(xc["opts"]):
            path = tuple(o["o"])
            if _has_path(comp, path):
                continue                      # the abstract workflow already sets this option
            spec = OPTS[path]
            literal = spec["good"][o["g"] % len(spec["good"])]
            if o["var"]:
                vname = "v%d_%d" % (i, k)
                define(vname, _value_for_var(spec["var"], literal), o["var"], comp, stage)
                literal = "%%(%s)s" % vname
            root = comp if (o["w"] == "base" or not plat) else comp.setdefault("override", {}).setdefault(PLAT, {})
            _set_path(root, path, clone(literal))
        tokens = []
        for k, a in enumerate(xc["argvars"]):
            vname = "a%d_%d" % (i, k)
            define(vname, a["val"], a["layers"], comp, stage)
            tokens.append(a["form"] % ("%%(%s)s" % vname))
        if xc["shared"]:
            tokens.append("%(shared)s")
            any_shared = True
        if tokens:
            args = comp["command"].get("arguments", "")
            comp["command"]["arguments"] = " ".join(([args] if args else []) + tokens)
        if xc["env"]:
            comp["command"]["environment"] = ENV
            any_env = True
    if any_shared:
        for layer in X["shared"]:
            _set_path(tvars, ["default" if layer == "dg" else PLAT, "global", "shared"], "sh")
    if any_env:
        doc["environments"] = {"default": {ENV: {"FOO": "bar", "COUNT": 1}}}
        if X["env_on_plat"]:
            doc["environments"][PLAT] = {ENV: {"FOO": "baz"}}
    for b in X["blueprint"]:
        p = b["p"] if plat else "default"
        spec = OPTS[tuple(b["o"])]
        root = doc.setdefault("blueprint", {}).setdefault(p, {})
        root = root.setdefault("global", {}) if b["scope"] == "global" else \
            root.setdefault("stages", {}).setdefault(b["scope"], {})
        _set_path(root, b["o"], clone(spec["good"][b["g"] % len(spec["good"])]))
    if plat:
        doc["platforms"] = ["default", PLAT]
    if not tvars:
        del doc["variables"]
    return clone(doc)


# ---------------------------------------------------------------------------------------------------------------
# positions
def active(X) -> str:
    return X["platform"] or "default"


def _component_roots(doc, X):
    """(label path, dict) of every component-shaped dict that the active platform evaluates."""
    act = active(X)
    out = []
    for i, c in enumerate(doc.get("components", [])):
        out.append((["components", i], c))
        ov = c.get("override", {})
        if act in ov:
            out.append((["components", i, "override", act], ov[act]))
    for p, bp in doc.get("blueprint", {}).items():
        if p not in ("default", act):
            continue
        if "global" in bp:
            out.append((["blueprint", p, "global"], bp["global"]))
        for s, d in bp.get("stages", {}).items():
            out.append((["blueprint", p, "stages", s], d))
    return out


FREE_SUBTREES = {"variables", "override", "podSpec"}


def _keyword_positions_in_component(base, d, out):
    for k, v in d.items():
        out.append(base + [k])
        if k in FREE_SUBTREES:
            continue
        if isinstance(v, dict):
            _keyword_positions_in_component(base + [k], v, out)


def keyword_positions(doc, X) -> List[list]:
    """Paths of all dictionary keys that are schema keywords (not user chosen names) and that are read for the
    active platform."""
    act = active(X)
    out: List[list] = []
    for k in doc:
        out.append([k])
    for base, d in _component_roots(doc, X):
        _keyword_positions_in_component(base, d, out)
    for p, v in doc.get("variables", {}).items():
        if p in ("default", act):
            for k in v:
                out.append(["variables", p, k])
    for p, v in doc.get("blueprint", {}).items():
        if p in ("default", act):
            for k in v:
                out.append(["blueprint", p, k])
    return out


def _shadowed_everywhere(doc, X, base, path) -> bool:
    """A blueprint option that every component of its scope (or another blueprint layer) re-defines."""
    act = active(X)
    stage = int(base[3]) if len(base) > 3 and base[2] == "stages" else None
    for p, bp in doc.get("blueprint", {}).items():
        if p not in ("default", act):
            continue
        layers = [(["blueprint", p, "global"], bp.get("global"))] + \
                 [(["blueprint", p, "stages", s_], d) for s_, d in (bp.get("stages") or {}).items()]
        for lbase, d in layers:
            if lbase != base and isinstance(d, dict) and _has_path(d, path):
                return True             # layering between blueprints decides which one counts: not a clean fault site
    comps = [c for c in doc.get("components", []) if stage is None or int(c.get("stage", 0)) == stage]
    if not comps:
        return True
    for c in comps:
        own = _has_path(c, path) or _has_path((c.get("override") or {}).get(act) or {}, path)
        if not own:
            return False
    return True


def typed_positions(doc, X) -> List[Tuple[list, dict]]:
    out = []
    for base, d in _component_roots(doc, X):
        for path, spec in sorted(OPTS.items()):
            if base[0] == "blueprint" and path in (("name",), ("stage",), ("references",)):
                continue
            if len(base) > 2 and base[0] == "components" and path in (("name",), ("stage",)):
                continue
            if _has_path(d, path):
                if base[0] == "blueprint" and _shadowed_everywhere(doc, X, base, path):
                    continue     # no component inherits this blueprint value: the workflow it describes is unaffected
                out.append((base + list(path), spec))
    used_v = {v for _, v in used_variables(doc, X)}
    act = active(X)
    nonprim = {"bad": [[1, 2], {"a": 1}], "cls": "primitive"}
    # a variable definition is only a position when it is the single definition of that name (no shadowing question)
    ndef: Dict[str, int] = {}
    for p, v in doc.get("variables", {}).items():
        for name in v.get("global", {}):
            ndef[name] = ndef.get(name, 0) + 1
        for s, sv in v.get("stages", {}).items():
            for name in sv:
                ndef[name] = ndef.get(name, 0) + 1
    for c in doc.get("components", []):
        for name in c.get("variables", {}):
            ndef[name] = ndef.get(name, 0) + 1
        for ov in c.get("override", {}).values():
            for name in ov.get("variables", {}):
                ndef[name] = ndef.get(name, 0) + 1
    for p, v in doc.get("variables", {}).items():
        if p not in ("default", act):
            continue
        for name in v.get("global", {}):
            if name in used_v and ndef[name] == 1:
                out.append((["variables", p, "global", name], nonprim))
        for s, sv in v.get("stages", {}).items():
            for name in sv:
                if name in used_v and ndef[name] == 1:
                    out.append((["variables", p, "stages", s, name], nonprim))
    for i, c in enumerate(doc.get("components", [])):
        mine = {v for j, v in used_variables(doc, X) if j == i}
        for name in c.get("variables", {}):
            if name in mine and ndef[name] == 1:
                out.append((["components", i, "variables", name], nonprim))
    env_used = any(c.get("command", {}).get("environment") == ENV for c in doc.get("components", [])
                   if isinstance(c.get("command"), dict))
    if env_used:
        envs = doc.get("environments", {})
        p = act if ENV in envs.get(act, {}) else "default"      # the section that wins on the active platform
        for name in envs.get(p, {}).get(ENV, {}):
            out.append((["environments", p, ENV, name], nonprim))
    return out


def _strings(o, out):
    if isinstance(o, str):
        out.append(o)
    elif isinstance(o, dict):
        for v in o.values():
            _strings(v, out)
    elif isinstance(o, list):
        for v in o:
            _strings(v, out)


def used_variables(doc, X) -> List[Tuple[int, str]]:
    """(component index, variable name) for every variable the component reads on the active platform (in its own
    options / command line, not in its variable definitions)."""
    act = active(X)
    out = []
    for i, c in enumerate(doc.get("components", [])):
        strs: List[str] = []
        for k, v in c.items():
            if k in ("variables", "override"):
                continue
            _strings(v, strs)
        ov = c.get("override", {}).get(act)
        if ov:
            for k, v in ov.items():
                if k != "variables":
                    _strings(v, strs)
        names = []
        for s in strs:
            for m in VAR_RE.finditer(s):
                if m.group(1) not in names:
                    names.append(m.group(1))
        out.extend((i, n) for n in names)
    return out


# ---------------------------------------------------------------------------------------------------------------
# mutators
def _get(doc, path):
    d = doc
    for k in path:
        d = d[k]
    return d


def _fmt(path) -> str:
    return ".".join(str(p) for p in path)


def generic(path) -> str:
    """Path without indices / user-chosen names (for signatures)."""
    out = []
    prev = None
    for p in path:
        if isinstance(p, int):
            prev = p
            continue
        if prev in ("override", "variables", "blueprint", "environments") and p not in ("global", "stages"):
            out.append("*")
        else:
            out.append(str(p))
        prev = p
    return ".".join(out)


def misspellings(key: str, siblings) -> List[str]:
    cands = [key + "X", key[:-1] if len(key) > 2 else key + "Z", key[0].swapcase() + key[1:],
             key.replace("e", "3", 1) if "e" in key else key + "_", key + "s"]
    out = []
    for c in cands:
        if c and c != key and c not in VOCAB and c not in siblings and c not in out:
            out.append(c)
    return out


def _descendants(W) -> Dict[int, List[int]]:
    comps = W["components"]
    desc = {i: set() for i in range(len(comps))}
    # j depends on p; components are listed producers first: anc[j] = union(anc[p]) + p
    anc = {i: set() for i in range(len(comps))}
    for j, c in enumerate(comps):
        for r in c["refs"]:
            anc[j].add(r["p"])
            anc[j] |= anc[r["p"]]
    for j, a in anc.items():
        for i in a:
            desc[i].add(j)
    return {i: sorted(d) for i, d in desc.items()}


def _taken_names(W) -> set:
    taken = set(FOLDERS)
    for i, names in wfgen.expanded_names(W).items():
        taken.update(names)
    for c in W["components"]:
        taken.add(c["name"])
    return taken


def _name_free(cand: str, W) -> bool:
    if not wfgen.name_ok(cand) or cand in _taken_names(W):
        return False
    for c in W["components"]:
        if re.fullmatch(re.escape(c["name"]) + r"\d+", cand):
            return False
    return True


def _replace_token(args: str, old: str, new: str) -> str:
    return " ".join(new if t == old else t for t in args.split(" "))


def _prune_empty(d):
    """Remove empty dicts bottom-up (in place); returns True if d itself is now empty."""
    for k in list(d.keys()):
        if isinstance(d[k], dict):
            if _prune_empty(d[k]):
                del d[k]
    return len(d) == 0


def applicable(doc, W, X) -> Dict[str, list]:
    """kind -> list of concrete positions (each a JSON-able descriptor) at which the fault can be injected such that
    the valid twin really uses the position and the mutation really creates the stated fault."""
    comps = W["components"]
    per_stage: Dict[int, int] = {}
    for c in comps:
        per_stage[c["stage"]] = per_stage.get(c["stage"], 0) + 1
    rep = wfgen.replication(W)
    nstages = max(per_stage) + 1
    pos: Dict[str, list] = {k: [] for k in KINDS}
    taken_ids = set()
    for i, names in wfgen.expanded_names(W).items():
        for n in names + [comps[i]["name"]]:
            taken_ids.add((comps[i]["stage"], n))
    # dangling: rename a reference (consumer i, k-th reference)
    for i, c in enumerate(comps):
        for k, r in enumerate(c["refs"]):
            pname = comps[r["p"]]["name"]
            for cand in (pname + "X", pname[:-1], "Ghost", pname.lower(), pname + "_v2"):
                if _name_free(cand, W):
                    pos["dangling-rename"].append({"c": i, "r": k, "to": cand, "how": "fresh-name"})
            for s in range(nstages + 1):
                if s != comps[r["p"]]["stage"] and (s, pname) not in taken_ids:
                    pos["dangling-rename"].append({"c": i, "r": k, "to_stage": s, "how": "wrong-stage"})
    # dangling: drop a referenced component whose stage keeps another component
    referenced = sorted({r["p"] for c in comps for r in c["refs"]})
    for p in referenced:
        if per_stage[comps[p]["stage"]] >= 2:
            pos["dangling-drop"].append({"c": p})
    # cycle: component i additionally consumes its (transitive) consumer j, or itself
    desc = _descendants(W)
    for i in range(len(comps)):
        for j in desc[i]:
            pos["cycle"].append({"c": i, "to": j, "how": "back-edge" if comps[i]["stage"] == comps[j]["stage"]
                                 else "back-edge-cross-stage"})
    for i in range(len(comps)):
        pos["cycle"].append({"c": i, "to": i, "how": "self"})
    # duplicates
    for i in range(len(comps)):
        for how in ("copy-at-end", "copy-adjacent", "bare-at-end"):
            pos["duplicate-id"].append({"c": i, "how": how})
        if rep[i] and not comps[i]["aggregate"]:
            for k in range(W["n"]):
                pos["duplicate-expanded-id"].append({"c": i, "k": k})
    # unknown key
    for path in keyword_positions(doc, X):
        parent = _get(doc, path[:-1]) if len(path) > 1 else doc
        for m in misspellings(str(path[-1]), set(map(str, parent.keys()))):
            pos["unknown-key"].append({"path": path, "to": m})
    # mistyped
    for path, spec in typed_positions(doc, X):
        for b, bad in enumerate(spec["bad"]):
            if bad == "@JOINED":
                cur = _get(doc, path)
                if not cur:
                    continue
            pos["mistyped"].append({"path": path, "bad": b, "cls": spec["cls"]})
    # undefined variable
    for i, v in used_variables(doc, X):
        pos["undefined-variable"].append({"c": i, "v": v, "how": "delete-definition"})
        pos["undefined-variable"].append({"c": i, "v": v, "how": "rename-usage"})
    return pos


def _mix(*parts) -> int:
    """Deterministic spreading of a drawn integer (Hypothesis draws small integers far more often)."""
    import hashlib
    import json
    return int.from_bytes(hashlib.blake2b(json.dumps(parts).encode(), digest_size=8).digest(), "big")


def choose_fault(doc, W, X, fault) -> Tuple[str, dict]:
    """Resolve the drawn (kind, pos, variant) to a concrete applicable position. When the drawn kind has no
    applicable position another applicable kind is taken (unknown-key always has one)."""
    pos = applicable(doc, W, X)
    kind = fault["kind"]
    if not pos[kind]:
        avail = [k for k in KINDS if pos[k]]
        kind = avail[_mix("kind", fault["pos"]) % len(avail)]
    cands = pos[kind]
    # sub-classes with few positions must not drown: pick the sub-class first, then the position
    groups: Dict[str, list] = {}
    for c in cands:
        groups.setdefault(subclass(kind, c), []).append(c)
    names = sorted(groups)
    grp = groups[names[_mix("group", fault["variant"], fault["pos"]) % len(names)]]
    return kind, grp[_mix("pos", fault["pos"]) % len(grp)]


def subclass(kind: str, p: dict) -> str:
    if kind == "unknown-key":
        return "top-level" if len(p["path"]) == 1 else "depth-%d" % min(len(p["path"]), 5) \
            if p["path"][0] == "components" else str(p["path"][0])
    if kind == "mistyped":
        return "%s:%s" % (p["path"][0] if p["path"][0] != "components" else
                          ("override" if "override" in p["path"] else "component"), p["cls"])
    if kind == "undefined-variable":
        return p["how"]
    return p.get("how", "")


def _typename(v) -> str:
    return type(v).__name__


def mutate(doc, W, X, fault) -> Tuple[dict, dict]:
    """-> (mutant document, what) ; what = {"kind", "detail" (signature fragment), "text" (human readable)}"""
    if fault.get("at"):               # replay files pin the concrete position
        kind, p = fault["at"][0], fault["at"][1]
    else:
        kind, p = choose_fault(doc, W, X, fault)
    m = clone(doc)
    comps = W["components"]
    what = {"kind": kind, "pos": p}

    def add_reference(i, ref):
        c = m["components"][i]
        c.setdefault("references", []).append(ref)
        a = c["command"].get("arguments", "")
        c["command"]["arguments"] = (a + " " + ref) if a else ref

    if kind == "dangling-rename":
        i, k = p["c"], p["r"]
        r = comps[i]["refs"][k]
        old = wfgen.ref_string(W, i, r)
        prod = comps[r["p"]]
        if p["how"] == "fresh-name":
            prefix = "stage%d." % prod["stage"]
            new = "%s%s:%s" % (prefix if old.startswith(prefix) else "", p["to"], r["method"])
        else:
            new = "stage%d.%s:%s" % (p["to_stage"], prod["name"], r["method"])
        c = m["components"][i]
        c["references"] = [new if x == old else x for x in c["references"]]
        c["command"]["arguments"] = _replace_token(c["command"]["arguments"], old, new)
        what.update(detail=p["how"], text="component %d: reference %r -> %r" % (i, old, new))
    elif kind == "dangling-drop":
        del m["components"][p["c"]]
        what.update(detail="drop", text="dropped referenced component %d (stage%d.%s)" % (
            p["c"], comps[p["c"]]["stage"], comps[p["c"]]["name"]))
    elif kind == "cycle":
        i, j = p["c"], p["to"]
        tgt = comps[j]
        relative = tgt["stage"] == comps[i]["stage"] and fault["variant"] % 2 == 0
        ref = ("%s:ref" % tgt["name"]) if relative else "stage%d.%s:ref" % (tgt["stage"], tgt["name"])
        add_reference(i, ref)
        what.update(detail=p["how"], text="component %d additionally references %r (its own consumer)" % (i, ref))
    elif kind == "duplicate-id":
        src = m["components"][p["c"]]
        if p["how"] == "bare-at-end":
            m["components"].append({"name": src["name"], "stage": src["stage"], "command": {"executable": "echo"}})
        elif p["how"] == "copy-adjacent":
            m["components"].insert(p["c"] + 1, clone(src))
        else:
            m["components"].append(clone(src))
        what.update(detail=p["how"], text="second component named stage%s.%s (%s)" % (src["stage"], src["name"], p["how"]))
    elif kind == "duplicate-expanded-id":
        src = m["components"][p["c"]]
        nm = "%s%d" % (src["name"], p["k"])
        m["components"].append({"name": nm, "stage": src["stage"], "command": {"executable": "echo"}})
        what.update(detail="replica-name", text="component stage%s.%s added next to replicated stage%s.%s" % (
            src["stage"], nm, src["stage"], src["name"]))
    elif kind == "unknown-key":
        path = p["path"]
        parent = _get(m, path[:-1]) if len(path) > 1 else m
        items = [(p["to"] if k == path[-1] else k, v) for k, v in parent.items()]
        parent.clear()
        parent.update(items)
        what.update(detail="top-level" if len(path) == 1 else generic(path[:-1]),
                    text="key %s spelt %r" % (_fmt(path), p["to"]))
    elif kind == "mistyped":
        path = p["path"]
        spec_bad = None
        for pp, spec in typed_positions(doc, X):
            if pp == path:
                spec_bad = spec["bad"][p["bad"]]
                break
        if spec_bad == "@JOINED":
            spec_bad = " ".join(_get(doc, path))
        parent = _get(m, path[:-1]) if len(path) > 1 else m
        old = parent[path[-1]]
        parent[path[-1]] = clone(spec_bad)
        what.update(detail="%s:%s<-%s" % (generic(path), p["cls"], _typename(spec_bad)),
                    text="%s: %r -> %r (expects %s)" % (_fmt(path), old, spec_bad, p["cls"]))
    elif kind == "undefined-variable":
        i, v = p["c"], p["v"]
        usage = usage_of(doc, X, i, v)
        if p["how"] == "delete-definition":
            for plat_vars in m.get("variables", {}).values():
                plat_vars.get("global", {}).pop(v, None)
                for sv in plat_vars.get("stages", {}).values():
                    sv.pop(v, None)
            for c in m["components"]:
                c.get("variables", {}).pop(v, None)
                for ov in c.get("override", {}).values():
                    ov.get("variables", {}).pop(v, None)
                    if "variables" in ov and not ov["variables"]:
                        del ov["variables"]
                if "variables" in c and not c["variables"]:
                    del c["variables"]
                if "override" in c:
                    for pl in list(c["override"]):
                        if not c["override"][pl]:
                            del c["override"][pl]
                    if not c["override"]:
                        del c["override"]
            if "variables" in m and _prune_empty(m["variables"]):
                del m["variables"]
            what.update(detail=usage, text="variable %r (read by component %d in %s) removed from every layer" % (v, i, usage))
        else:
            new = v + "_undef"
            c = m["components"][i]
            act = active(X)

            def rename(o):
                if isinstance(o, str):
                    return o.replace("%%(%s)s" % v, "%%(%s)s" % new)
                if isinstance(o, dict):
                    return {k: (vv if k in ("variables",) else rename(vv)) for k, vv in o.items()}
                if isinstance(o, list):
                    return [rename(x) for x in o]
                return o
            for k in list(c.keys()):
                if k == "variables":
                    continue
                if k == "override":
                    if act in c["override"]:
                        c["override"][act] = rename(c["override"][act])
                    continue
                c[k] = rename(c[k])
            what.update(detail=usage, text="component %d reads %%(%s)s instead of %%(%s)s in %s" % (i, new, v, usage))
    return clone(m), what


def usage_of(doc, X, i, v) -> str:
    """Generic path of the first place where component i reads variable v (signature fragment)."""
    c = doc["components"][i]
    act = active(X)
    tok = "%%(%s)s" % v
    found = []

    def walk(o, path):
        if isinstance(o, str):
            if tok in o:
                found.append(path)
        elif isinstance(o, dict):
            for k, vv in o.items():
                if k == "variables" or (k == "override" and not path):
                    continue
                walk(vv, path + [k])
        elif isinstance(o, list):
            for x in o:
                walk(x, path)
    walk(c, [])
    if act in c.get("override", {}):
        walk({k: vv for k, vv in c["override"][act].items() if k != "variables"}, ["override", "*"])
    return ".".join(map(str, found[0])) if found else "?"
