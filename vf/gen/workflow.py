"""Shared construction-based generator of *abstract workflows* and their rendering as FlowIR.

An abstract workflow W is a JSON-able dict:
  {"n": replica count used by every replicating source (one per workflow: the repository rejects merges of
        regions with different counts),
   "components": [ {"name", "stage", "refs": [{"p": index of an EARLIER component, "abs": bool, "method": str,
                    "path": str|None}], "replicate": None | "lit" | "global" | "stage" | "comp",
                    "aggregate": bool, "repeat": None|int, "shutdownOn": [...], "restartHookOn": [...]|None,
                    "maxRestarts": None|int, "lits": [literal tokens for the command line]} ... ]}
Components are listed in a topological order by construction (acyclic), producer.stage <= consumer.stage.
The *model* (replication, expected edges) is computed from W, never from the rendered text.
"""
from __future__ import annotations

from typing import Dict, List, Optional, Tuple

from hypothesis import strategies as st

RESERVED = {"input", "data", "bin", "conf", "stages", "output", "hooks", "python"}
METHODS_GRAPH = ["ref", "copy", "link", "output", "copyout", "extract"]

SIMPLE_ALPHA = "ABCDEFGH"
CONF_ALPHA = ["A", "B", "a", "b", "0", "1", "-", "_", "."]


@st.composite
def simple_names(draw, n):
    """Distinct, well separated names (runtime checks)."""
    base = ["Alpha", "Beta", "Gamma", "Delta", "Eps", "Zeta", "Eta", "Theta", "Iota", "Kappa"]
    perm = draw(st.permutations(base))
    return list(perm[:n])


@st.composite
def confusable_name(draw, existing: List[str]):
    """A component name, biased to be a prefix / suffix / substring / extension of an existing one."""
    mode = draw(st.sampled_from(["fresh", "fresh", "prefix", "suffix", "extend-l", "extend-r", "same", "digits"]))
    if existing and mode != "fresh":
        base = draw(st.sampled_from(existing))
        if mode == "prefix" and len(base) > 1:
            cand = base[:draw(st.integers(1, len(base) - 1))]
        elif mode == "suffix" and len(base) > 1:
            cand = base[draw(st.integers(1, len(base) - 1)):]
        elif mode == "extend-l":
            cand = draw(st.sampled_from(["A", "B", "a", "x", "A-", "B_", "A."])) + base
        elif mode == "extend-r":
            cand = base + draw(st.sampled_from(["A", "b", "-a", "_B", ".A", "x"]))
        elif mode == "digits":
            cand = base + draw(st.sampled_from(["0", "1", "2", "10"]))
        else:
            cand = base
    else:
        cand = "".join(draw(st.lists(st.sampled_from(CONF_ALPHA), min_size=1, max_size=4)))
    return cand


def name_ok(name: str) -> bool:
    if not name or name in RESERVED:
        return False
    if name[0] in "-._0123456789" or name[-1] in "-._":
        return False
    if "#" in name or ".." in name or "--" in name:
        return False
    # 'stage<N>' alone would be parsed as a stage prefix
    import re
    if re.fullmatch(r"stage\d+", name):
        return False
    return True


def expanded_names(W) -> Dict[int, List[str]]:
    """index -> names after replication (model)."""
    rep = replication(W)
    out = {}
    for i, c in enumerate(W["components"]):
        if rep[i] and not c["aggregate"]:
            out[i] = ["%s%d" % (c["name"], k) for k in range(W["n"])]
        else:
            out[i] = [c["name"]]
    return out


def replication(W) -> List[bool]:
    """rep[i] True when component i lies in a replicated region (own request or propagated from a non-aggregating
    replicated producer). For an aggregating component it means 'aggregates N replicas'."""
    comps = W["components"]
    rep = [False] * len(comps)
    for i, c in enumerate(comps):
        r = c.get("replicate") is not None
        for ref in c["refs"]:
            p = ref["p"]
            if rep[p] and not comps[p]["aggregate"]:
                r = True
        rep[i] = r
    return rep


def unique_after_expansion(W) -> bool:
    seen = set()
    names = expanded_names(W)
    for i, c in enumerate(W["components"]):
        for nm in names[i]:
            key = (c["stage"], nm)
            if key in seen:
                return False
            seen.add(key)
    # also the unexpanded names must be unique per stage, and must not coincide with a replica name of another
    # component (`AA` replicated -> `AA0` next to a component that is itself called `AA0`: a reference `AA0:ref` is
    # then ambiguous for a reader)
    raw = [(c["stage"], c["name"]) for c in W["components"]]
    if len(set(raw)) != len(raw):
        return False
    for i, c in enumerate(W["components"]):
        if len(names[i]) > 1:
            for nm in names[i]:
                if (c["stage"], nm) in raw:
                    return False
    return True


@st.composite
def workflows(draw, max_components=6, max_stages=3, names="simple", methods=("ref",), allow_paths=False,
              allow_repeat=True, allow_shutdown=True, replicate_via_vars=False, max_n=3, abs_spelling=True,
              allow_multi_ref=False, allow_ref_in_var=False):
    ncomp = draw(st.integers(1, max_components))
    nstages = draw(st.integers(1, min(max_stages, ncomp)))
    # non-decreasing stage indices covering 0..nstages-1
    cuts = sorted(draw(st.lists(st.integers(1, ncomp - 1), min_size=nstages - 1, max_size=nstages - 1, unique=True))) \
        if nstages > 1 else []
    stages = []
    s = 0
    for i in range(ncomp):
        while s < len(cuts) and i >= cuts[s]:
            s += 1
        stages.append(s)
    if names == "simple":
        nm = draw(simple_names(ncomp))
    else:
        nm = []
        for i in range(ncomp):
            for _ in range(6):
                cand = draw(confusable_name(nm))
                if name_ok(cand) and (stages[i], cand) not in {(stages[j], nm[j]) for j in range(len(nm))}:
                    break
            else:
                cand = "Cmp%s" % "ABCDEFGHIJ"[i]
            nm.append(cand)
    # mostly small replica counts; when allowed, sometimes two-digit ones (index order != lexicographic order)
    N = draw(st.sampled_from([2, 3, 2, 3, 11, 12])) if max_n >= 12 else draw(st.integers(2, max_n))
    comps = []
    any_rep_source = False
    for i in range(ncomp):
        refs = []
        if i > 0:
            k = draw(st.integers(0, min(3, i)))
            ps = draw(st.lists(st.integers(0, i - 1), min_size=k, max_size=k, unique=True))
            for p in sorted(ps):
                method = draw(st.sampled_from(list(methods)))
                path = None
                if allow_paths and method in ("ref", "copy", "link", "output", "extract") and draw(st.booleans()):
                    path = draw(st.sampled_from(["f.txt", "d/e.txt", "out.stdout", "a.b/c-d.dat"]))
                if method in ("output", "extract") and path is None:
                    path = "out.stdout" if method == "output" else "a.tgz"
                refs.append({"p": p, "abs": bool(abs_spelling and (stages[p] != stages[i] or draw(st.booleans()))),
                             "method": method, "path": path})
                if allow_multi_ref and len(methods) > 1 and draw(st.integers(0, 4)) == 0:
                    # the same producer referenced a second time through another method (e.g. :copy and :copyout)
                    other = draw(st.sampled_from([m for m in methods if m != method]))
                    path2 = path if other not in ("output", "extract") or path else \
                        ("out.stdout" if other == "output" else "a.tgz")
                    refs.append({"p": p, "abs": refs[-1]["abs"], "method": other, "path": path2})
        replicate = None
        if draw(st.integers(0, 3)) == 0:
            replicate = draw(st.sampled_from(["lit"] + (["global", "stage", "comp"] if replicate_via_vars else [])))
            any_rep_source = True
        # a consumer of a replicated region aggregates more often (the interesting wiring)
        feeds_on_replicas = any(comps[r["p"]]["replicate"] is not None or comps[r["p"]].get("_rep") for r in refs)
        aggregate = bool(refs) and draw(st.integers(0, 1 if feeds_on_replicas else 3)) == 0
        if aggregate:
            replicate = None
        same_stage_prod = any(stages[r["p"]] == stages[i] for r in refs)
        repeat = None
        if allow_repeat and refs and not aggregate and replicate is None and draw(st.integers(0, 3)) == 0:
            repeat = draw(st.sampled_from([5, 7, 10]))
        shutdown_on = []
        if allow_shutdown and draw(st.integers(0, 3)) == 0:
            # (Success on the list is legal input; "success gives finished" all the same)
            shutdown_on = draw(st.lists(st.sampled_from(["KnownIssue", "SystemIssue", "UnknownIssue",
                                                         "ResourceExhausted", "KnownIssue", "SystemIssue", "Success"]),
                                        min_size=1, max_size=2, unique=True))
        restart_on = None
        max_restarts = None
        if draw(st.integers(0, 4)) == 0:
            restart_on = draw(st.lists(st.sampled_from(["KnownIssue", "SystemIssue", "UnknownIssue",
                                                        "ResourceExhausted"]), min_size=0, max_size=2, unique=True))
            max_restarts = draw(st.sampled_from([None, 0, 1, 2]))
        in_region = replicate is not None or (not aggregate and any(
            comps[r["p"]].get("_rep") for r in refs))
        comps.append({"_rep": in_region, "name": nm[i], "stage": stages[i], "refs": refs, "replicate": replicate,
                      "aggregate": aggregate, "repeat": repeat, "shutdownOn": sorted(shutdown_on),
                      "restartHookOn": restart_on, "maxRestarts": max_restarts,
                      "lits": draw(st.lists(st.sampled_from(["-x", "1", "run", "--flag=v"]), max_size=2))})
    for c in comps:
        c.pop("_rep", None)
    if replicate_via_vars:
        # decoys: other components privately define a variable with the name that carries the replica count at
        # global / stage scope; a component's private variables must not influence anybody else
        used = {c["replicate"] for c in comps}
        for c in comps:
            if c["replicate"] in (None, "lit") and draw(st.integers(0, 2)) == 0:
                d = {}
                if "global" in used:
                    d["nrep"] = N + draw(st.integers(1, 2))
                if "stage" in used:
                    d["nrep_s"] = N + draw(st.integers(1, 2))
                if d:
                    c["decoy_vars"] = d
    if allow_ref_in_var:
        # the two spellings of one reference mixed: one in `references`, the other on the command line
        for c in comps:
            for r in c["refs"]:
                if draw(st.integers(0, 5)) == 0:
                    r["aabs"] = not r["abs"]
        # the aggregate flag given through a component variable
        for c in comps:
            if c["aggregate"] and draw(st.integers(0, 2)) == 0:
                c["aggregate_via_var"] = draw(st.sampled_from(["true", "yes", "True"]))
        # the text of a reference may live in a component variable that the command line interpolates
        for c in comps:
            if c["refs"] and draw(st.integers(0, 4)) == 0:
                c["ref_in_var"] = draw(st.integers(0, len(c["refs"]) - 1))
    W = {"n": N, "components": comps}
    # sound domain: names stay unique after replication suffixes are appended
    if not unique_after_expansion(W):
        for i, c in enumerate(comps):
            c["name"] = "%s%s" % ("Cmp", "ABCDEFGHIJ"[i])
    return W


# ----------------------------------------------------------------------------------------------------------
def ref_string(W, consumer_idx: int, ref: dict, in_args: bool = False) -> str:
    """in_args: the spelling used on the command line (may differ from the one in `references`: key `aabs`)."""
    comps = W["components"]
    p = comps[ref["p"]]
    s = p["name"]
    absolute = ref.get("aabs", ref["abs"]) if in_args else ref["abs"]
    if absolute or p["stage"] != comps[consumer_idx]["stage"]:
        s = "stage%d.%s" % (p["stage"], s)
    if ref.get("path"):
        s += "/" + ref["path"]
    return "%s:%s" % (s, ref["method"])


def render(W, executable="echo") -> dict:
    """FlowIR (dict) of the abstract workflow."""
    comps = []
    glob_vars = {}
    stage_vars = {}
    for i, c in enumerate(W["components"]):
        refs = [ref_string(W, i, r) for r in c["refs"]]
        arg_refs = [ref_string(W, i, r, in_args=True) for r in c["refs"]]
        via = c.get("ref_in_var")
        if via is not None:
            arg_refs[via] = "%(rv)s"
        args = " ".join(list(c["lits"]) + arg_refs)
        d = {"name": c["name"], "stage": c["stage"], "command": {"executable": executable, "arguments": args},
             "references": refs}
        wa = {}
        variables = {}
        if c["replicate"] == "lit":
            wa["replicate"] = W["n"]
        elif c["replicate"] == "global":
            wa["replicate"] = "%(nrep)s"
            glob_vars["nrep"] = W["n"]
        elif c["replicate"] == "stage":
            wa["replicate"] = "%(nrep_s)s"
            stage_vars.setdefault(c["stage"], {})["nrep_s"] = W["n"]
        elif c["replicate"] == "comp":
            wa["replicate"] = "%(nrep_c)s"
            variables["nrep_c"] = W["n"]
        if c["aggregate"]:
            wa["aggregate"] = True
            if c.get("aggregate_via_var"):
                wa["aggregate"] = "%(aggv)s"
                variables["aggv"] = c["aggregate_via_var"]
        if c["repeat"]:
            wa["repeatInterval"] = c["repeat"]
        if c["shutdownOn"]:
            wa["shutdownOn"] = list(c["shutdownOn"])
        if c["restartHookOn"] is not None:
            wa["restartHookOn"] = list(c["restartHookOn"])
        if c["maxRestarts"] is not None:
            wa["maxRestarts"] = c["maxRestarts"]
        if wa:
            d["workflowAttributes"] = wa
        variables.update(c.get("decoy_vars") or {})
        if via is not None:
            variables["rv"] = refs[via]
        if variables:
            d["variables"] = variables
        comps.append(d)
    out = {"components": comps}
    if glob_vars or stage_vars:
        v = {"default": {}}
        if glob_vars:
            v["default"]["global"] = glob_vars
        if stage_vars:
            v["default"]["stages"] = {k: dict(vv) for k, vv in stage_vars.items()}
        out["variables"] = v
    return out


# ----------------------------------------------------------------------------------------------------------
def expand(W) -> Tuple[Dict[str, dict], Dict[str, List[str]]]:
    """Independent replication model.
    Returns (nodes, preds): nodes['stage<i>.<name>'] = {"idx": component index, "replica": k|None, ...};
    preds[node] = producer node references in reference order (aggregators: replicas in index order)."""
    comps = W["components"]
    rep = replication(W)
    N = W["n"]
    nodes = {}
    preds = {}

    def inst(i, k):
        c = comps[i]
        if rep[i] and not c["aggregate"]:
            return "stage%d.%s%d" % (c["stage"], c["name"], k)
        return "stage%d.%s" % (c["stage"], c["name"])

    for i, c in enumerate(comps):
        copies = range(N) if (rep[i] and not c["aggregate"]) else [None]
        for k in copies:
            me = inst(i, k if k is not None else 0)
            nodes[me] = {"idx": i, "replica": k, "aggregate": c["aggregate"], "repeat": c["repeat"],
                         "stage": c["stage"], "replicated": bool(rep[i] and not c["aggregate"])}
            ps = []
            for r in c["refs"]:
                p = r["p"]
                p_replicated = rep[p] and not comps[p]["aggregate"]
                if p_replicated:
                    if c["aggregate"]:
                        ps.extend(inst(p, j) for j in range(N))
                    else:
                        ps.append(inst(p, k))
                else:
                    ps.append(inst(p, 0))
            preds[me] = ps
    return nodes, preds
