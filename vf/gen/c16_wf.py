"""C16 helpers: abstract workflows for memoization-hash checks.

An abstract workflow `W` is a plain JSON-able dict (see `workflow()`); everything the check needs is derived from
it *without* the code under test:

  render(W, extroot)         -> FlowIR dict + package files (+ files written after instantiation)
  nodes(W)                   -> expanded node list (replication model)
  descriptor(W, node, erase) -> canonical "work descriptor": executable, image, arguments with every reference
                                replaced by what it refers to (file content / producer descriptor), and the
                                multiset of consumed (content, method). MISSING / UNDEF when it cannot exist.
  apply_mutation(W, mut)     -> W' differing from W in exactly one aspect

References are kept by *index* of the producer, so renaming / restaging a component never needs text rewriting.
"""
from __future__ import annotations

import copy
import json
import re

from hypothesis import strategies as st

MISSING = "<<missing-input>>"        # a file referenced by the component itself does not exist
UNDEF = "<<undefined>>"              # depends (through a directory reference) on a producer without descriptor

HEADS = ["A", "B", "AB", "BA", "a", "gen", "step", "x"]
TAILS_PLAIN = ["", "", "", "A", "B", "b", "-A", "_a", "-x"]
TAILS_DIGIT = ["0", "1", "2", "12", "-1", "_2", "A1"]
REP_NAMES = ["Aq", "Bw", "gen", "step", "xk", "Cy", "Dz"]            # no name contains another
REP_NAMES_DIGIT = ["Eq1", "Fw2", "Gen10", "Hk-1", "Jy_2"]
RESERVED = {"input", "data", "bin", "conf", "stages", "output"}
EXES = ["echo", "cat", "ls", "/bin/true", "run.sh"]
IMAGES = ["img:1", "img:2", "quay.io/org/tool:latest"]
# "@BIG:x" stands for a file of 70000 'L' followed by x: two such files agree on their first 64 KiB and beyond
# (kept as a token in the JSON case, expanded by expand_content() when files are written)
CONTENTS = ["A", "B", "AB", "A\n", "", "hello world", "0", "1", "@BIG:a", "@BIG:b"]


def expand_content(content):
    if isinstance(content, str) and content.startswith("@BIG:"):
        return "L" * 70000 + content[5:]
    return content
LITS = ["hi", "-x", "1", "0", "A", "B", "gen", "out.txt", "--n=3", "a,b", "stage0", "x/y", "ref", "file",
        "'p q'", "'p  q'", "'p\tq'"]        # (quoted words that differ only in the white space inside them)
PREFIXES = ["", "", "-f=", "k,", "--in="]
SUFFIXES = ["", "", "", ",z", "/sub/in.dat", ".bak", "-old"]     # text glued behind a reference (path below a directory)
PFILES = ["o.txt", "f.dat", "d/e.txt"]
IFILES = ["a.txt", "b.txt", "c/d.txt"]
FILE_METHODS_ARGS = ["ref", "copy", "link", "output"]
FILE_METHODS_NOARGS = ["copy", "link", "copyout"]
DIR_METHODS = ["ref", "copy", "link"]
STDOUT = "out.stdout"


# ---------------------------------------------------------------------------------------------------------------
# generation
@st.composite
def _name(draw, digits: bool):
    head = draw(st.sampled_from(HEADS))
    tails = TAILS_PLAIN + (TAILS_DIGIT if digits else [])
    if digits and draw(st.booleans()):
        tails = TAILS_DIGIT
    return head + draw(st.sampled_from(tails))


def _ref_key(r):
    return json.dumps([r["t"], r.get("j"), r.get("f"), r.get("file"), r["m"]])


@st.composite
def workflow(draw):
    flags = {
        "digits": draw(st.sampled_from([False, False, True])),
        "ext": draw(st.sampled_from([False, False, False, True])),
        "ddir": draw(st.sampled_from([False, False, False, False, True])),
        "dirout": draw(st.sampled_from([False, False, True])),
        "rep": draw(st.sampled_from([False, False, False, True])),
        "samename": draw(st.sampled_from([False, False, True])),
    }
    # a deliberate shape: X in stage 0, X again in stage 1, and a consumer in stage 1 referencing both
    flags["twins"] = (not flags["rep"]) and draw(st.sampled_from([False] * 7 + [True]))
    if flags["twins"]:
        flags["samename"] = True
    if flags["rep"]:
        # replication rewrites reference text; names containing one another are C03's subject, not this property's
        flags["samename"] = False
    ncomp = draw(st.sampled_from([1, 2, 2, 3, 3, 3, 4, 5]))
    if flags["twins"]:
        ncomp = max(ncomp, 3)
    W = {"flags": flags, "comps": [], "input": {}, "data": {}, "ext": {}, "ddir": {}, "produced": {},
         "gvars": {}, "stage_names": {}, "N": draw(st.integers(2, 3)) if flags["rep"] else 0, "extdir": "e0"}
    stage = 0
    used = set()
    rep = []           # replicated? per comp
    for i in range(ncomp):
        if flags["twins"] and i in (1, 2):
            stage = 1
        elif i > 0 and draw(st.booleans()):
            stage += 1
        # name: unique within the stage, optionally re-using a name of an earlier stage
        name = None
        if flags["twins"] and i == 1:
            name = W["comps"][0]["name"]
        elif flags["samename"] and i > 0 and draw(st.booleans()):
            cand = draw(st.sampled_from([c["name"] for c in W["comps"]]))
            if (stage, cand) not in used:
                name = cand
        tries = 0
        while name is None and flags["rep"]:
            pool = [x for x in (REP_NAMES_DIGIT + REP_NAMES if flags["digits"] else REP_NAMES)
                    if x not in {c["name"] for c in W["comps"]}]
            name = draw(st.sampled_from(pool))
        while name is None:
            cand = draw(_name(flags["digits"]))
            tries += 1
            if tries > 5:
                cand = "%s%s" % (cand, "xyzuvw"[i])
            if cand not in RESERVED and (stage, cand) not in used:
                name = cand
        used.add((stage, name))
        comp = {"name": name, "stage": stage, "exe": draw(st.sampled_from(EXES)), "words": [], "refs": [],
                "backend": ["local"], "replicate": False, "aggregate": False, "vars": {}, "extra": {}}
        # references -------------------------------------------------------------------------------------
        nref = draw(st.sampled_from([0, 1, 1, 2, 2, 3])) if i > 0 else draw(st.integers(0, 2))
        seen = set()
        planned = []
        if flags["samename"] and i >= 2:
            # two producers with the same name in different stages, the later one in this component's stage and
            # spelled relatively: the text of one reference is then contained in the text of the other
            twins = [(a, b) for a in range(i) for b in range(i) if W["comps"][a]["name"] == W["comps"][b]["name"]
                     and W["comps"][a]["stage"] < W["comps"][b]["stage"] == stage]
            if twins:
                a, b = draw(st.sampled_from(twins))
                fl = draw(st.sampled_from([None, None] + PFILES))
                mm = draw(st.sampled_from(DIR_METHODS if fl is None else FILE_METHODS_ARGS))
                planned = [{"t": "comp", "j": a, "file": fl, "m": mm, "args": True, "abs": True, "aabs": True},
                           {"t": "comp", "j": b, "file": fl, "m": mm, "args": True, "abs": draw(st.booleans()),
                            "aabs": False}]
                if draw(st.booleans()):
                    planned.reverse()
        for pi in range(nref + len(planned)):
            if pi < len(planned):
                r = planned[pi]
                comp["refs"].append(r)
                seen.add(_ref_key(r))
                if r["file"] is not None:
                    W["produced"].setdefault(str(r["j"]), {}).setdefault(r["file"], draw(st.sampled_from(CONTENTS)))
                continue
            kinds = ["input", "data"]
            if i > 0:
                kinds += ["comp"] * 4
            if flags["ext"]:
                kinds += ["ext"] * 2
            if flags["ddir"]:
                kinds += ["ddir"] * 2
            t = draw(st.sampled_from(kinds))
            r = {"t": t}
            if t == "comp":
                j = draw(st.integers(0, i - 1))
                r["j"] = j
                same_stage = W["comps"][j]["stage"] == stage
                r["file"] = draw(st.sampled_from([None, None] + PFILES))
                if r["file"] is None:
                    ms = DIR_METHODS + ["output"]
                    r["m"] = draw(st.sampled_from(ms))
                    if r["m"] in ("copy", "link") and flags["dirout"]:
                        r["args"] = draw(st.booleans())
                    else:
                        r["args"] = True
                else:
                    r["args"] = draw(st.sampled_from([True, True, False]))
                    r["m"] = draw(st.sampled_from(FILE_METHODS_ARGS if r["args"] else FILE_METHODS_NOARGS))
                r["abs"] = True if not same_stage else draw(st.booleans())
                r["aabs"] = True if not same_stage else draw(st.booleans())
            elif t == "ddir":
                r["f"] = draw(st.sampled_from(["dd", "dd2"]))
                r["m"] = draw(st.sampled_from(DIR_METHODS))
                r["args"] = True if r["m"] == "ref" else draw(st.booleans())
            else:
                r["f"] = draw(st.sampled_from(IFILES))
                r["args"] = draw(st.sampled_from([True, True, False]))
                r["m"] = draw(st.sampled_from(FILE_METHODS_ARGS if r["args"] else FILE_METHODS_NOARGS))
            k = _ref_key(r)
            if k in seen:
                continue
            seen.add(k)
            comp["refs"].append(r)
            # make sure what is referenced exists
            if t == "comp":
                if r["file"] is not None or r["m"] == "output":
                    fn = r["file"] if r["file"] is not None else STDOUT
                    W["produced"].setdefault(str(r["j"]), {}).setdefault(fn, draw(st.sampled_from(CONTENTS)))
            elif t == "ddir":
                if r["f"] not in W["ddir"]:
                    W["ddir"][r["f"]] = {"p.txt": draw(st.sampled_from(CONTENTS))}
                    if draw(st.booleans()):
                        W["ddir"][r["f"]]["q/r.txt"] = draw(st.sampled_from(CONTENTS))
            else:
                W[t].setdefault(r["f"], draw(st.sampled_from(CONTENTS)))
        # replication -------------------------------------------------------------------------------------
        prod_rep = any(rep[r["j"]] for r in comp["refs"] if r["t"] == "comp")
        has_comp_refs = any(r["t"] == "comp" for r in comp["refs"])
        if flags["rep"] and not has_comp_refs and draw(st.booleans()):
            comp["replicate"] = True
        if prod_rep and draw(st.booleans()):
            comp["aggregate"] = True
        is_rep = comp["replicate"] or (prod_rep and not comp["aggregate"])
        rep.append(is_rep)
        # variables ---------------------------------------------------------------------------------------
        lits = list(LITS)
        if draw(st.sampled_from([False, False, True])):
            v = draw(st.sampled_from(["v", "w"]))
            if draw(st.booleans()):
                comp["vars"][v] = draw(st.sampled_from(["1", "2", "hi"]))
            else:
                W["gvars"].setdefault(v, draw(st.sampled_from(["1", "2", "hi"])))
            lits = ["%%(%s)s" % v, "--p=%%(%s)s" % v] * 3 + lits
        if is_rep:
            lits = ["%(replica)s", "r%(replica)s"] * 2 + lits
        if i > 0:
            lits = lits + [c["name"] for c in W["comps"]]
        # words -------------------------------------------------------------------------------------------
        items = [["r", k] for k, r in enumerate(comp["refs"]) if r["args"]]
        if items and draw(st.sampled_from([False, False, False, True])):
            items.append(draw(st.sampled_from(items)))           # a reference used twice
        for _ in range(draw(st.integers(0 if items else 1, 3))):
            items.append(["l", draw(st.sampled_from(lits))])
        items = draw(st.permutations(items))
        for it in items:
            if it[0] == "r":
                word = []
                p = draw(st.sampled_from(PREFIXES))
                if p:
                    word.append(["l", p])
                word.append(it)
                s = draw(st.sampled_from(SUFFIXES))
                if s:
                    word.append(["l", s])
                comp["words"].append(word)
            else:
                comp["words"].append([it])
        # backend -----------------------------------------------------------------------------------------
        b = draw(st.sampled_from(["local"] * 4 + ["k8s", "lsf", "lsf-noimg", "local-unused-image"]))
        if b == "local-unused-image":
            # the definition mentions a container image that the active (local) backend does not use
            comp["backend"] = ["local", draw(st.sampled_from(IMAGES)), draw(st.sampled_from(["k8s", "lsf"]))]
        elif b == "k8s":
            comp["backend"] = ["k8s", draw(st.sampled_from(IMAGES))]
        elif b == "lsf":
            comp["backend"] = ["lsf", draw(st.sampled_from(IMAGES))]
        elif b == "lsf-noimg":
            comp["backend"] = ["lsf", None]
        W["comps"].append(comp)
    return W


# ---------------------------------------------------------------------------------------------------------------
# replication model
def replicated(W):
    rep = []
    for c in W["comps"]:
        prod_rep = any(rep[r["j"]] for r in c["refs"] if r["t"] == "comp")
        rep.append(bool(c["replicate"] or (prod_rep and not c["aggregate"])))
    return rep


def nodes(W):
    """[(comp index, replica or None)] in a fixed order."""
    out = []
    for i, is_rep in enumerate(replicated(W)):
        if is_rep:
            out.extend((i, r) for r in range(W["N"]))
        else:
            out.append((i, None))
    return out


def node_name(W, node):
    i, r = node
    return W["comps"][i]["name"] + ("" if r is None else str(r))


def node_id(W, node):
    return "stage%d.%s" % (W["comps"][node[0]]["stage"], node_name(W, node))


def ref_targets(W, node, ref, rep=None):
    """For a component reference: the producer nodes it stands for from the point of view of `node`."""
    rep = rep or replicated(W)
    i, r = node
    j = ref["j"]
    if not rep[j]:
        return [(j, None)]
    if rep[i]:
        return [(j, r)]
    return [(j, q) for q in range(W["N"])]       # aggregating consumer


def produced_content(W, pnode, fname):
    c = W["produced"].get(str(pnode[0]), {}).get(fname)
    if c is None:
        return None
    return c if pnode[1] is None else "%s@%d" % (c, pnode[1])


# ---------------------------------------------------------------------------------------------------------------
# rendering
def ref_text(W, comp, ref, absolute, target=None, extroot=None):
    """Reference string as written in the package (target: replicated producer node for expanded texts)."""
    t = ref["t"]
    if t == "comp":
        p = W["comps"][ref["j"]]
        name = p["name"] if target is None else node_name(W, target)
        s = ("stage%d.%s" % (p["stage"], name)) if absolute else name
        if ref["file"] is not None:
            s += "/" + ref["file"]
    elif t == "input":
        s = "input/" + ref["f"]
    elif t == "data":
        s = "data/" + ref["f"]
    elif t == "ddir":
        s = "data/" + ref["f"]
    else:
        s = "%s/%s/%s" % (extroot, W["extdir"], ref["f"])
    return "%s:%s" % (s, ref["m"])


def render(W, extroot):
    """-> (flowir dict, package extra files, {"input": {...}, "ext": {...}})"""
    comps = []
    for c in W["comps"]:
        words = []
        for word in c["words"]:
            s = ""
            for part in word:
                if part[0] == "l":
                    s += part[1]
                else:
                    ref = c["refs"][part[1]]
                    s += ref_text(W, c, ref, ref.get("aabs", True), extroot=extroot)
            words.append(s)
        d = {"name": c["name"], "stage": c["stage"],
             "command": {"executable": c["exe"], "arguments": " ".join(words)},
             "references": [ref_text(W, c, r, r.get("abs", True), extroot=extroot) for r in c["refs"]]}
        wa = {}
        if c["replicate"]:
            wa["replicate"] = W["N"]
        if c["aggregate"]:
            wa["aggregate"] = True
        if wa:
            d["workflowAttributes"] = wa
        if c["vars"]:
            d["variables"] = dict(c["vars"])
        b = c["backend"]
        if b[0] == "k8s":
            d["resourceManager"] = {"config": {"backend": "kubernetes"}, "kubernetes": {"image": b[1]}}
        elif b[0] == "lsf":
            d["resourceManager"] = {"config": {"backend": "lsf"},
                                    "lsf": {"dockerImage": b[1]} if b[1] else {"queue": "normal"}}
        elif len(b) > 2 and b[1]:
            d["resourceManager"] = {"config": {"backend": "local"}}
            d["resourceManager"].update({"kubernetes": {"image": b[1]}} if b[2] == "k8s" else {"lsf": {"dockerImage": b[1]}})
        for k, v in c["extra"].items():
            if isinstance(v, dict) and isinstance(d.get(k), dict):
                for k2, v2 in v.items():
                    if isinstance(v2, dict) and isinstance(d[k].get(k2), dict):
                        d[k][k2].update(v2)
                    else:
                        d[k][k2] = v2
            else:
                d[k] = copy.deepcopy(v)
        comps.append(d)
    flowir = {"components": comps}
    variables = {}
    if W["gvars"]:
        variables["global"] = dict(W["gvars"])
    if W["stage_names"]:
        variables["stages"] = {int(s): {"stage-name": n} for s, n in W["stage_names"].items()}
    if variables:
        flowir["variables"] = {"default": variables}
    extra = {"data/keep.txt": "keep"}
    for f, content in W["data"].items():
        if content is not None:
            extra["data/" + f] = content
    for dname, files in W["ddir"].items():
        for f, content in files.items():
            extra["data/%s/%s" % (dname, f)] = content
    post = {"input": {f: expand_content(c) for f, c in W["input"].items() if c is not None},
            "ext": {"%s/%s" % (W["extdir"], f): expand_content(c) for f, c in W["ext"].items() if c is not None}}
    extra = {k: expand_content(v) for k, v in extra.items()}
    return flowir, extra, post


# ---------------------------------------------------------------------------------------------------------------
# descriptor (the oracle's notion of "the same work")
_VAR = re.compile(r"%\(([A-Za-z_0-9.-]+)\)s")


def _resolve(text, W, comp, replica):
    def sub(m):
        v = m.group(1)
        if v == "replica" and replica is not None:
            return str(replica)
        if v in comp["vars"]:
            return str(comp["vars"][v])
        return str(W["gvars"][v])
    return _VAR.sub(sub, text)


def descriptor(W, node, erase=frozenset(), _memo=None):
    """Canonical JSON string, or MISSING / UNDEF.

    `erase` (only used to *classify* a violation, never to decide one): "dirout" drops directory references to
    producers that are not mentioned in the arguments, "ddir" blanks the contents of direct directory references."""
    if _memo is None:
        _memo = {}
    key = (node, erase)
    if key in _memo:
        return _memo[key]
    rep = replicated(W)
    i, r = node
    c = W["comps"][i]
    own_missing = False
    undef = False
    per_ref = []
    for ref in c["refs"]:
        t = ref["t"]
        descs = []
        if t == "comp":
            for tgt in ref_targets(W, node, ref, rep):
                if ref["file"] is not None or ref["m"] == "output":
                    content = produced_content(W, tgt, ref["file"] if ref["file"] is not None else STDOUT)
                    if content is None:
                        own_missing = True
                    descs.append(["file", content, ref["m"]])
                else:
                    d = descriptor(W, tgt, erase, _memo)
                    if d in (MISSING, UNDEF):
                        undef = True
                    if "dirout" in erase and not ref["args"]:
                        descs.append(None)
                    else:
                        descs.append(["dir", d, ref["m"]])
        elif t == "ddir":
            content = sorted(W["ddir"][ref["f"]].items())
            if "ddir" not in erase:
                descs.append(["ddir", content, ref["m"]])
            else:
                descs.append(None if not ref["args"] else ["ddir-erased", ref["m"]])
        else:
            content = W[t].get(ref["f"])
            if content is None:
                own_missing = True
            descs.append(["file", content, ref["m"]])
        per_ref.append(descs)
    if own_missing or undef:
        _memo[key] = MISSING if own_missing else UNDEF
        return _memo[key]
    args = []

    def lit(s):
        if args and isinstance(args[-1], str):
            args[-1] += s
        else:
            args.append(s)
    for wi, word in enumerate(c["words"]):
        if wi:
            lit(" ")
        for part in word:
            if part[0] == "l":
                lit(_resolve(part[1], W, c, r))
            else:
                for k, dsc in enumerate(per_ref[part[1]]):
                    if k:
                        lit(" ")
                    args.append(dsc if dsc is not None else ["erased"])
    b = c["backend"]
    image = b[1] if b[0] in ("k8s", "lsf") else None
    files = sorted(json.dumps(x, sort_keys=True) for ds in per_ref for x in ds if x is not None)
    out = json.dumps({"exe": _resolve(c["exe"], W, c, r), "image": image, "args": args, "files": files},
                     sort_keys=True)
    _memo[key] = out
    return out


# ---------------------------------------------------------------------------------------------------------------
# features used to classify violations (independent predicates on the input)
def arg_ref_texts(W, comp, extroot="/EXT"):
    out = []
    for word in comp["words"]:
        for part in word:
            if part[0] == "r":
                ref = comp["refs"][part[1]]
                out.append(ref_text(W, comp, ref, ref.get("aabs", True), extroot=extroot))
    return sorted(set(out))


def features(W, node, _seen=None):
    """Set of feature names of `node` and of every producer whose *hash* its own hash is built from."""
    i, r = node
    c = W["comps"][i]
    f = set()
    if c["name"][-1] in "0123456789":
        f.add("digit-name")
    texts = arg_ref_texts(W, c)
    if any(a != b and a in b for a in texts for b in texts):
        f.add("ref-inside-ref")
    for ref in c["refs"]:
        if ref["t"] == "ext" and ref["args"]:
            f.add("ext-in-args")
        if ref["t"] == "ddir":
            f.add("ddir")
        if ref["t"] == "comp" and ref["file"] is None and ref["m"] != "output":
            if not ref["args"]:
                f.add("dirout")
            for tgt in ref_targets(W, node, ref):
                f |= features(W, tgt)
    return f


# ---------------------------------------------------------------------------------------------------------------
# single-aspect mutations
RELEVANT = {"exe", "lit", "content", "method", "image", "var", "swap", "dropref", "ddir-content"}
IRRELEVANT = {"none", "rename", "restage", "stagename", "spell", "addvar", "frename", "addcomp", "permrefs",
              "resources", "extpath"}


@st.composite
def mutation(draw, W):
    comps = W["comps"]
    n = len(comps)
    options = ["exe", "exe", "rename", "rename", "restage", "stagename", "addvar", "addcomp", "image", "image", "resources",
               "rename-digit", "none"]
    i = draw(st.integers(0, n - 1))
    c = comps[i]
    lit_pos = [(wi, pi) for wi, w in enumerate(c["words"]) for pi, p in enumerate(w) if p[0] == "l"]
    if lit_pos:
        options += ["lit", "lit"]
    if len(c["words"]) >= 2:
        options += ["swap", "swap"]
    if c["refs"]:
        options += ["method", "method", "permrefs", "dropref"]
    if any(r["t"] == "comp" and comps[r["j"]]["stage"] == c["stage"] for r in c["refs"]):
        options += ["spell"] * 4
    files = []
    for t in ("input", "data", "ext"):
        files += [[t, f] for f in sorted(W[t])]
    for j in sorted(W["produced"]):
        files += [["prod", int(j), f] for f in sorted(W["produced"][j])]
    if files:
        options += ["content"] * 4 + ["missing"] * 2 + ["frename"]
    if W["ddir"]:
        options += ["ddir-content"] * 4
    if W["ext"]:
        options += ["extpath"] * 3
    if W["gvars"] or any(x["vars"] for x in comps):
        options += ["var", "var"]
    # references whose text contains the text of another reference: make changes to the producers involved likely
    for ci, cc in enumerate(comps):
        texts = arg_ref_texts(W, cc)
        if any(a != b and a in b for a in texts for b in texts):
            for r in cc["refs"]:
                if r["t"] == "comp":
                    options += ["exe@%d" % r["j"]] * 2
            options += ["restage"] * 8
    # Hypothesis prefers the first element of a sampled_from; rotate by a function of W so that the preferred
    # mutation kind differs from workflow to workflow (deterministic in W, no randomness of our own)
    rot = _stable_hash(W) % len(options)
    options = options[rot:] + options[:rot]
    k = draw(st.sampled_from(options))
    if k.startswith("exe@"):
        i = int(k[4:])
        c = comps[i]
        k = "exe"
    m = {"k": k}
    if k == "exe":
        m.update(i=i, to=draw(st.sampled_from([e for e in EXES if e != c["exe"]])))
    elif k in ("rename", "rename-digit"):
        m["k"] = "rename"
        taken = {x["name"] for x in comps if x["stage"] == c["stage"]} | RESERVED
        allow_digits = k == "rename-digit" or W["flags"]["digits"]
        if W["flags"]["rep"]:
            pool = (REP_NAMES_DIGIT if k == "rename-digit" else []) + (REP_NAMES if k != "rename-digit" else []) + \
                   (REP_NAMES_DIGIT if allow_digits else [])
            pool = [x for x in pool if x not in {y["name"] for y in comps}] or ["Zq7" if k == "rename-digit" else "Zq"]
            cand = draw(st.sampled_from(pool))
        else:
            cand = draw(_name(allow_digits))
            if k == "rename-digit" and cand[-1] not in "0123456789":
                cand += draw(st.sampled_from(["1", "2", "10"]))
        while cand in taken:
            cand += "q"
        m.update(i=i, to=cand)
    elif k == "restage":
        m.update(s=draw(st.integers(0, comps[-1]["stage"])))
    elif k == "stagename":
        m.update(s=draw(st.integers(0, comps[-1]["stage"])), to=draw(st.sampled_from(["Setup", "main", "stage0", "A"])))
    elif k == "addvar":
        m.update(name=draw(st.sampled_from(["unrelated", "zz", "V"])), to=draw(st.sampled_from(["1", "x", "echo"])),
                 scope=draw(st.sampled_from(["g", i])))
    elif k == "addcomp":
        m.update(stage=draw(st.integers(0, comps[-1]["stage"])), exe=draw(st.sampled_from(EXES)))
    elif k == "image":
        cur = c["backend"]
        cands = [["local"], ["lsf", None]] + [[b, img] for b in ("k8s", "lsf") for img in IMAGES] + \
                [["local", img, kind] for kind in ("k8s", "lsf") for img in IMAGES]     # image defined but unused
        cur_img = cur[1] if len(cur) > 1 else None
        # a change of the *image* (a move between backends with the same image is "resources")
        cands = [x for x in cands if (x[1] if len(x) > 1 else None) != cur_img]
        m.update(i=i, to=draw(st.sampled_from(cands)))
    elif k == "resources":
        kind = draw(st.sampled_from(["threads", "walltime", "backend-same-image"]))
        if kind == "threads":
            m.update(i=i, to={"resourceRequest": {"numberThreads": draw(st.integers(2, 4))}})
        elif kind == "walltime":
            m.update(i=i, to={"resourceManager": {"config": {"walltime": float(draw(st.integers(61, 90)))}}})
        else:
            cur = c["backend"]
            if cur[0] == "k8s":
                m.update(i=i, backend=["lsf", cur[1]])
            elif cur[0] == "lsf" and cur[1]:
                m.update(i=i, backend=["k8s", cur[1]])
            elif cur[0] == "lsf":
                m.update(i=i, backend=["local"])
            else:
                m.update(i=i, backend=["lsf", None])
    elif k == "lit":
        wi, pi = draw(st.sampled_from(lit_pos))
        old = c["words"][wi][pi][1]
        standalone = len(c["words"][wi]) == 1
        pool = [x for x in (LITS if standalone else ["-g=", "q,", "--out="] if pi == 0 else [",y", ",zz"]) if x != old]
        m.update(i=i, w=wi, p=pi, to=draw(st.sampled_from(pool)))
    elif k == "swap":
        a = draw(st.integers(0, len(c["words"]) - 2))
        m.update(i=i, a=a, b=draw(st.integers(a + 1, len(c["words"]) - 1)))
    elif k == "method":
        ri = draw(st.integers(0, len(c["refs"]) - 1))
        r = c["refs"][ri]
        if r["t"] == "comp" and r["file"] is None and r["m"] == "output":
            pool = []           # stdout reference: the method is what makes it a file reference
        elif r["t"] == "ddir" or (r["t"] == "comp" and r["file"] is None):
            pool = DIR_METHODS if r["args"] else ["copy", "link"]
        else:
            pool = FILE_METHODS_ARGS if r["args"] else FILE_METHODS_NOARGS
        pool = [x for x in pool if x != r["m"]]
        if not pool:
            m = {"k": "none"}
        else:
            m.update(i=i, r=ri, to=draw(st.sampled_from(pool)))
    elif k == "permrefs":
        m.update(i=i, perm=draw(st.permutations(list(range(len(c["refs"]))))))
    elif k == "dropref":
        cands = [ri for ri, r in enumerate(c["refs"]) if not r["args"]]
        if not cands:
            m = {"k": "none"}
        else:
            m.update(i=i, r=draw(st.sampled_from(cands)))
    elif k == "spell":
        cands = [ri for ri, r in enumerate(c["refs"]) if r["t"] == "comp" and comps[r["j"]]["stage"] == c["stage"]]
        m.update(i=i, r=draw(st.sampled_from(cands)), which=draw(st.sampled_from(["abs", "aabs", "both"])))
    elif k in ("content", "missing"):
        where = draw(st.sampled_from(files))
        if k == "content":
            cur = _get_file(W, where)
            others = [x for x in CONTENTS + ["Z"] if x != cur]
            if isinstance(cur, str) and cur.startswith("@BIG:"):
                others += [x for x in others if x.startswith("@BIG:")] * 6
            m.update(where=where, to=draw(st.sampled_from(others)))
        else:
            m.update(where=where)
    elif k == "frename":
        where = draw(st.sampled_from(files))
        m.update(where=where, to=draw(st.sampled_from(["renamed.txt", "n/m.txt", "z.dat"])))
    elif k == "ddir-content":
        d = draw(st.sampled_from(sorted(W["ddir"])))
        f = draw(st.sampled_from(sorted(W["ddir"][d])))
        m.update(d=d, f=f, to=draw(st.sampled_from([x for x in CONTENTS + ["Z"] if x != W["ddir"][d][f]])))
    elif k == "var":
        scopes = [["g", v] for v in sorted(W["gvars"])] + [[ci, v] for ci, x in enumerate(comps) for v in sorted(x["vars"])]
        sc, v = draw(st.sampled_from(scopes))
        cur = W["gvars"][v] if sc == "g" else comps[sc]["vars"][v]
        m.update(scope=sc, name=v, to=draw(st.sampled_from([x for x in ["1", "2", "hi", "3"] if x != cur])))
    return m


def _stable_hash(obj):
    import hashlib
    return int.from_bytes(hashlib.blake2b(json.dumps(obj, sort_keys=True).encode(), digest_size=4).digest(), "big")


def _get_file(W, where):
    if where[0] == "prod":
        return W["produced"][str(where[1])].get(where[2])
    return W[where[0]].get(where[1])


def apply_mutation(W, m):
    """W' = W with the single change m; m that would leave W' ill-formed (a component that stops being replicated
    although it uses %(replica)s) degrades to the identity."""
    W2 = _apply_mutation(W, m)
    rep = replicated(W2)
    for c, is_rep in zip(W2["comps"], rep):
        if not is_rep and any(p[0] == "l" and "%(replica)s" in p[1] for w in c["words"] for p in w):
            return copy.deepcopy(W)
    return W2


def _apply_mutation(W, m):
    W = copy.deepcopy(W)
    k = m["k"]
    comps = W["comps"]
    if k == "none":
        pass
    elif k == "exe":
        comps[m["i"]]["exe"] = m["to"]
    elif k == "rename":
        comps[m["i"]]["name"] = m["to"]
    elif k == "restage":
        for c in comps:
            if c["stage"] >= m["s"]:
                c["stage"] += 1
        W["stage_names"] = {str(int(s) + (1 if int(s) >= m["s"] else 0)): n for s, n in W["stage_names"].items()}
        _add_filler(W, m["s"], "echo")
    elif k == "stagename":
        W["stage_names"][str(m["s"])] = m["to"]
    elif k == "addvar":
        if m["scope"] == "g":
            W["gvars"][m["name"]] = m["to"]
        else:
            comps[m["scope"]]["vars"][m["name"]] = m["to"]
    elif k == "addcomp":
        _add_filler(W, m["stage"], m["exe"])
    elif k == "image":
        comps[m["i"]]["backend"] = m["to"]
    elif k == "resources":
        if "backend" in m:
            comps[m["i"]]["backend"] = m["backend"]
        else:
            comps[m["i"]]["extra"] = m["to"]
    elif k == "lit":
        comps[m["i"]]["words"][m["w"]][m["p"]][1] = m["to"]
    elif k == "swap":
        ws = comps[m["i"]]["words"]
        ws[m["a"]], ws[m["b"]] = ws[m["b"]], ws[m["a"]]
    elif k == "method":
        comps[m["i"]]["refs"][m["r"]]["m"] = m["to"]
    elif k == "permrefs":
        c = comps[m["i"]]
        perm = m["perm"]
        inv = {old: new for new, old in enumerate(perm)}
        c["refs"] = [c["refs"][old] for old in perm]
        for w in c["words"]:
            for p in w:
                if p[0] == "r":
                    p[1] = inv[p[1]]
    elif k == "dropref":
        c = comps[m["i"]]
        del c["refs"][m["r"]]
        for w in c["words"]:
            for p in w:
                if p[0] == "r" and p[1] > m["r"]:
                    p[1] -= 1
    elif k == "spell":
        r = comps[m["i"]]["refs"][m["r"]]
        for key in (["abs", "aabs"] if m["which"] == "both" else [m["which"]]):
            r[key] = not r[key]
    elif k == "content":
        _set_file(W, m["where"], m["to"])
    elif k == "missing":
        _set_file(W, m["where"], None)
    elif k == "frename":
        where = m["where"]
        if where[0] == "prod":
            d = W["produced"][str(where[1])]
            old = where[2]
            if old == STDOUT or m["to"] in d:
                return W
            d[m["to"]] = d.pop(old)
            for c in comps:
                for r in c["refs"]:
                    if r["t"] == "comp" and r["j"] == where[1] and r["file"] == old:
                        r["file"] = m["to"]
        else:
            d = W[where[0]]
            if m["to"] in d:
                return W
            d[m["to"]] = d.pop(where[1])
            for c in comps:
                for r in c["refs"]:
                    if r["t"] == where[0] and r["f"] == where[1]:
                        r["f"] = m["to"]
    elif k == "ddir-content":
        W["ddir"][m["d"]][m["f"]] = m["to"]
    elif k == "extpath":
        W["extdir"] = "e1"
    elif k == "var":
        if m["scope"] == "g":
            W["gvars"][m["name"]] = m["to"]
        else:
            comps[m["scope"]]["vars"][m["name"]] = m["to"]
    else:
        raise ValueError("unknown mutation %r" % (m,))
    return W


def _set_file(W, where, content):
    if where[0] == "prod":
        W["produced"][str(where[1])][where[2]] = content
    else:
        W[where[0]][where[1]] = content


def _add_filler(W, stage, exe):
    names = {c["name"] for c in W["comps"] if c["stage"] == stage}
    name = "zfill"
    while name in names:
        name += "z"
    W["comps"].append({"name": name, "stage": stage, "exe": exe, "words": [[["l", "filler"]]], "refs": [],
                       "backend": ["local"], "replicate": False, "aggregate": False, "vars": {}, "extra": {}})


@st.composite
def case(draw):
    W = draw(workflow())
    m = draw(mutation(W))
    return {"w": W, "mut": m}
