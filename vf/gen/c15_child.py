"""C15 child process: render a batch of packages, load each through the real loaders, dump a canonical JSON.

Run as a plain script (NOT through the vf package, to keep interpreter start-up small):

    PYTHONHASHSEED=<seed> python c15_child.py <job.json> <out.json>

The job (written once by the parent) holds the abstract documents of N packages. This process
  * renders them below job["work"] with its own *key order* for every YAML mapping / INI section (job["keyperm"]),
  * makes os.listdir / os.scandir return entries in its own order (job["listperm"]),
  * loads every package through three routes and writes one canonical dump per package:
      conf       ExperimentConfigurationFactory.configurationForExperiment(path, variable_files=[...], primitive=False)
      graph      ExperimentPackage.packageFromLocation + WorkflowGraph.graphFromPackage(variable_files=[...],
                 primitive=False)
      experiment ExperimentPackage.packageFromLocation + Experiment.experimentFromPackage(variable_files=[...])
                 (+ validateExperiment): component names, edges, environments, resolved configurations and
                 memoization hashes of the instantiated experiment.
Permutations are pure functions of (seed, name): no randomness of its own.
"""
import hashlib
import json
import os
import shutil
import sys
import traceback

HASHSEED = os.environ.get("PYTHONHASHSEED")
if sys.path and os.path.abspath(sys.path[0]) == os.path.dirname(os.path.abspath(__file__)):
    del sys.path[0]                     # the helper modules next to this script are not importable top-level names


# ------------------------------------------------------------------------------------------------------------
def _rank(seed, *parts):
    s = "|".join([str(seed)] + [str(p) for p in parts]).encode()
    return hashlib.blake2b(s, digest_size=8).digest()


def permute_names(names, seed, where=""):
    """A permutation of `names` that is a pure function of (seed, where, name); seed None -> sorted order."""
    names = list(names)
    if seed is None:
        return sorted(names, key=str)
    return sorted(names, key=lambda n: _rank(seed, where, n))


def permute_keys(obj, seed, path=""):
    """Rebuild every mapping with permuted insertion order (lists keep their order)."""
    if isinstance(obj, dict):
        if seed is None:
            keys = list(obj)
        else:
            keys = permute_names(list(obj), seed, path)
        return {k: permute_keys(obj[k], seed, "%s/%s" % (path, k)) for k in keys}
    if isinstance(obj, list):
        return [permute_keys(v, seed, "%s[%d]" % (path, i)) for i, v in enumerate(obj)]
    return obj


def intify(obj):
    """Documents travel as JSON: decimal mapping keys (stage indexes) become ints again."""
    if isinstance(obj, dict):
        return {(int(k) if isinstance(k, str) and k.isdigit() else k): intify(v) for k, v in obj.items()}
    if isinstance(obj, list):
        return [intify(v) for v in obj]
    return obj


def canon(obj):
    """JSON-able canonical form: mapping keys as strings (sorted on output), sets sorted, tuples as lists."""
    if isinstance(obj, dict):
        return {str(k): canon(v) for k, v in obj.items()}
    if isinstance(obj, (set, frozenset)):
        return sorted((canon(v) for v in obj), key=lambda x: json.dumps(x, sort_keys=True, default=str))
    if isinstance(obj, (list, tuple)):
        return [canon(v) for v in obj]
    if obj is None or isinstance(obj, (bool, int, float, str)):
        return obj
    return str(obj)


# ------------------------------------------------------------------------------------------------------------
def install_listing_permutation(seed):
    if seed is None:
        return
    real_listdir = os.listdir
    real_scandir = os.scandir

    def listdir(path="."):
        names = real_listdir(path)
        try:
            where = os.fsdecode(path) if not isinstance(path, int) else str(path)
        except Exception:
            where = ""
        key = (lambda n: _rank(seed, where, os.fsdecode(n)))
        return sorted(names, key=key)

    class _Scan(object):
        def __init__(self, path):
            with real_scandir(path) as it:
                entries = list(it)
            try:
                where = os.fsdecode(path) if not isinstance(path, int) else str(path)
            except Exception:
                where = ""
            self._entries = iter(sorted(entries, key=lambda e: _rank(seed, where, os.fsdecode(e.name))))

        def __iter__(self):
            return self

        def __next__(self):
            return next(self._entries)

        def __enter__(self):
            return self

        def __exit__(self, *a):
            return False

        def close(self):
            pass

    def scandir(path="."):
        return _Scan(path)

    os.listdir = listdir
    os.scandir = scandir


# ------------------------------------------------------------------------------------------------------------
def write_text(path, text):
    os.makedirs(os.path.dirname(path), exist_ok=True)
    with open(path, "w") as f:
        f.write(text)


def render_ini(doc, seed, where):
    """variables.conf flavour of a user variable file."""
    sections = []
    if "global" in doc:
        sections.append(("GLOBAL", doc["global"]))
    for s in doc.get("stages", {}):
        sections.append(("STAGE%s" % s, doc["stages"][s]))
    if seed is not None:
        sections = sorted(sections, key=lambda kv: _rank(seed, where, kv[0]))
    out = []
    for name, kv in sections:
        out.append("[%s]" % name)
        keys = list(kv) if seed is None else permute_names(list(kv), seed, where + "/" + name)
        for k in keys:
            out.append("%s = %s" % (k, kv[k]))
        out.append("")
    return "\n".join(out)


def render_package(job, pkg):
    """-> (package path, [variable file paths in the order to pass], manifest argument).
    Directory names come from the package's `slot` (stable when a failing package is replayed on its own); variable
    files are addressed relative to the working directory (= job["work"]), packages by absolute path."""
    import yaml
    seed = job["keyperm"]
    work = job["work"]
    idx = pkg["slot"]
    doc = pkg["doc"]
    if pkg["kind"] == "dosini":
        pdir = os.path.join(work, "pkgs", "p%d.package" % idx)
        for rel in permute_names(list(pkg["files"]), seed, "files%d" % idx):
            write_text(os.path.join(pdir, rel), pkg["files"][rel])
        return pdir, [], None
    if pkg["kind"] == "flowir":
        doc = intify(doc)
    doc = permute_keys(doc, seed, "doc%d" % idx)
    text = yaml.safe_dump(doc, sort_keys=False)
    manifest = None
    if pkg["layout"] == "dir":
        pdir = os.path.join(work, "pkgs", "p%d.package" % idx)
        location = pdir
        main = "flowir_package.yaml" if pkg["kind"] == "flowir" else "dsl.yaml"
        files = {"conf/" + main: text}
        files.update(pkg["files"])
    else:
        # a single YAML file; its folders live next to it as src-<folder> and are mapped by an explicit manifest
        pdir = os.path.join(work, "pkgs", "p%d" % idx)
        location = os.path.join(pdir, "wf-p%d.yaml" % idx)
        files = {"wf-p%d.yaml" % idx: text}
        for rel, content in pkg["files"].items():
            files["src-" + rel] = content
        manifest = {}
        for target, (spelling, method) in pkg["manifest"].items():
            src = "src-" + target
            if spelling == "abs":
                src = os.path.join(pdir, src)
            manifest[target] = src if method is None else "%s:%s" % (src, method)
        manifest = permute_keys(manifest, seed, "manifest%d" % idx)
    # the creation order of directory entries follows the permutation too
    for rel in permute_names(list(files), seed, "files%d" % idx):
        write_text(os.path.join(pdir, rel), files[rel])
    vdir = os.path.join("vars", "p%d" % idx)
    paths = []
    for vf in pkg["varfiles"]:
        p = os.path.join(vdir, vf["name"])
        if vf["fmt"] == "conf":
            text = render_ini(vf["doc"], seed, "vf%d/%s" % (idx, vf["name"]))
        else:
            text = yaml.safe_dump(permute_keys(intify(vf["doc"]), seed, "vf%d/%s" % (idx, vf["name"])), sort_keys=False)
        write_text(os.path.join(work, p), text)
        paths.append(p)
    return location, [paths[i] for i in pkg["varorder"]], manifest


# ------------------------------------------------------------------------------------------------------------
def _outcome(fn):
    try:
        out = fn()
        out["outcome"] = "ok"
        return out
    except BaseException as e:           # noqa - the parent decides what an exception means
        return {"outcome": "error:%s" % type(e).__name__, "message": str(e)[:600],
                "trace": traceback.format_exc()[-1500:]}


def _scrub_env(env):
    env = dict(env)
    env.pop("FLOW_RUN_ID", None)          # a fresh uuid per load, by design
    return env


def route_conf(pdir, varpaths, manifest, platform):
    import experiment.model.conf as C
    conf = C.ExperimentConfigurationFactory.configurationForExperiment(
        pdir, platform=platform, variable_files=list(varpaths), createInstanceFiles=False, updateInstanceFiles=False,
        primitive=False, manifest=dict(manifest) if manifest is not None else None)
    concrete = conf.get_flowir_concrete(return_copy=False)
    ids = sorted(concrete.get_component_identifiers(False))
    out = {"components": ["stage%d.%s" % (s, n) for s, n in ids],
           "user_variables": conf.get_user_variables(),
           "variables": concrete.get_workflow_variables(),
           "manifest": conf.manifestData,
           "top_level_folders": sorted(set(conf.top_level_folders)),
           "configurations": {}, "environments": {}}
    for s, n in ids:
        node = "stage%d.%s" % (s, n)
        out["configurations"][node] = conf.configurationForNode(node, raw=False, omitDefault=False, is_primitive=False)
        out["environments"][node] = _scrub_env(conf.environmentForNode(node))
    return out


def _dump_graph(g, memo=False):
    out = {"nodes": sorted(g.graph.nodes), "edges": sorted([a, b] for a, b in g.graph.edges),
           "configurations": {}, "environments": {}, "references": {}}
    for node in sorted(g.graph.nodes):
        out["configurations"][node] = g.configurationForNode(node)
        out["environments"][node] = _scrub_env(g.environmentForNode(node))
        spec = g.graph.nodes[node]["componentSpecification"]
        out["references"][node] = [d.absoluteReference for d in spec.dataReferences]
        if memo:
            out.setdefault("memoization", {})[node] = [spec.memoization_hash, spec.memoization_hash_fuzzy]
    return out


def route_graph(pdir, varpaths, manifest, platform):
    import experiment.model.graph as G
    import experiment.model.storage as S
    pkg = S.ExperimentPackage.packageFromLocation(pdir, platform=platform, manifest=dict(manifest) if manifest is not None else None)
    g = G.WorkflowGraph.graphFromPackage(pkg, platform=platform, primitive=False, variable_files=list(varpaths),
                                         createInstanceConfiguration=False, updateInstanceConfiguration=False)
    out = _dump_graph(g)
    out["user_variables"] = g.configuration.get_user_variables()
    return out


def route_experiment(pdir, varpaths, manifest, platform, location):
    import experiment.model.data as D
    import experiment.model.storage as S
    import yaml
    os.makedirs(location)
    pkg = S.ExperimentPackage.packageFromLocation(pdir, platform=platform, manifest=dict(manifest) if manifest is not None else None)
    exp = D.Experiment.experimentFromPackage(pkg, location=location, timestamp=False, platform=platform,
                                             variable_files=list(varpaths) if varpaths else None,
                                             createApplicationLinks=True, createVirtualEnvLinks=False)
    exp.validateExperiment(checkExecutables=False)
    out = _dump_graph(exp.experimentGraph, memo=True)
    out["user_variables"] = exp.experimentGraph.configuration.get_user_variables()
    vpath = os.path.join(exp.instanceDirectory.inputDir, "variables.yaml")
    if os.path.exists(vpath):
        with open(vpath) as f:
            out["input_variables_file"] = yaml.safe_load(f)
    out["instance_top_level"] = sorted(os.listdir(exp.instanceDirectory.location))
    return out


# ------------------------------------------------------------------------------------------------------------
def main(argv):
    import logging
    logging.disable(logging.CRITICAL)
    with open(argv[1]) as f:
        job = json.load(f)
    # the hash seed is fixed at interpreter start; the launch environment must not differ between children
    os.environ.clear()
    os.environ.update(job["environ"])
    work = job["work"]
    if os.path.isdir(work):
        shutil.rmtree(work)
    os.makedirs(work)
    os.chdir(work)
    try:
        # experiments leave a "shadow" tree under /tmp/chpc-<user>-shadow that nothing removes: keep it in the work dir
        import experiment.model.storage as _S
        _shadow = os.path.join(work, "shadow")
        os.makedirs(_shadow, exist_ok=True)
        _S.ExperimentShadowDirectory.temporaryShadow = classmethod(
            lambda cls, name: _S.ExperimentShadowDirectory(name, _shadow))
    except Exception:
        pass
    rendered = [render_package(job, p) for p in job["pkgs"]]
    install_listing_permutation(job["listperm"])
    dumps = []
    for i, (p, (pdir, varpaths, manifest)) in enumerate(zip(job["pkgs"], rendered)):
        d = {}
        routes = p.get("routes") or ["conf", "graph", "experiment"]
        if "conf" in routes:
            d["conf"] = _outcome(lambda: route_conf(pdir, varpaths, manifest, p["platform"]))
        if "graph" in routes:
            d["graph"] = _outcome(lambda: route_graph(pdir, varpaths, manifest, p["platform"]))
        if "experiment" in routes:
            loc = os.path.join(work, "inst", "p%d" % p["slot"])
            d["experiment"] = _outcome(lambda: route_experiment(pdir, varpaths, manifest, p["platform"], loc))
        dumps.append(canon(d))
    # probes: evidence that the three sources of variation are live in this process
    probe_names = ["conf", "data", "bin", "input", "lib", "Lib", "stages", "output", "aux", "extra"]
    probe_dir = os.path.join(work, "probe")
    for n in probe_names:
        os.makedirs(os.path.join(probe_dir, n))
    out = {"hashseed": HASHSEED, "hash_of_probe": hash("c15-probe") & 0xffff,
           "set_order_probe": list(set(probe_names)),
           "listing_probe": os.listdir(probe_dir),
           "scandir_probe": [e.name for e in os.scandir(probe_dir)],
           "key_order_probe": list(permute_keys({n: 1 for n in probe_names}, job["keyperm"], "probe")),
           "pkgs": dumps}
    tmp = argv[2] + ".tmp"
    with open(tmp, "w") as f:
        json.dump(out, f, sort_keys=True)
    os.replace(tmp, argv[2])
    sys.stdout.flush()
    os._exit(0)


if __name__ == "__main__":
    main(sys.argv)
