"""Grammar-based generator for C09: data references together with the name sets that decide their classification.

A case ("world") is a plain JSON-able dict:

    {"comps":    [[stage, name], ...],                 known components
     "appdeps":  [{"id": "/opt/Foo.application", "name": "foo"}, ...]
                                                       application dependencies as written in FlowIR + the folder
                                                       name they get by the documented rule (lowercase, no dir, no
                                                       extension) -- known *by construction*, never computed by the
                                                       code under test
     "manifest": [[targetFolder, source], ...],        manifest entries (list, so that order survives JSON)
     "vars":     {name: "/abs/path"},                  variables used by `%(name)s` references
     "ctx":      int,                                  stage of the consuming component
     "refs":     [{"stage": None|int, "producer": str, "path": None|str, "method": str}, ...]}

The text of a reference is  [stage<i>.]<producer>[/<path>]:<method>  (see text()). For an absolute path the producer is
the directory ("/a/b") and path the last segment; for `data/x/y` the producer is `data` and the path `x/y`; for a
variable the producer is `%(v)s`.

Everything is built by construction (no filtering): names come from a vocabulary over a small confusable alphabet and a
per-case pool, so that component names, application-dependency names, manifest folders and reference producers collide,
differ only by case, by a digit suffix or by a dotted suffix. (All decisions of one case are decoded from one byte string, see _D:
generation, not the code under test, dominates the cost of this check.)
"""
from __future__ import annotations

import itertools
import re

from hypothesis import strategies as st

# Taken from the documentation (docs of DataReference / FlowIR), deliberately not imported from the code under test.
RESERVED = ["input", "data", "bin", "conf"]
METHODS = ["copy", "link", "ref", "copyout", "extract", "output", "loopref", "loopoutput"]

_PIECES = ["A", "B", "a", "b", "ab", "Ab", "0", "1", "7", "-", "_", ".", "x", "foo", "lib", "stage", "stage1",
           "data", "input", "bin", "conf"]
_FILE_PIECES = ["f", "out", "d", "e", ".txt", ".", "-", "_", "0", "1", "data", "input", "A", "stage1", "x"]

_EXACT_STAGE = re.compile(r"stage[0-9]+")


def repair_name(name: str) -> str:
    """Deterministic repairs so that a generated string is a legal producer / folder name:
    starts with a letter, digit or underscore; does not end in a dot; is not a reserved folder; is not literally
    `stage<i>.<rest>` (that *is* the absolute spelling of <rest>, an ambiguity inherent to the grammar)."""
    name = name.lstrip(".-").rstrip(".")
    if not name or not re.search(r"[A-Za-z0-9]", name):
        name = "n" + name
    if name in RESERVED:
        name += "1"
    if "." in name and _EXACT_STAGE.fullmatch(name.split(".", 1)[0]):
        name = "x" + name
    return name


def _fix_segment(s: str) -> str:
    if not re.search(r"[A-Za-z0-9]", s):          # no `.`, `..`, `-`: a segment always has a letter or digit
        s = "f" + s
    return s


def _vocab(pieces, fix, triples):
    out = []
    for n in (1, 2):
        for combo in itertools.product(pieces, repeat=n):
            out.append(fix("".join(combo)))
    for combo in itertools.product(triples, repeat=3):
        out.append(fix("".join(combo)))
    return sorted(set(out))


NAMES = _vocab(_PIECES, repair_name, ["A", "b", "1", ".", "-", "stage1", "x"])
SEGMENTS = _vocab(_FILE_PIECES, _fix_segment, ["f", ".txt", "0", "-", "d"])
_SHORT_SEGMENTS = ["f", "f.txt", "out", "d", "e", "d.e", "data", "input", "A", "stage1.x", "0", "x-1"]
PATHS = sorted(set(SEGMENTS + ["/".join(c) for c in itertools.product(_SHORT_SEGMENTS, repeat=2)] +
                   ["/".join(c) for c in itertools.product(_SHORT_SEGMENTS[:6], repeat=3)] +
                   # a variable (resolved later, e.g. after replication) inside the FILE part of a reference
                   ["out-%(replica)s.txt", "%(dir)s/a", "d/e-%(v)s", "f.%(ext)s"]))
# legal file parts that are not in normal form (a reference names what was written, not its normal form); only used as
# the file part of references to components / folders, never as (part of) an absolute producer path
NONNORMAL = ["d/", "a//b", "d/./e.txt", "d/../e", "./f", "outputs/"]

_VARIANTS = ["same", "same", "same", "lower", "upper", "cap", "digit", "dotted", "dashed", "prefixed", "fresh", "fresh"]
_SUFFIX = {"digit": ["0", "1", "12"], "dotted": [".x", ".v2", ".1", ".txt"], "dashed": ["-1", "_b", "-x"]}
_PREFIX = ["x", "my-", "stage0-", "stage1_"]


class _D:
    """Decision source: every decision is one 16-bit integer read from a byte string drawn by Hypothesis in a single
    draw (a composite with ~100 separate draws costs 3 ms per case, this costs 0.5 ms). All-zero bytes give the first
    alternative everywhere, which is what the shrinker moves towards."""

    def __init__(self, data: bytes):
        self.data = data
        self.pos = 0

    def i(self, n):
        if n <= 1:
            return 0
        v = int.from_bytes(self.data[self.pos:self.pos + 2], "big")     # exhausted -> 0
        self.pos += 2
        return v % n

    def pick(self, seq):
        return seq[self.i(len(seq))]

    def near(self, src):
        """A name equal or confusingly similar to a member of `src`, or a fresh vocabulary name."""
        how = self.pick(_VARIANTS)
        if how == "fresh" or not src:
            return self.pick(NAMES)
        base = self.pick(src)
        if how == "same":
            v = base
        elif how == "lower":
            v = base.lower()
        elif how == "upper":
            v = base.upper()
        elif how == "cap":
            v = base[:1].upper() + base[1:]
        elif how in _SUFFIX:
            v = base + self.pick(_SUFFIX[how])
        else:
            v = self.pick(_PREFIX) + base
        return repair_name(v)

    def path(self, none_ok=True):
        if none_ok and self.i(5) < 2:
            return None
        return self.pick(PATHS)


def world(max_refs=4, for_validate=False):
    nbytes = 2 * (90 + 12 * max_refs)
    return st.binary(min_size=nbytes, max_size=nbytes).map(lambda b: build_world(_D(b), max_refs, for_validate))


def build_world(d: _D, max_refs=4, for_validate=False):
    pool = [d.pick(NAMES) for _ in range(2 + d.i(3))]

    # -- application dependencies ----------------------------------------------------------------------------
    appdeps = []
    for _ in range(d.pick([0, 1, 1, 2])):
        nm = repair_name(d.near(pool).lower())
        base = d.pick([nm, nm, nm.upper(), nm[:1].upper() + nm[1:]])
        ext = d.pick(["", ".application", ".application", ".package", ".d"])
        if "." in base and not ext:
            ext = ".application"                  # "<name>.<extension>": the last suffix is the extension
        prefix = d.pick(["", "", "/opt/apps/", "/a/b.c/"])
        trailing = d.pick(["", "", "", "/"])
        if nm not in [a["name"] for a in appdeps]:
            appdeps.append({"id": prefix + base + ext + trailing, "name": nm})
    appnames = [a["name"] for a in appdeps]

    # -- manifest ----------------------------------------------------------------------------------------------
    manifest = []
    for _ in range(d.pick([0, 1, 1, 2, 3])):
        if d.i(6) == 0:
            top = d.pick(RESERVED + appnames)     # "may also be the folder of some applicationDependency"
        else:
            top = d.near(pool + appnames)
        depth = d.pick([0, 0, 1, 1, 2])
        key = "/".join([top] + [d.pick(_SHORT_SEGMENTS) for _ in range(depth)])
        src = d.pick(["/src/dir", "/src/other.d", "rel/src"]) + d.pick(["", ":copy", ":link"])
        if key not in [m[0] for m in manifest]:
            manifest.append([key, src])
    mtops = [m[0].split("/")[0] for m in manifest]

    # -- known components -----------------------------------------------------------------------------------------
    comps = []
    for _ in range(1 + d.i(5)):
        name = d.near(pool + appnames + mtops)
        if d.i(10) == 0:
            name = "%d#%s" % (d.i(3), name)
        cid = [d.i(4), name]
        if cid not in comps:
            comps.append(cid)

    ctx = d.pick(comps)[0] if d.i(3) else d.i(4)      # mostly a stage that has components: relative spellings matter
    variables = {}

    # -- references -----------------------------------------------------------------------------------------------
    kinds = ["comp"] * 9 + ["manifest"] * 3 + ["appdep"] * 2 + ["reserved"] * 2 + ["abs"] * 2 + ["var"] * 2
    refs = []
    for _ in range(1 + d.i(max_refs)):
        kind = d.pick(kinds)
        path = d.path()
        stage = None
        if kind == "manifest" and manifest:
            segs = d.pick(manifest)[0].split("/")
            producer = segs[0]
            tail = d.pick(["key", "key", "key+", "other", "none"])
            if tail == "key":
                path = "/".join(segs[1:]) or None
            elif tail == "key+":
                path = "/".join(segs[1:] + [d.path(none_ok=False)])
            elif tail == "none":
                path = None
        elif kind == "appdep" and appnames:
            producer = d.pick(appnames)
        elif kind == "reserved":
            producer = d.pick(RESERVED)
        elif kind == "abs":
            producer = "/" + d.path(none_ok=False)
            path = d.pick(SEGMENTS)
        elif kind == "var":
            vname = d.pick(["v", "my_dir", "p-1"] if for_validate else ["v", "my_dir", "p-1", "a.b", "stage0.x", "data", "0"])
            variables[vname] = "/var/" + vname.replace(".", "_")
            producer = "%(" + vname + ")s"
            if not for_validate and d.i(3) == 0:
                # the variable is only part of the first segment: still a name nobody can know before it is resolved
                producer = d.pick(["run-%s", "%s.dat", "out.%s", "x%sy"]) % producer
        else:
            if for_validate or d.i(3) > 0:
                s, producer = d.pick(comps)
                stage = None if (s == ctx and d.i(2)) else s
                if not for_validate and d.i(8) == 0:
                    path = d.pick(NONNORMAL)
            else:
                producer = d.near(pool + appnames + mtops + [c[1] for c in comps])
                stage = d.pick([None, None, None, 0, 1, 2, 3, 10, 12])
        refs.append({"stage": stage, "producer": producer, "path": path, "method": d.pick(METHODS)})

    return {"comps": comps, "appdeps": appdeps, "manifest": manifest, "vars": variables, "ctx": ctx, "refs": refs}


def text(ref, stage="own") -> str:
    """The reference string, built independently of FlowIR.compile_reference.
    stage: "own" -> as spelled in `ref`; None -> relative spelling; int -> absolute spelling with that stage."""
    s = ref["stage"] if stage == "own" else stage
    out = ref["producer"]
    if ref["path"] is not None:
        out = out + "/" + ref["path"]
    out = out + ":" + ref["method"]
    if s is not None:
        out = "stage%d.%s" % (s, out)
    return out
