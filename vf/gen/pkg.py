"""Helpers turning generated FlowIR documents into on-disk packages and instantiated experiments."""
from __future__ import annotations

import os
import uuid
from typing import Dict, List, Optional

import yaml


def populate_files(location: str, files: Dict[str, str]):
    for path, content in files.items():
        full = os.path.join(location, path)
        os.makedirs(os.path.dirname(full), exist_ok=True)
        mode = 'wb' if isinstance(content, bytes) else 'w'
        with open(full, mode) as f:
            f.write(content)


def write_package(flowir, location: str, extra_files: Optional[Dict[str, str]] = None, is_flowir=True,
                  name: Optional[str] = None) -> str:
    """Writes `<location>/<name>.package/conf/flowir_package.yaml` (+ extra files); returns the package path."""
    package_path = os.path.join(location, '%s.package' % (name or uuid.uuid4().hex[:12]))
    dir_conf = os.path.join(package_path, 'conf')
    os.makedirs(dir_conf)
    if not isinstance(flowir, str):
        flowir = yaml.safe_dump(flowir, sort_keys=False)
    with open(os.path.join(dir_conf, 'flowir_package.yaml' if is_flowir else 'dsl.yaml'), 'w') as f:
        f.write(flowir)
    populate_files(package_path, extra_files or {})
    return package_path


def experiment_from_package_path(package_path: str, location: str, variable_files: Optional[List[str]] = None,
                                 platform: Optional[str] = None, inputs=None, data=None, validate=True,
                                 checkExecutables=False, manifest=None, **kw):
    import experiment.model.data
    import experiment.model.storage
    pkg = experiment.model.storage.ExperimentPackage.packageFromLocation(package_path, platform=platform,
                                                                         **({"manifest": manifest} if manifest else {}))
    exp = experiment.model.data.Experiment.experimentFromPackage(
        pkg, location=location, variable_files=variable_files, inputs=inputs, data=data, platform=platform, **kw)
    if validate:
        exp.validateExperiment(checkExecutables=checkExecutables)
    return exp


def experiment_from_flowir(flowir, location: str, extra_files=None, variable_files=None, platform=None,
                           inputs=None, data=None, validate=True, checkExecutables=False, is_flowir=True,
                           manifest=None, **kw):
    package_path = write_package(flowir, location, extra_files, is_flowir=is_flowir)
    return experiment_from_package_path(package_path, location, variable_files, platform, inputs, data, validate,
                                        checkExecutables, manifest=manifest, **kw)
