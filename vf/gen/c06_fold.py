"""C06 generator — the *fold* strategy.

1. `gen_flat` draws an abstract flat dataflow (the oracle, see vf/model/c06_flat.py): <= 8 leaf steps, each an instance
   of one of <= 3 component templates, each with a unique tag, literal parameter values and a DAG of output references
   (optional path, method). Leaves come in *units* (motifs of 1-3 leaves with internal edges) that may be instantiated
   several times with fresh tags / literals / external producers.
2. `fold` turns the flat dataflow into a DSL 2.0 namespace: units become (shared) workflow templates or are inlined,
   optional inner sub-workflows and wrapper workflows add nesting; for every literal and every edge it chooses how the
   value travels: written inline where it is needed, forwarded through workflow parameters (`%(p)s` with optional
   literal prefix / suffix, one parameter used twice, two adjacent parameters, one parameter shared by several steps),
   declared default vs. supplied vs. overridden, and for references the spelling at the workflow that sees both ends
   (`<a/b>:ref`, `<a>/b:ref`, `"<a>"/b:ref`, partial `<a>` completed lower down with `%(p)s/b:ref` or by the component's
   arguments `%(p)s:ref`).

Everything is drawn through Hypothesis (`Ch`), the result is a plain JSON-able dict {"flat", "doc", "override", "meta"}.
"""
from __future__ import annotations

import copy
from typing import Any, Dict, List, Optional, Tuple

from hypothesis import strategies as st

from ..model import c06_flat as M

ENTRY = "entry-instance"


class Ch:
    """Decision source; every decision shrinks towards the plain option (index 0 / False)."""

    def __init__(self, draw):
        self._draw = draw

    def n(self, n: int) -> int:
        return 0 if n <= 1 else self._draw(st.integers(0, n - 1))

    def pick(self, seq):
        return seq[self.n(len(seq))]

    def chance(self, num: int, den: int) -> bool:
        return self._draw(st.integers(0, den - 1)) >= den - num

    def take(self, pool: List[Any], k: int) -> List[Any]:
        """k distinct elements of pool (k <= len(pool)), in drawn order."""
        pool = list(pool)
        out = []
        for _ in range(k):
            out.append(pool.pop(self.n(len(pool))))
        return out

    def perm(self, seq: List[Any]) -> List[Any]:
        return self.take(list(seq), len(seq))


# ------------------------------------------------------------------------------------------------------------
# 1. flat dataflow
LIT_ALPHABET = "ab01._-"
PATHS = [[], [], ["out.txt"], ["d", "e.txt"], ["a"], ["d"], ["b", "a"]]
METHODS_IN_ARGS = ["ref", "output", "copy"]
METHODS_HIDDEN = ["copy", "link", "ref", "extract", "output"]
EXES = ["echo", "sh", "bin/run.sh", "a"]
CTPL_NAMES = ["gen", "cons", "echo", "a", "b-x", "stage1.sim", "Gen"]


def gen_lit(ch: Ch):
    kind = ch.n(6)
    if kind == 4:
        return ch.pick([0, 3, 42, 7])
    s = "".join(ch.pick(LIT_ALPHABET) for _ in range(1 + ch.n(4)))
    if kind == 5:
        return s + ch.pick(".-_") + s
    return s


def gen_ctpls(ch: Ch) -> List[Dict[str, Any]]:
    n = 1 + ch.n(3)
    names = ch.take(CTPL_NAMES, n)
    out = []
    for t in range(n):
        slots = []
        for name in ["v", "w"][:ch.n(3)]:
            slots.append({"k": "lit", "name": name, "dflt": gen_lit(ch) if ch.chance(1, 2) else None,
                          "twice": ch.chance(1, 5)})
        if t > 0 or ch.chance(1, 3):
            for name in ["r", "s"][:ch.n(3)]:
                slots.append({"k": "ref", "name": name, "dflt": "nil" if ch.chance(1, 2) else None})
            if ch.chance(1, 3):
                slots.append({"k": "hid", "name": "h", "dflt": "none" if ch.chance(2, 3) else None})
        if t > 0 and ch.chance(2, 5):
            slots.append({"k": "argm", "name": "m", "method": ch.pick(METHODS_IN_ARGS)})
        if t == n - 1 and n > 1 and not any(s["k"] in ("ref", "argm") for s in slots):
            slots.append({"k": "ref", "name": "r", "dflt": None})
        ct = {"name": names[t], "slots": slots, "var": ch.chance(1, 6),
              "exe": {"dflt": ch.pick(EXES) if ch.chance(1, 2) else None} if ch.chance(1, 5) else None,
              # an environment written inline whose values refer to parameters (the instance's own tag among them)
              "env": ch.chance(1, 5)}
        out.append(ct)
    return out


def gen_flat(ch: Ch) -> Dict[str, Any]:
    ctpls = gen_ctpls(ch)
    n_units = 1 + ch.n(4)
    units: List[Dict[str, Any]] = []
    budget = 6
    for u in range(n_units):
        k = 1 if u == 0 else min(budget, 1 + ch.n(3))
        if k <= 0:
            break
        budget -= k
        ul = []
        for pos in range(k):
            t = 0 if u == 0 else ch.n(len(ctpls))
            ct = ctpls[t]
            binds = {}
            for s in ct["slots"]:
                if s["k"] == "lit":
                    opts = ["const", "var"] + (["dflt"] if s["dflt"] is not None else [])
                    kind = ch.pick(opts)
                    binds[s["name"]] = {"b": kind, "v": gen_lit(ch) if kind == "const" else None}
                else:
                    opts = (["none"] if s["k"] != "argm" else []) + (["int"] if pos > 0 else []) + \
                           (["ext"] if u > 0 else [])
                    if s["k"] != "argm" and len(opts) > 1 and ch.chance(2, 3):
                        opts = opts[1:]                  # bias towards an edge
                    kind = ch.pick(opts) if opts else "none"
                    method = s["method"] if s["k"] == "argm" else ch.pick(
                        METHODS_HIDDEN if s["k"] == "hid" else METHODS_IN_ARGS)
                    binds[s["name"]] = {"b": kind, "p": ch.n(pos) if kind == "int" else None,
                                        "path": ch.pick(PATHS), "method": method, "vary": ch.chance(1, 4),
                                        "v": None if s.get("dflt") is not None and ch.chance(1, 2) else "nil"}
            if ct["exe"] is not None:
                opts = ["const", "var"] + (["dflt"] if ct["exe"]["dflt"] is not None else [])
                kind = ch.pick(opts)
                binds["exe"] = {"b": kind, "v": ch.pick(EXES) if kind == "const" else None}
            ul.append({"tpl": t, "binds": binds})
        units.append({"leaves": ul})
    seq = list(range(len(units)))
    total = sum(len(u["leaves"]) for u in units)
    for _ in range(ch.n(4)):
        u = ch.n(len(units))
        if total + len(units[u]["leaves"]) > 8:
            continue
        seq.append(u)
        total += len(units[u]["leaves"])

    leaves: List[Dict[str, Any]] = []
    inst_no: Dict[int, int] = {}
    for u in seq:
        unit = units[u]
        first = len(leaves)
        inst = inst_no.get(u, 0)
        inst_no[u] = inst + 1
        for pos, ul in enumerate(unit["leaves"]):
            ct = ctpls[ul["tpl"]]
            vals = {}
            for name, b in ul["binds"].items():
                if name == "exe" or any(s["name"] == name and s["k"] == "lit" for s in ct["slots"]):
                    if b["b"] == "dflt":
                        vals[name] = ["dflt"]
                    elif b["b"] == "const":
                        vals[name] = ["lit", b["v"]]
                    else:
                        vals[name] = ["lit", ch.pick(EXES) if name == "exe" else gen_lit(ch)]
                    continue
                kind = b["b"]
                if kind == "ext" and first == 0:
                    kind = "none"
                if kind == "none":
                    vals[name] = ["dflt"] if b["v"] is None else ["lit", b["v"]]
                elif kind == "int":
                    vals[name] = ["ref", first + b["p"], list(b["path"]), b["method"]]
                else:
                    path, method = b["path"], b["method"]
                    if b["vary"] and inst > 0:
                        path = ch.pick(PATHS)
                        if not any(s["name"] == name and s["k"] == "argm" for s in ct["slots"]):
                            method = ch.pick(METHODS_IN_ARGS)
                    vals[name] = ["ref", ch.n(first), list(path), method]
            idx = len(leaves)
            leaves.append({"tpl": ul["tpl"], "tag": "t%d%s" % (idx, ch.pick(["", "x", "0"])), "vals": vals,
                           "unit": u, "inst": inst, "pos": pos})
    return {"ctpl": ctpls, "leaves": leaves, "units": [len(u["leaves"]) for u in units], "seq": seq}


# ------------------------------------------------------------------------------------------------------------
# 2. fold
STEP_POOL = ["a", "b", "c", "ab", "a.b", "A", "stage1.a", "stage1.b", "a_b", "stage2.c-d", "d", "e-f", "B"]
HAZARD_STEPS = {"roman": ["a-I", "b-I", "a-II", "stage1.a-I"], "digit": ["a1", "b2", "stage1.c3"],
                "stage0": ["stage0.a", "stage0.b"]}
WF_NAMES = ["main", "wf", "inner", "outer", "sub", "a-wf", "b", "c", "stage1.w", "w-x", "w-y", "top", "grp", "blk",
            "stage2.u"]
PARAM_POOL = ["p", "q", "pp", "p.q", "p-q", "P", "v", "tag", "r", "x_1", "replicas"]


class WT:
    def __init__(self):
        self.name: Optional[str] = None
        self.steps: List[Dict[str, Any]] = []
        self.params: List[Dict[str, Any]] = []       # {"name", "has_dflt", "dflt"}
        self.pvals: Dict[str, Dict[Tuple[str, ...], Any]] = {}
        self.inst: List[Tuple[Tuple[str, ...], List[int]]] = []
        self.leafs: List[int] = []                   # containers only: local hole -> flat leaf index
        self.nholes = 0
        self.items: List[Any] = []                   # containers only

    def add_comp(self, tpl: int) -> Dict[str, Any]:
        s = {"kind": "comp", "tpl": tpl, "hole": self.nholes, "name": None, "args": {}}
        self.nholes += 1
        self.steps.append(s)
        return s

    def add_wf(self, wt: "WT", holemap: Optional[List[int]] = None) -> Dict[str, Any]:
        if holemap is None:
            holemap = list(range(self.nholes, self.nholes + wt.nholes))
            self.nholes += wt.nholes
        s = {"kind": "wf", "wt": wt, "holemap": holemap, "name": None, "args": {}}
        self.steps.append(s)
        return s


def _common_suffix_len(strings: List[str]) -> int:
    n = min(len(s) for s in strings)
    k = 0
    while k < n and all(s[len(s) - 1 - k] == strings[0][len(strings[0]) - 1 - k] for s in strings):
        k += 1
    return k


def _common_prefix_len(strings: List[str]) -> int:
    n = min(len(s) for s in strings)
    k = 0
    while k < n and all(s[k] == strings[0][k] for s in strings):
        k += 1
    return k


def _doubled(m: str):
    """(X, sep) when m == X + sep + X with sep one of . - _ ; else None."""
    h = len(m) // 2
    if len(m) >= 3 and len(m) % 2 == 1 and m[h] in ".-_" and m[:h] == m[h + 1:]:
        return m[:h], m[h]
    return None


class Folder:
    def __init__(self, ch: Ch, flat: Dict[str, Any], hazards: bool = True):
        self.ch = ch
        self.flat = flat
        self.hazards = hazards
        self.ctpls = flat["ctpl"]
        self.leaves = flat["leaves"]
        self.labels = set()
        self.wts: List[WT] = []
        self.leafpath: Dict[int, Tuple[str, ...]] = {}
        self.entry_args: Dict[str, Any] = {}
        self.override: Dict[str, Any] = {}

    def new_wt(self) -> WT:
        wt = WT()
        self.wts.append(wt)
        return wt

    # -- structure --------------------------------------------------------------------------------------
    def build_structure(self):
        ch = self.ch
        nunits = len(self.flat["units"])
        unit_wt: Dict[int, Optional[WT]] = {}
        first_leaf_tpls: Dict[int, List[int]] = {}
        for l in self.leaves:
            if l["inst"] == 0:
                first_leaf_tpls.setdefault(l["unit"], []).append(l["tpl"])
        for u in range(nunits):
            k = self.flat["units"][u]
            tpls = first_leaf_tpls[u]
            if k == 1:
                mode = "wf" if ch.chance(1, 4) else "inline"
            else:
                mode = "inline" if ch.chance(1, 4) else "wf"
            if mode == "inline":
                unit_wt[u] = None
                continue
            wt = self.new_wt()
            sub = [h for h in range(k) if ch.chance(1, 2)] if (k >= 2 and ch.chance(2, 5)) else []
            if sub:
                inner = self.new_wt()
                for h in sub:
                    inner.add_comp(tpls[h])
                self.labels.add("inner-subworkflow")
            for h in range(k):
                if h not in sub:
                    s = wt.add_comp(tpls[h])
                    s["hole"] = h
            wt.nholes = k
            if sub:
                wt.add_wf(inner, holemap=list(sub))
            unit_wt[u] = wt
        root = self.new_wt()
        wrappers = [self.new_wt() for _ in range(ch.n(3))]
        parent = {}
        for i, w in enumerate(wrappers):
            parent[i] = root if i == 0 or not ch.chance(1, 2) else wrappers[0]
        containers = [root] + wrappers
        # items in flat order
        inst_leaves: Dict[Tuple[int, int], List[int]] = {}
        for idx, l in enumerate(self.leaves):
            inst_leaves.setdefault((l["unit"], l["inst"]), []).append(idx)
        order = []
        for idx, l in enumerate(self.leaves):
            if (l["unit"], l["inst"]) not in order:
                order.append((l["unit"], l["inst"]))
        for key in order:
            c = ch.pick(containers)
            c.items.append(("unit", key))
        # nested wrappers become items of their parents (dropped when empty)
        for i in reversed(range(len(wrappers))):
            w = wrappers[i]
            if w.items:
                parent[i].items.insert(ch.n(len(parent[i].items) + 1), ("wrapper", w))
            else:
                self.wts.remove(w)

        def finalize(c: WT):
            for kind, what in c.items:
                if kind == "wrapper":
                    finalize(what)
                    c.add_wf(what)
                    c.leafs.extend(what.leafs)
                else:
                    u, _ = what
                    idxs = inst_leaves[what]
                    wt = unit_wt[u]
                    if wt is None:
                        for i in idxs:
                            c.add_comp(self.leaves[i]["tpl"])
                            c.leafs.append(i)
                    else:
                        c.add_wf(wt)
                        c.leafs.extend(idxs)
        finalize(root)
        self.root = root
        # drop unit templates that ended up unused (cannot happen: every unit has an instance) and order templates
        self.assign_names()
        self.instantiate(root, (ENTRY,), root.leafs)

    def assign_names(self):
        ch = self.ch
        hz = ch.n(12)
        hazard = {9: "roman", 10: "digit", 11: "stage0"}.get(hz) if self.hazards else None
        pool = STEP_POOL + (HAZARD_STEPS[hazard] if hazard else [])
        if hazard:
            self.labels.add("hazard-names:" + hazard)
        for wt in self.wts:
            # confusable by construction: every workflow draws from the same small pool, so names repeat across
            # workflows; hazard names are preferred when enabled
            names = ch.take(pool, len(wt.steps))
            for s, n in zip(wt.steps, names):
                s["name"] = n
        used = set(ct["name"] for ct in self.ctpls)
        wf_pool = [n for n in WF_NAMES if n not in used]
        names = ch.take(wf_pool, len(self.wts))
        for wt, n in zip(self.wts, names):
            wt.name = n
        if ch.chance(1, 8):
            self.root.name = ch.pick(["main1", "w2", "stage1.top9"])      # workflow names may end in digits
            self.labels.add("root-name-ends-in-digit")

    def instantiate(self, wt: WT, path: Tuple[str, ...], leafmap: List[int]):
        wt.inst.append((path, leafmap))
        for s in wt.steps:
            if s["kind"] == "comp":
                self.leafpath[leafmap[s["hole"]]] = path + (s["name"],)
            else:
                self.instantiate(s["wt"], path + (s["name"],), [leafmap[h] for h in s["holemap"]])

    # -- values ---------------------------------------------------------------------------------------
    def fresh_param(self, wt: WT, prefer: Optional[str]) -> str:
        used = {p["name"] for p in wt.params}
        if prefer and prefer not in used and self.ch.chance(2, 3):
            return prefer                 # the usual `foo: "%(foo)s"` chain: same name, different value per level
        cands = [n for n in PARAM_POOL if n not in used][:6]
        if not cands:
            i = 0
            while "p%dz" % i in used:
                i += 1
            cands = ["p%dz" % i]
        return self.ch.pick(cands)

    def add_param(self, wt: WT, prefer: Optional[str], values: List[Any], share=True) -> str:
        """A parameter of `wt` whose value for instance i is values[i] (abstract value). Re-uses an existing parameter
        with identical values sometimes (one parameter forwarded to several steps)."""
        ch = self.ch
        paths = [p for p, _ in wt.inst]
        if share:
            for p in wt.params:
                if [wt.pvals[p["name"]][pa] for pa in paths] == values and ch.chance(1, 2):
                    self.labels.add("param-shared-by-steps")
                    return p["name"]
        name = self.fresh_param(wt, prefer)
        p = {"name": name, "has_dflt": False, "dflt": None}
        if all(v[0] == "lit" for v in values):
            mode = ch.n(4)       # 0: no default, 1: default = value of first instance, 2/3: decoy default (overridden)
            if mode == 1:
                p["has_dflt"], p["dflt"] = True, values[0][1]
            elif mode >= 2:
                p["has_dflt"], p["dflt"] = True, ch.pick(["decoy", "zz", 9, ""])
        wt.params.append(p)
        wt.pvals[name] = {pa: v for pa, v in zip(paths, values)}
        return name

    def component_value(self, leaf_idx: int, slot_name: str, kind: str):
        """Abstract value of a component parameter: ('dflt',) | ('lit', v) | ('ref', prod, tail, method)."""
        v = self.leaves[leaf_idx]["vals"].get(slot_name, ["dflt"])
        if v[0] != "ref":
            return tuple(v)
        _, prod, path, method = v
        cpath, ppath = self.leafpath[leaf_idx], self.leafpath[prod]
        L = 0
        while cpath[L] == ppath[L]:
            L += 1
        tail = list(ppath[L + 1:]) + list(path)
        if len(ppath) - L > 1 or len(cpath) - L > 1:
            self.labels.add("edge-crosses-workflow-boundary")
            self.crossing = True
        return ("ref", prod, tuple(tail), None if kind == "argm" else method, len(ppath) - L - 1)

    def spell(self, wt: WT, step: Dict[str, Any], pname: str, vals: List[Any], has_dflt: bool, dflt: Any):
        """Decides the text of argument `pname` of `step` in workflow template `wt` (or omits it)."""
        ch = self.ch
        n = len(vals)
        if all(v[0] == "dflt" for v in vals):
            if ch.chance(3, 4):
                self.labels.add("default-used")
                return
            vals = [("lit", dflt)] * n
            self.labels.add("default-overridden-with-same-value")
        vals = [("lit", dflt) if v[0] == "dflt" else v for v in vals]
        if all(v[0] == "lit" for v in vals):
            if has_dflt and all(v[1] == dflt and type(v[1]) is type(dflt) for v in vals) and ch.chance(1, 2):
                self.labels.add("default-used")
                return
            if has_dflt:
                self.labels.add("default-overridden")
            same = all(v == vals[0] for v in vals)
            if same and not ch.chance(2, 5):
                step["args"][pname] = vals[0][1]
                self.labels.add("literal-inline")
                return
            strings = [M._lit_text(v[1]) for v in vals]
            a = ch.n(_common_prefix_len(strings) + 1) if ch.chance(1, 3) else 0
            b = ch.n(min(_common_suffix_len(strings), min(len(s) for s in strings) - a) + 1) if ch.chance(1, 3) else 0
            if a == 0 and b == 0:
                mids: List[Any] = [v[1] for v in vals]           # keeps the python type (int stays int)
            else:
                mids = [s[a:len(s) - b] for s in strings]
                self.labels.add("param-with-literal-affix")
            pre, suf = strings[0][:a], strings[0][len(strings[0]) - b:] if b else ""
            smids = [M._lit_text(m) for m in mids]
            if any(m == "" for m in smids):
                self.labels.add("empty-param-value")
            dbl = [_doubled(m) for m in smids]
            if all(d is not None for d in dbl) and len({d[1] for d in dbl}) == 1 and ch.chance(2, 3):
                p = self.add_param(wt, pname, [("lit", d[0]) for d in dbl])
                step["args"][pname] = "%s%%(%s)s%s%%(%s)s%s" % (pre, p, dbl[0][1], p, suf)
                self.labels.add("param-used-twice-in-one-value")
                return
            if all(len(m) >= 2 for m in smids) and ch.chance(1, 5):
                p = self.add_param(wt, pname, [("lit", m[:1]) for m in smids])
                q = self.add_param(wt, None, [("lit", m[1:]) for m in smids], share=False)
                if p != q:
                    step["args"][pname] = "%s%%(%s)s%%(%s)s%s" % (pre, p, q, suf)
                    self.labels.add("two-params-in-one-value")
                    return
            p = self.add_param(wt, pname, [("lit", m) for m in mids])
            step["args"][pname] = "%s%%(%s)s%s" % (pre, p, suf)
            self.labels.add("literal-via-param")
            return
        if any(v[0] == "lit" for v in vals):
            p = self.add_param(wt, pname, list(vals))
            step["args"][pname] = "%%(%s)s" % p
            self.labels.add("param-carries-ref-or-literal")
            return
        # all references
        inside = [self.leafpath[v[1]][:len(path)] == path for v, (path, _) in zip(vals, wt.inst)]
        if all(inside):
            texts = set()
            for v, (path, _) in zip(vals, wt.inst):
                texts.add((self.leafpath[v[1]][len(path)],) + tuple(v[2]) + (":", v[3]))
            if len(texts) != 1:
                raise AssertionError("fold: instances of %s disagree on an internal reference: %s" % (wt.name, texts))
            segs = [self.leafpath[vals[0][1]][len(wt.inst[0][0])]] + list(vals[0][2])
            step["args"][pname] = self.spell_ref(segs, vals[0][3], vals[0][4],
                                                 plain=any(len(v) > 5 and v[5] for v in vals))
            return
        if any(inside):
            raise AssertionError("fold: reference is internal for some instances of %s only" % wt.name)
        # forwarded through a parameter of this workflow; optionally complete the reference here
        tails = [v[2] for v in vals]
        methods = {v[3] for v in vals}
        npath = min(len(v[2]) - v[4] for v in vals)          # path segments (not step names) still movable
        maxj = 0
        while maxj < min(len(t) for t in tails) and len({t[len(t) - 1 - maxj] for t in tails}) == 1:
            maxj += 1
        j = 0
        take_method = False
        # a receiver further down wraps this value in quotes ("%(p)s"/path:method): it has to arrive as a bare <...>
        plain_req = any(len(v) > 5 and v[5] for v in vals)
        if len(methods) == 1 and not plain_req:
            lim = min(maxj, npath) if not ch.chance(1, 3) else maxj
            j = ch.n(lim + 1)
            m = next(iter(methods))
            if m is not None:
                take_method = j > 0 or ch.chance(1, 3)
        if j > 0 and j > npath:
            self.labels.add("step-names-appended-to-forwarded-ref")
        suffix = ""
        if j > 0:
            suffix += "/" + "/".join(tails[0][len(tails[0]) - j:])
            self.labels.add("path-appended-to-forwarded-ref")
        if take_method:
            suffix += ":" + next(iter(methods))
            self.labels.add("method-appended-to-forwarded-ref")
        quoted = j > 0 and not plain_req and ch.chance(1, 3)
        up = [("ref", v[1], tuple(v[2][:len(v[2]) - j]), None if take_method else v[3], min(v[4], len(v[2]) - j),
               bool(quoted or plain_req)) for v in vals]
        p = self.add_param(wt, pname, up)
        if quoted:
            # the documented spelling for a parameter that holds a (partial) reference: "%(param)s"/path[:method]
            step["args"][pname] = '"%%(%s)s"%s' % (p, suffix)
            self.labels.add("ref-via-quoted-param")
        else:
            step["args"][pname] = "%%(%s)s%s" % (p, suffix)
        self.labels.add("ref-via-param")

    def spell_ref(self, segs: List[str], method: Optional[str], nsteps: int, plain: bool = False) -> str:
        """Text of a reference written in the workflow whose steps include segs[0]. plain: a bare <...>."""
        ch = self.ch
        i = len(segs) if plain else 1 + ch.n(len(segs))
        inside, outside = segs[:i], segs[i:]
        style = 0 if plain else ch.n(5)
        if style == 3:
            txt = '"<%s>"' % "/".join(inside)
            self.labels.add("ref-form:quoted")
        elif style == 4 and not outside:
            txt = "<%s/>" % "/".join(inside)
            self.labels.add("ref-form:trailing-slash")
        else:
            txt = "<%s>" % "/".join(inside)
            self.labels.add("ref-form:vanilla")
        if outside:
            txt += "/" + "/".join(outside)
            self.labels.add("ref-form:path-outside-brackets")
        if len(segs) > 1 and not outside:
            self.labels.add("ref-form:path-inside-brackets")
        if nsteps > 0:
            self.labels.add("ref-into-nested-workflow")
        if method:
            txt += ":" + method
        else:
            self.labels.add("ref-partial-at-origin")
        return txt

    # -- resolve --------------------------------------------------------------------------------------
    def resolve(self):
        done = set()

        def visit(wt: WT):
            if id(wt) in done:
                return
            done.add(id(wt))
            for s in wt.steps:
                if s["kind"] == "wf":
                    visit(s["wt"])
            for s in wt.steps:
                if s["kind"] == "comp":
                    ct = self.ctpls[s["tpl"]]
                    demands = [("tag", "lit", False, None)]
                    for sl in ct["slots"]:
                        demands.append((sl["name"], sl["k"], sl.get("dflt") is not None, sl.get("dflt")))
                    if ct["exe"] is not None:
                        demands.append(("exe", "lit", ct["exe"]["dflt"] is not None, ct["exe"]["dflt"]))
                    for name, kind, has_dflt, dflt in demands:
                        if name == "tag":
                            vals = [("lit", self.leaves[lm[s["hole"]]]["tag"]) for _, lm in wt.inst]
                        else:
                            vals = [self.component_value(lm[s["hole"]], name, kind) for _, lm in wt.inst]
                        self.spell(wt, s, name, vals, has_dflt, dflt)
                else:
                    child: WT = s["wt"]
                    for p in list(child.params):
                        vals = [child.pvals[p["name"]][path + (s["name"],)] for path, _ in wt.inst]
                        self.spell(wt, s, p["name"], vals, p["has_dflt"], p["dflt"])
            if self.ch.chance(1, 6):
                used = {p["name"] for p in wt.params}
                name = [n for n in ["unused", "p", "q"] + ["unused-%d" % i for i in range(len(used) + 1)]
                        if n not in used][0]
                wt.params.append({"name": name, "has_dflt": True, "dflt": "value-unused", "decoy": True})
                wt.pvals[name] = {pa: ("lit", "value-unused") for pa, _ in wt.inst}
                self.labels.add("unused-param-with-default")

        self.crossing = False
        visit(self.root)
        ch = self.ch
        for p in self.root.params:
            v = self.root.pvals[p["name"]][(ENTRY,)]
            if v[0] != "lit":
                raise AssertionError("fold: a reference reached the entrypoint")
            if p.get("decoy"):
                continue
            same = p["has_dflt"] and p["dflt"] == v[1] and type(p["dflt"]) is type(v[1])
            mode = ch.n(6)
            if same and mode < 3:
                self.labels.add("entry:default-used")
                continue
            if mode == 5:
                if ch.chance(1, 2):
                    self.entry_args[p["name"]] = ch.pick(["stale", 1, "zz"])
                self.override[p["name"]] = v[1]
                self.labels.add("entry:override-arg")
            else:
                self.entry_args[p["name"]] = v[1]
                self.labels.add("entry:default-overridden" if p["has_dflt"] else "entry:supplied")

    # -- rendering ------------------------------------------------------------------------------------
    def render(self) -> Dict[str, Any]:
        ch = self.ch
        comps = []
        for ct in self.ctpls:
            params = [{"name": "tag"}]
            for s in ct["slots"]:
                p = {"name": s["name"]}
                if s.get("dflt") is not None:
                    p["default"] = s["dflt"]
                params.append(p)
            if ct["exe"] is not None:
                p = {"name": "exe"}
                if ct["exe"]["dflt"] is not None:
                    p["default"] = ct["exe"]["dflt"]
                params.append(p)
            c = {"signature": {"name": ct["name"], "parameters": ch.perm(params) if ch.chance(1, 4) else params},
                 "command": {"executable": "%(exe)s" if ct["exe"] is not None else M.DEFAULT_EXE,
                             "arguments": M.args_pattern(ct)}}
            if ct["var"]:
                c["variables"] = {M.VAR_NAME: M.VAR_VALUE}
            if ct.get("env"):
                c["command"]["environment"] = M.env_pattern(ct)
            comps.append(c)
        wfs = []
        for wt in self.wts:
            params = []
            for p in wt.params:
                d = {"name": p["name"]}
                if p["has_dflt"]:
                    d["default"] = p["dflt"]
                params.append(d)
            steps = {}
            for s in wt.steps:
                steps[s["name"]] = self.ctpls[s["tpl"]]["name"] if s["kind"] == "comp" else s["wt"].name
            execute = []
            for s in (ch.perm(wt.steps) if ch.chance(1, 2) else wt.steps):
                e = {"target": "<%s>" % s["name"]}
                if s["args"] or ch.chance(1, 2):
                    e["args"] = dict(s["args"])
                execute.append(e)
            sig = {"name": wt.name}
            if params or ch.chance(1, 2):
                sig["parameters"] = params
            wfs.append({"signature": sig, "steps": steps, "execute": execute})
        if ch.chance(1, 8):
            used = {w["signature"]["name"] for w in wfs} | {c["signature"]["name"] for c in comps}
            name = [n for n in ["orphan", "orphan-x", "orphan-y"] if n not in used][0]
            wfs.append({"signature": {"name": name, "parameters": [{"name": "zz"}]},
                        "steps": {"a": self.ctpls[0]["name"]},
                        "execute": [{"target": "<a>", "args": {"tag": "%(zz)s"}}]})
            self.labels.add("unreachable-workflow-template")
        if ch.chance(1, 3):
            wfs = ch.perm(wfs)
        entry = {"entry-instance": self.root.name, "execute": [{"target": "<entry-instance>"}]}
        if self.entry_args or ch.chance(1, 2):
            entry["execute"][0]["args"] = dict(self.entry_args)
        return {"entrypoint": entry, "workflows": wfs, "components": comps}

    def meta(self) -> Dict[str, Any]:
        depth = max(len(p) for p in self.leafpath.values()) - 1
        use: Dict[str, int] = {}
        for wt in self.wts:
            for s in wt.steps:
                key = "c:%d" % s["tpl"] if s["kind"] == "comp" else "w:%s" % s["wt"].name
                use[key] = use.get(key, 0) + len(wt.inst)
        names = [p[-1] for p in self.leafpath.values()]
        return {"depth": depth, "template_reuse": max(use.values()) if use else 0,
                "workflow_template_reuse": max([v for k, v in use.items() if k[0] == "w"] or [0]),
                "crossing": bool(self.crossing), "labels": sorted(self.labels), "leaves": len(self.leaves),
                "workflows": len(self.wts), "step_name_reused": len(set(names)) < len(names)}


def build_case(ch: Ch, hazards: bool = True) -> Dict[str, Any]:
    flat = gen_flat(ch)
    f = Folder(ch, flat, hazards)
    f.build_structure()
    f.resolve()
    doc = f.render()
    meta = f.meta()
    pub = {"ctpl": flat["ctpl"], "leaves": [{"tpl": l["tpl"], "tag": l["tag"], "vals": l["vals"]}
                                            for l in flat["leaves"]]}
    return {"flat": pub, "doc": doc, "override": f.override, "meta": meta,
            "where": {l["tag"]: "/".join(f.leafpath[i]) for i, l in enumerate(flat["leaves"])}}


@st.composite
def namespace_case(draw):
    return build_case(Ch(draw))


def nontrivial(meta: Dict[str, Any]) -> bool:
    return meta["depth"] >= 2 and meta["template_reuse"] >= 2 and meta["crossing"]
