"""C10 generator: packages whose consumers mix references (in both spellings) with literal text.

A case is a JSON-able dict:
  {"producers": [{"name", "stage"}...],                 plain components (echo), stage <= consumer stage
   "cstage": int,                                       stage of all consumers
   "groups": [ {                                        one argument string each (1-3 per package)
       "refs": [ {"kind": "comp", "p": producer index, "path": str|None, "method": m}
               | {"kind": "direct", "path": "input/f.txt" | "data/x" | "/abs/path", "method": m} ...],
       "decl_rel": [bool per ref]                       spelling used in the `references` list (relative only where
                                                        legal: producer in the consumer's stage)
       "orders": [[permutation of ref indices] ...],    one consumer component per declaration order
       "tokens": [["lit", text] | ["ref", i, "abs"|"rel"] ...]  the argument string (same for every order)
   } ...],
   "contents": {"<path relative to the instance dir>": text}  files behind `:output` references
  }
Only `ref` and `output` references appear in the arguments (the only ones resolveArguments substitutes; any other
`:method` in a command line is documented as unsupported); `copy`/`link`/`copyout`/`extract` references are declared
only (distractors).

Delimiting rules (the repository's own tokeniser is `([.a-zA-Z0-9_/-]|%(var)s)+:(method)`): the character in front
of a reference is never in `[.a-zA-Z0-9_/-]`; the character after it is one of ` , " ' ) ; : /`, the end, or literal text glued on
(`A:refs`, `A:ref_1`: the method keyword ends the reference); literal words contain no `:` (so never `:method`), no `%`,
no `[`. Contents behind `:output` include CR / CRLF line ends and other control characters (read verbatim).
"""
from __future__ import annotations

import re
from typing import List, Optional

from hypothesis import strategies as st

from .workflow import confusable_name, name_ok

SUBST_METHODS = ("ref", "output")
DISTRACTOR_METHODS = ("copy", "link", "copyout", "extract")

PRE_SEPS = [" ", " ", " ", "=", "=", ",", "\"", "'", "(", ";", " -x=", " --in=", " -p ", " run#", " caf\u00e9", "@", "+"]
POST_SEPS = [" ", " ", ",", "\"", "'", ")", ";"]
# literal text glued directly behind a reference (a unit, a plural, a suffix): the method keyword ends the reference
GLUE = ["s", "X", "Kb", "_1", "2", "#", "+x", "\u00e9", "]"]
FILE_POOL = ["f.txt", "o.txt", "d/e.txt", "out.stdout", "q.r/c-d.dat"]
WORDS = ["run", "-x", "--flag", "1", "0.5", "v_1", "stage0", "stage1", "ref", "output", "input", "data", "x.y"]
CONTENT_POOL = ["42", "hello world", "a b  c", "v1\n", "x\n\n", " lead", "multi\nline", "", "0", "-n 3",
                "café", "/some/path", "tab\there", "alpha\r\nbeta\r\n", "step 1/2\rstep 2/2\rdone\n", "cr\r",
                "\x0bvt\x0c", "trail \n",
                # larger than any plausible read buffer / argument limit: the whole file is the value
                " ".join("e%05d" % i for i in range(24000)), "0123456789" * 30000 + "END"]


@st.composite
def _producer_name(draw, existing: List[str], stages: List[int]):
    """Biased towards names that have an existing name as a proper suffix (the only way `X:ref` can sit inside
    `YX:ref`), else the shared confusable-name strategy."""
    mode = draw(st.sampled_from(["left", "left", "left", "conf", "conf", "stagey"]))
    if existing and mode == "left":
        base = draw(st.sampled_from(existing))
        return draw(st.sampled_from(["A", "B", "a", "x", "A-", "B_", "A.", "b.", "AB", "x-"])) + base
    if existing and mode == "stagey":
        i = draw(st.integers(0, len(existing) - 1))
        return "%sstage%d.%s" % (draw(st.sampled_from(["x", "A", "my"])), stages[i], existing[i])
    return draw(confusable_name(existing))


def _usable(cand: str) -> bool:
    # `stage<N>.X` as a component NAME would make its relative spelling the absolute spelling of X (C09's domain)
    return name_ok(cand) and not cand.startswith(("Cons", "Pad")) and len(cand) <= 24 and \
        not re.match(r"stage\d+\.", cand)


@st.composite
def _producers(draw, cstage: int, max_producers: int):
    nprod = draw(st.integers(2, max_producers))
    prods = []
    for i in range(nprod):
        taken = {(p["stage"], p["name"]) for p in prods}
        if prods and cstage > 0 and draw(st.integers(0, 3)) == 3:
            # the same name in another stage (one of the two in the consumer's stage when possible)
            base = draw(st.sampled_from(prods))
            others = [s for s in range(cstage + 1) if (s, base["name"]) not in taken]
            if others:
                stage = cstage if cstage in others and draw(st.booleans()) else draw(st.sampled_from(others))
                prods.append({"name": base["name"], "stage": stage})
                continue
        # at least one producer in the consumer's stage (relative spelling), others anywhere up to it
        stage = cstage if i == 0 else draw(st.sampled_from([cstage, cstage] + list(range(cstage + 1))))
        names = [p["name"] for p in prods]
        for _ in range(6):
            cand = draw(_producer_name(names, [p["stage"] for p in prods]))
            if _usable(cand) and (stage, cand) not in taken:
                break
        else:
            cand = "P%s" % "ABCDEFGH"[i]
        prods.append({"name": cand, "stage": stage})
    return prods


@st.composite
def _group(draw, prods, cstage: int, out_locs: List[str], contents: dict, max_refs: int):
    nprod = len(prods)
    names = [p["name"] for p in prods]
    direct_pool = ["input/f.txt", "data/f.txt", "data/d/e.txt"] + \
                  ["input/%s" % n for n in names[:2]] + ["data/%s" % n for n in names[:2]] + \
                  ["/opt/%s" % names[0], "/opt/data/%s" % names[0], "/opt/input/f.txt"]
    path_pool = FILE_POOL + names[:3] + ["%s/f.txt" % names[0], "input/f.txt", "data/%s" % names[0]]

    nrefs = draw(st.integers(2, max_refs))
    refs = []
    seen = set()

    def add(r):
        k = (r["kind"], r.get("p"), r["path"], r["method"])
        if k in seen:
            return False
        if r["method"] == "output":
            # the harness creates the file: it must not be (inside) another generated file
            loc = target_relpath(prods, r)
            if any(loc.startswith(o + "/") or o.startswith(loc + "/") for o in out_locs):
                return False
            if loc not in out_locs:
                out_locs.append(loc)
        seen.add(k)
        refs.append(r)
        return True

    for _ in range(nrefs):
        how = draw(st.sampled_from(["comp", "comp", "comp", "direct", "direct-pair", "twin", "twin", "twin",
                                    "twin-name"]))
        method = draw(st.sampled_from(["ref", "ref", "ref", "output", "output"]))
        comp_refs = [r for r in refs if r["kind"] == "comp"]
        if how == "twin" and refs:
            # same path and method as an existing reference, other producer (maximises textual overlap); for a direct
            # reference: a component reference whose file path is the direct reference's text (A/input/f.txt:ref)
            base = draw(st.sampled_from(refs))
            if not (base["path"] or "").startswith("/"):
                add({"kind": "comp", "p": draw(st.integers(0, nprod - 1)), "path": base["path"],
                     "method": base["method"]})
        elif how == "twin-name" and comp_refs:
            # the same-named producer of another stage: `stage0.X:ref` next to the relative `X:ref`
            base = draw(st.sampled_from(comp_refs))
            same = [i for i, p in enumerate(prods) if p["name"] == prods[base["p"]]["name"] and i != base["p"]]
            if same:
                add({"kind": "comp", "p": draw(st.sampled_from(same)), "path": base["path"], "method": base["method"]})
            else:
                add({"kind": "comp", "p": draw(st.integers(0, nprod - 1)), "path": None, "method": method})
        elif how in ("direct", "direct-pair"):
            path = draw(st.sampled_from(direct_pool))
            if path.startswith("/"):
                method = "ref"              # nothing is created outside the scratch directory
            add({"kind": "direct", "path": path, "method": method})
            if how == "direct-pair" and not path.startswith("/"):
                add({"kind": "comp", "p": draw(st.integers(0, nprod - 1)), "path": path, "method": method})
        else:
            p = draw(st.integers(0, nprod - 1))
            path = draw(st.sampled_from([None, None, ""] + path_pool)) if method == "ref" else \
                draw(st.sampled_from([None] + path_pool))
            add({"kind": "comp", "p": p, "path": path, "method": method})
    if not refs:
        refs.append({"kind": "comp", "p": 0, "path": None, "method": "ref"})
    used = list(range(len(refs)))
    # declared-only references (never substituted)
    for _ in range(draw(st.sampled_from([0, 0, 0, 1, 2]))):
        m = draw(st.sampled_from(DISTRACTOR_METHODS))
        p = draw(st.integers(0, nprod - 1))
        path = draw(st.sampled_from(FILE_POOL)) if m != "link" or draw(st.booleans()) else None
        if m == "extract":
            path = "a.tgz"
        add({"kind": "comp", "p": p, "path": path, "method": m})

    def rel_ok(r):
        return r["kind"] == "comp" and prods[r["p"]]["stage"] == cstage

    decl_rel = [bool(rel_ok(r) and draw(st.booleans())) for r in refs]
    first = list(draw(st.permutations(list(range(len(refs))))))
    orders = [first]
    if len(refs) > 1:
        orders.append(list(reversed(first)))
    if len(refs) > 2 and draw(st.integers(0, 2)) == 2:
        o = list(draw(st.permutations(list(range(len(refs))))))
        if o not in orders:
            orders.append(o)

    # occurrences: every substituted reference at least once, a few repeated
    occ = list(used) + draw(st.lists(st.sampled_from(used), max_size=2))
    occ = list(draw(st.permutations(occ)))
    main = {i: ("rel" if rel_ok(refs[i]) and draw(st.integers(0, 3)) != 0 else "abs") for i in used}
    tokens = []
    if draw(st.integers(0, 2)) == 2:
        tokens.append(["lit", draw(st.sampled_from(WORDS + names)) + draw(st.sampled_from(PRE_SEPS))])
    for n, i in enumerate(occ):
        sp = main[i]
        if rel_ok(refs[i]) and draw(st.integers(0, 7)) == 7:
            sp = "abs" if sp == "rel" else "rel"
        tokens.append(["ref", i, sp])
        last = n == len(occ) - 1
        text = ""
        tail = draw(st.sampled_from(["", "", "", "path", "colon", "glue"]))
        if tail == "path" and refs[i]["method"] == "ref":
            text += "/" + draw(st.sampled_from(FILE_POOL + names[:2]))
        elif tail == "glue":
            text += draw(st.sampled_from(GLUE))
        if last:
            if draw(st.booleans()):
                text += draw(st.sampled_from(POST_SEPS)) + draw(st.sampled_from(WORDS + names + [""]))
        elif tail == "colon":
            text += ":"                      # path-list idiom  A:ref:B:ref
        else:
            mid = draw(st.sampled_from(["", "", "word", "name"]))
            if mid:
                text += draw(st.sampled_from(POST_SEPS)) + \
                        draw(st.sampled_from(WORDS if mid == "word" else names + ["stage%d.%s" % (cstage, names[0])]))
            text += draw(st.sampled_from(PRE_SEPS))
        if text:
            tokens.append(["lit", text])

    mention = draw(st.integers(0, 11)) == 11
    for r in refs:
        if r["method"] != "output":
            continue
        loc = target_relpath(prods, r)
        if loc in contents:
            continue
        if mention and draw(st.booleans()):
            # file contents that happen to look like one of the declared references
            o = draw(st.sampled_from(used))
            contents[loc] = "see %s" % spelling(prods, cstage, refs[o], "rel" if rel_ok(refs[o]) else "abs")
        else:
            contents[loc] = draw(st.sampled_from(CONTENT_POOL + names[:2]))
    return {"refs": refs, "decl_rel": decl_rel, "orders": orders, "tokens": tokens}


@st.composite
def cases(draw, max_producers=5, max_refs=5, max_groups=3):
    cstage = draw(st.sampled_from([0, 0, 1, 1, 2]))
    prods = draw(_producers(cstage, max_producers))
    out_locs: List[str] = []
    contents: dict = {}
    groups = [draw(_group(prods, cstage, out_locs, contents, max_refs))
              for _ in range(draw(st.integers(1, max_groups)))]
    return {"producers": prods, "cstage": cstage, "groups": groups, "contents": contents}


# ----------------------------------------------------------------------------------------------------------
# rendering (pure functions of the case)
def spelling(prods, cstage: int, r: dict, how: str) -> str:
    if r["kind"] == "direct":
        return "%s:%s" % (r["path"], r["method"])
    p = prods[r["p"]]
    s = p["name"] if how == "rel" else "stage%d.%s" % (p["stage"], p["name"])
    if r["path"]:
        s += "/" + r["path"]
    elif r["path"] == "":
        s += "/"                       # an empty file part: the producer's directory, written with a trailing slash
    return "%s:%s" % (s, r["method"])


def spellings(prods, cstage: int, r: dict) -> List[str]:
    """All legal spellings of a reference in a consumer of stage `cstage`."""
    out = [spelling(prods, cstage, r, "abs")]
    if r["kind"] == "comp" and prods[r["p"]]["stage"] == cstage:
        out.append(spelling(prods, cstage, r, "rel"))
    return out


def target_relpath(prods, r: dict) -> Optional[str]:
    """Location the reference points at, relative to the instance directory (None for absolute paths)."""
    if r["kind"] == "direct":
        return None if r["path"].startswith("/") else r["path"]
    p = prods[r["p"]]
    base = "stages/stage%d/%s" % (p["stage"], p["name"])
    if r["path"]:
        return base + "/" + r["path"]
    if r["path"] == "":
        return base + "/"
    if r["method"] == "output":
        return base + "/out.stdout"
    return base


def arguments(case, group) -> str:
    out = []
    for t in group["tokens"]:
        if t[0] == "lit":
            out.append(t[1])
        else:
            out.append(spelling(case["producers"], case["cstage"], group["refs"][t[1]], t[2]))
    return "".join(out)


def declared(case, group, order) -> List[str]:
    return [spelling(case["producers"], case["cstage"], group["refs"][i], "rel" if group["decl_rel"][i] else "abs")
            for i in order]


def consumer_name(g: int, k: int) -> str:
    return "Cons%dv%d" % (g, k)


def flowir(case) -> dict:
    prods, cstage = case["producers"], case["cstage"]
    comps = [{"name": p["name"], "stage": p["stage"], "command": {"executable": "echo", "arguments": "hi"}}
             for p in prods]
    # stages must be contiguous from 0: pad empty earlier stages
    have = {p["stage"] for p in prods} | {cstage}
    for s in range(cstage):
        if s not in have:
            comps.append({"name": "Pad%d" % s, "stage": s, "command": {"executable": "echo", "arguments": "hi"}})
    for g, group in enumerate(case["groups"]):
        args = arguments(case, group)
        for k, order in enumerate(group["orders"]):
            comps.append({"name": consumer_name(g, k), "stage": cstage,
                          "command": {"executable": "echo", "arguments": args},
                          "references": declared(case, group, order)})
    return {"components": comps}
